"""CrossHair contracts over the real pure-Python kernel EasyFEA.FEM._linalg._KeepsFeAxes."""
from typing import Tuple

from EasyFEA.FEM._linalg import _KeepsFeAxes


def keeps_contract(axes: Tuple[int, ...], ndim: int) -> bool:
    """
    pre: 2 <= ndim <= 8
    pre: 1 <= len(axes) <= 3
    pre: all(-ndim <= a < ndim for a in axes)
    post: _ == all((a % ndim) >= 2 for a in axes)
    """
    return _KeepsFeAxes(axes, ndim)


def keeps_twin(axes: Tuple[int, ...], ndim: int) -> bool:
    """
    pre: 2 <= ndim <= 8
    pre: 1 <= len(axes) <= 3
    pre: all(-ndim <= a < ndim for a in axes)
    post: _ == all((a % ndim) >= 1 for a in axes)
    """
    # deliberately wrong post-condition (axis 1 = nPg counted as a tensor axis): must be refuted
    return _KeepsFeAxes(axes, ndim)
