"""Check harness: job fan-out, obligation bookkeeping, replay, known findings, evidence, exit codes."""

import hashlib
import json
import multiprocessing as mp
import os
import sys
import time
import traceback
from fractions import Fraction

from . import smt

VERIF = os.path.dirname(os.path.dirname(os.path.abspath(__file__)))
REPO = os.environ.get("VERIF_REPO", "/repo")
# tools only (seed sweeps on scratch trees): evidence of such runs goes elsewhere; the registered commands never set it
EVIDENCE_DIR = os.environ.get("VERIF_EVIDENCE_DIR") or os.path.join(VERIF, "evidence")
EXIT_OK, EXIT_VIOLATION, EXIT_INCONCLUSIVE, EXIT_HARNESS = 0, 1, 2, 3


def tier():
    return os.environ.get("VERIF_TIER", "quick")


def seed():
    try:
        return int(os.environ.get("VERIF_SEED", "0"))
    except ValueError:
        return 0


def jsonable(x):
    import numpy as np

    if isinstance(x, Fraction):
        if x.denominator == 1:
            return int(x)
        return float(x)
    if isinstance(x, dict):
        return {str(k): jsonable(v) for k, v in x.items()}
    if isinstance(x, (list, tuple)):
        return [jsonable(v) for v in x]
    if isinstance(x, np.ndarray):
        return jsonable(x.tolist())
    if isinstance(x, (np.integer,)):
        return int(x)
    if isinstance(x, (np.floating,)):
        return float(x)
    if isinstance(x, (str, int, float, bool)) or x is None:
        return x
    return repr(x)


class JobResult:
    """What one configuration (job) reports back to the parent process."""

    def __init__(self, config):
        self.config = config
        self.obligations = 0
        self.discharged = 0
        self.by_how = {}
        self.violations = []  # dicts: key, label, inputs, observed, expected, replayed(bool)
        self.inconclusive = []
        self.harness_errors = []
        self.out_of_reach = []
        self.twin_ok = 0
        self.twin_fail = []
        self.samples = []
        self.functions = set()
        self.stubs = set()
        self.paths = 0
        self.path_conditions = 0
        self.stats = {}
        self.wall_s = 0.0
        self.notes = []
        self.symbols = 0

    # --- recording
    def held(self, label, how="exact"):
        self.obligations += 1
        self.discharged += 1
        self.by_how[how] = self.by_how.get(how, 0) + 1

    def record(self, label, outcome, replay=None, key=None, sample=None):
        """outcome: engine.oblig.Outcome. replay(env) -> (reproduces: bool, info: dict)."""
        self.obligations += 1
        if outcome.status == "held":
            self.discharged += 1
            self.by_how[outcome.how] = self.by_how.get(outcome.how, 0) + 1
            if sample is not None and len(self.samples) < 3:
                self.samples.append(sample)
            return True
        if outcome.status == "inconclusive":
            self.inconclusive.append({"label": label, "detail": outcome.detail})
            return False
        # candidate counterexample -> replay on the unproxied code
        if len(self.violations) >= 5:
            self.extra_cex = getattr(self, "extra_cex", 0) + 1  # further failing obligations of this job: counted, not replayed
            return False
        if replay is None:
            self.harness_errors.append({"label": label, "detail": "counterexample without replay function"})
            return False
        try:
            ok, info = replay(outcome.env)
        except Exception as e:  # replay crashed: harness problem, not a violation
            self.harness_errors.append({"label": label, "detail": "replay raised " + repr(e), "tb": traceback.format_exc()[-1500:]})
            return False
        if ok:
            self.violations.append({"key": key or label, "label": label, "how": outcome.how, "info": jsonable(info)})
        else:
            self.harness_errors.append({"label": label, "detail": "counterexample did not reproduce on the real code", "info": jsonable(info)})
        return False

    def twin(self, label, refuted):
        if refuted:
            self.twin_ok += 1
        else:
            self.twin_fail.append(label)


def _run_job(args):
    fn, config = args
    t0 = time.time()
    smt.reset_stats()
    try:
        from . import facade as _facade

        _facade.OPAQUE_INV_FROM = None  # per-job switches must not leak between jobs run by the same worker
        _facade.USED_STUBS.clear()
        _facade._ACTIVE[0] = False
        _facade.EXACT_SQRT2[0] = False
        _facade.EXACT_SQRT_OF.clear()
        from . import sym as _sym

        _sym.INPLACE_PROMOTIONS[0] = 0
        from . import linsolve as _ls

        _ls.CRAMER_FORM[0] = False
    except Exception:
        pass
    try:
        res = fn(config)
        if not isinstance(res, JobResult):
            raise TypeError("job did not return a JobResult")
    except Exception as e:
        res = JobResult(config)
        res.harness_errors.append({"label": "job crashed", "detail": repr(e), "tb": traceback.format_exc()[-3000:]})
    res.stats = dict(smt.STATS)
    res.smt_samples = list(smt.SAMPLES)
    res.wall_s = time.time() - t0
    res.functions = sorted(res.functions)
    try:
        if _sym.INPLACE_PROMOTIONS[0]:
            res.stubs = set(res.stubs) | {"in-place arithmetic `float array (op)= symbolic scalar` -> rebinding to the object-dtype result (aliases of the float buffer are not updated; read-only buffers raise as in numpy)"}
    except Exception:
        pass
    res.stubs = sorted(res.stubs)
    return res


def _finite(o):
    """strict JSON: non-finite floats become strings"""
    if isinstance(o, float) and (o != o or o in (float("inf"), float("-inf"))):
        return repr(o)
    if isinstance(o, dict):
        return {k: _finite(v) for k, v in o.items()}
    if isinstance(o, (list, tuple)):
        return [_finite(v) for v in o]
    return o


def replay_request():
    """(path, stored violation) when the check was started with --replay <path>"""
    path = os.environ.get("VERIF_REPLAY")
    if not path:
        return None
    try:
        return path, json.load(open(path))
    except Exception as e:  # pragma: no cover
        print(f"HARNESS-ERROR cannot read replay file {path}: {e}")
        sys.exit(EXIT_HARNESS)


def _untuple(x):
    """JSON turned tuples into lists; job configurations use tuples"""
    if isinstance(x, list):
        return tuple(_untuple(v) for v in x)
    if isinstance(x, dict):
        return {k: _untuple(v) for k, v in x.items()}
    return x


def run_jobs(fn, configs, procs=None):
    rq = replay_request()
    if rq is not None:
        # --replay: only the job of the stored violation is run again (on the current /repo), whatever the tier's configuration list
        stored = rq[1].get("config")
        match = [c for c in configs if jsonable(c) == stored]
        configs = match[:1] or [_untuple(stored)]
    procs = procs or min(16, max(1, len(configs)))
    if procs == 1 or os.environ.get("VERIF_SERIAL"):
        return [_run_job((fn, c)) for c in configs]
    ctxm = mp.get_context("fork")
    with ctxm.Pool(procs, maxtasksperchild=8) as pool:
        return pool.map(_run_job, [(fn, c) for c in configs], chunksize=1)


def load_known(pid):
    path = os.path.join(VERIF, "known_findings.json")
    if not os.path.exists(path):
        return {}, []
    data = json.load(open(path))
    known = {f["key"]: f for f in data.get("findings", []) if f.get("property") == pid}
    fixed = [f for f in data.get("fixed", []) if f.get("property") == pid]
    return known, fixed


def repo_hash(files):
    h = hashlib.sha256()
    for f in sorted(set(files)):
        p = os.path.join(REPO, f)
        if os.path.isdir(p):
            for root, _, names in sorted(os.walk(p)):
                for n in sorted(names):
                    if n.endswith(".py"):
                        h.update(open(os.path.join(root, n), "rb").read())
        elif os.path.exists(p):
            h.update(open(p, "rb").read())
    return h.hexdigest()[:16]


def finish(pid, results, *, explanation, bound, symbolic, assumptions, source_files, t0, rule, exhaustive=True, extra=None):
    """Aggregate job results, print VIOLATION / KNOWN-FINDING lines, write evidence, exit."""
    known, fixed = load_known(pid)
    tot = dict(obligations=0, discharged=0, paths=0, path_conditions=0, twin_ok=0, symbols=0)
    by_how, stats = {}, {}
    violations, inconcl, herr, oor, twin_fail, samples, smt_samples, notes = [], [], [], [], [], [], [], []
    functions, stubs = set(), set()
    nontrivial = 0
    for r in results:
        tot["obligations"] += r.obligations
        tot["discharged"] += r.discharged
        tot["paths"] += r.paths
        tot["path_conditions"] += r.path_conditions
        tot["twin_ok"] += r.twin_ok
        tot["symbols"] += r.symbols
        for k, v in r.by_how.items():
            by_how[k] = by_how.get(k, 0) + v
        for k, v in r.stats.items():
            stats[k] = stats.get(k, 0) + v
        for v in r.violations:
            v["config"] = jsonable(r.config)
            violations.append(v)
        inconcl += [dict(x, config=jsonable(r.config)) for x in r.inconclusive]
        herr += [dict(x, config=jsonable(r.config)) for x in r.harness_errors]
        oor += [dict(x, config=jsonable(r.config)) for x in r.out_of_reach]
        twin_fail += [f"{jsonable(r.config)}: {x}" for x in r.twin_fail]
        if len(samples) < 8:
            samples += [jsonable(s) for s in r.samples[: 8 - len(samples)]]
        if len(smt_samples) < 4:
            smt_samples += getattr(r, "smt_samples", [])[: 4 - len(smt_samples)]
        functions |= set(r.functions)
        stubs |= set(r.stubs)
        notes += r.notes
        if r.obligations > 0 and r.symbols > 0:
            nontrivial += 1

    rq = replay_request()
    if rq is not None:
        # replay mode: report whether the stored violation reproduces; the evidence file and the replay directory are left untouched
        path, stored = rq
        again = [v for v in violations if v["key"] == stored.get("key")]
        for x in herr[:5]:
            print(f"HARNESS-ERROR property={pid} {x['label']}: {x['detail']}")
        if again:
            if stored.get("key") in known:
                print(f"KNOWN-FINDING: property={pid} {stored['key']} — {known[stored['key']].get('what', '')}")
                print(f"{pid} [replay] reproduced=yes (known finding) exit=0")
                sys.exit(EXIT_OK)
            print(f"VIOLATION property={pid} replay={path}")
            print(f"  {again[0]['key']}: {json.dumps(again[0]['info'])[:600]}")
            print(f"{pid} [replay] reproduced=yes exit=1")
            sys.exit(EXIT_VIOLATION)
        others = sorted({v["key"] for v in violations})
        print(f"{pid} [replay] reproduced=no (stored key: {stored.get('key')!r}; other failing obligations of that job now: {others[:5]}) exit={EXIT_HARNESS if herr else EXIT_OK}")
        sys.exit(EXIT_HARNESS if herr else EXIT_OK)

    os.makedirs(os.path.join(EVIDENCE_DIR, "replay"), exist_ok=True)
    # replay files of earlier runs of this property are stale (they describe another tree): only this run's are kept
    for name in os.listdir(os.path.join(EVIDENCE_DIR, "replay")):
        if name.startswith(pid + "_") and name.endswith(".json"):
            os.remove(os.path.join(EVIDENCE_DIR, "replay", name))
    new_violations = []
    lines = []
    seen_known = set()
    for i, v in enumerate(violations):
        if len(new_violations) >= 25 and v["key"] not in known:
            new_violations.append(v)
            continue
        if v["key"] in known:
            if v["key"] not in seen_known:
                seen_known.add(v["key"])
                lines.append(f"KNOWN-FINDING: property={pid} {v['key']} — {known[v['key']].get('what', '')}")
            continue
        path = os.path.join(EVIDENCE_DIR, "replay", f"{pid}_{len(new_violations)}.json")
        json.dump(_finite({"property": pid, **v}), open(path, "w"), indent=1)
        new_violations.append(v)
        lines.append(f"VIOLATION property={pid} replay={path}")
        lines.append(f"  {v['key']}: {json.dumps(v['info'])[:600]}")

    status = EXIT_OK
    if herr or twin_fail:
        status = EXIT_HARNESS
    if inconcl:
        status = max(status, EXIT_INCONCLUSIVE) if status != EXIT_HARNESS else status
    if new_violations:
        status = EXIT_VIOLATION

    wall = time.time() - t0
    coverage = {
        "explanation": explanation,
        "obligations": tot["obligations"],
        "discharged": tot["discharged"],
        "discharged_by": by_how,
        "evaluations": len(results),
        "distinct_nontrivial": nontrivial,
        "rule": rule,
        "exhaustive": bool(exhaustive),
        "samples": samples or [jsonable(results[0].config)] if results else ["none"],
        "bound": bound,
        "symbolic_inputs": symbolic,
        "symbols_total": tot["symbols"],
        "paths_explored": tot["paths"],
        "path_conditions_recorded": tot["path_conditions"],
        "functions_encoded": sorted(functions),
        "stubs": sorted(stubs),
        "solver": {k: (round(v, 3) if isinstance(v, float) else v) for k, v in stats.items()},
        "solver_versions": {"z3": __import__("z3").get_version_string(), "cvc5": getattr(__import__("cvc5"), "__version__", "?")},
        "query_samples": smt_samples,
        "reachability_twins_refuted": tot["twin_ok"],
        "reachability_twins_failed": twin_fail,
        "inconclusive": inconcl[:20],
        "harness_errors": herr[:20],
        "outside_claim_this_run": oor[:40],
        "known_findings_reported": sorted(seen_known),
        "further_failing_obligations_not_replayed": sum(getattr(r, "extra_cex", 0) for r in results),
        "source_hash": repo_hash(source_files),
        "notes": notes[:20],
        "exit_status": status,
    }
    if extra:
        coverage.update(extra)
    ev = {
        "property_id": pid,
        "tier": tier() if tier() in ("quick", "thorough") else "quick",
        "seed": seed(),
        "level": "other",
        "coverage": coverage,
        "assumptions": assumptions,
        "wall_s": round(wall, 2),
        "violations": len(new_violations),
    }
    os.makedirs(EVIDENCE_DIR, exist_ok=True)
    with open(os.path.join(EVIDENCE_DIR, f"{pid}.json"), "w") as f:
        json.dump(ev, f, indent=1)

    for ln in lines:
        print(ln)
    for x in inconcl[:10]:
        print(f"INCONCLUSIVE property={pid} {x['label']} {x.get('detail', '')} config={x['config']}")
    for x in herr[:10]:
        print(f"HARNESS-ERROR property={pid} {x['label']}: {x['detail']} config={x['config']}")
        if x.get("tb"):
            print(x["tb"])
    for x in twin_fail[:10]:
        print(f"HARNESS-ERROR property={pid} reachability twin not refuted: {x}")
    print(
        f"{pid} [{tier()}] jobs={len(results)} obligations={tot['obligations']} discharged={tot['discharged']} "
        f"({by_how}) queries={stats.get('queries', 0)} unsat={stats.get('unsat', 0)} sat={stats.get('sat', 0)} "
        f"unknown={stats.get('unknown', 0)} solver_s={stats.get('solver_s', 0):.1f} twins={tot['twin_ok']} "
        f"violations={len(new_violations)} known={len(seen_known)} wall={wall:.1f}s exit={status}"
    )
    sys.stdout.flush()
    sys.exit(status)
