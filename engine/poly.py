"""Sparse multivariate polynomials over Q in eager normal form.

A polynomial is a dict  monomial -> Fraction  where a monomial is a tuple of (var_id, exponent)
pairs sorted by var_id (the empty tuple is the constant monomial).  Zero coefficients are never
stored, so `not p.t` <=> p is the zero polynomial: an identity between values built from exactly
representable constants reduces to the empty dict.
"""

from fractions import Fraction
from itertools import chain

_F0 = Fraction(0)
_F1 = Fraction(1)


def _mono_mul(a, b):
    if not a:
        return b
    if not b:
        return a
    out = []
    i = j = 0
    la, lb = len(a), len(b)
    while i < la and j < lb:
        va, ea = a[i]
        vb, eb = b[j]
        if va == vb:
            out.append((va, ea + eb))
            i += 1
            j += 1
        elif va < vb:
            out.append(a[i])
            i += 1
        else:
            out.append(b[j])
            j += 1
    if i < la:
        out.extend(a[i:])
    if j < lb:
        out.extend(b[j:])
    return tuple(out)


def _mono_div(a, b):
    """a / b or None when b does not divide a."""
    if not b:
        return a
    da = dict(a)
    for v, e in b:
        ea = da.get(v, 0)
        if ea < e:
            return None
        if ea == e:
            del da[v]
        else:
            da[v] = ea - e
    return tuple(sorted(da.items()))


def _mono_gcd(a, b):
    db = dict(b)
    return tuple((v, min(e, db[v])) for v, e in a if v in db)


def _mono_key(m):
    # graded lexicographic order, used as the term order of exact division
    return (sum(e for _, e in m), tuple((-v, e) for v, e in m))


class Poly:
    __slots__ = ("t",)

    def __init__(self, terms=None):
        self.t = terms if terms is not None else {}

    # ---- constructors
    @staticmethod
    def const(c):
        c = Fraction(c)
        return Poly({(): c}) if c else Poly()

    @staticmethod
    def var(vid):
        return Poly({((vid, 1),): _F1})

    # ---- predicates
    def is_zero(self):
        return not self.t

    def is_const(self):
        return not self.t or (len(self.t) == 1 and () in self.t)

    def const_value(self):
        return self.t.get((), _F0)

    def vars(self):
        s = set()
        for m in self.t:
            for v, _ in m:
                s.add(v)
        return s

    def degree(self):
        return max((sum(e for _, e in m) for m in self.t), default=0)

    def nterms(self):
        return len(self.t)

    # ---- arithmetic
    def __neg__(self):
        return Poly({m: -c for m, c in self.t.items()})

    def add(self, o):
        if not o.t:
            return self
        if not self.t:
            return o
        a, b = (self.t, o.t) if len(self.t) >= len(o.t) else (o.t, self.t)
        r = dict(a)
        for m, c in b.items():
            s = r.get(m)
            if s is None:
                r[m] = c
            else:
                s = s + c
                if s:
                    r[m] = s
                else:
                    del r[m]
        return Poly(r)

    def sub(self, o):
        if not o.t:
            return self
        r = dict(self.t)
        for m, c in o.t.items():
            s = r.get(m)
            if s is None:
                r[m] = -c
            else:
                s = s - c
                if s:
                    r[m] = s
                else:
                    del r[m]
        return Poly(r)

    def scale(self, c):
        if not c:
            return Poly()
        if c == 1:
            return self
        return Poly({m: k * c for m, k in self.t.items()})

    def mul(self, o):
        if not self.t or not o.t:
            return Poly()
        if len(o.t) == 1:
            (mb, cb), = o.t.items()
            if not mb:
                return self.scale(cb)
            return Poly({_mono_mul(m, mb): c * cb for m, c in self.t.items()})
        if len(self.t) == 1:
            return o.mul(self)
        r = {}
        for ma, ca in self.t.items():
            for mb, cb in o.t.items():
                m = _mono_mul(ma, mb)
                s = r.get(m)
                if s is None:
                    r[m] = ca * cb
                else:
                    s = s + ca * cb
                    if s:
                        r[m] = s
                    else:
                        del r[m]
        return Poly(r)

    def pow(self, n):
        assert n >= 0
        result = Poly.const(1)
        base = self
        while n:
            if n & 1:
                result = result.mul(base)
            n >>= 1
            if n:
                base = base.mul(base)
        return result

    def __eq__(self, o):
        return isinstance(o, Poly) and self.t == o.t

    def __hash__(self):
        return hash(frozenset(self.t.items()))

    # ---- calculus / evaluation
    def diff(self, vid):
        r = {}
        for m, c in self.t.items():
            for k, (v, e) in enumerate(m):
                if v == vid:
                    nm = m[:k] + (((v, e - 1),) if e > 1 else ()) + m[k + 1 :]
                    r[nm] = r.get(nm, _F0) + c * e
                    break
        return Poly({m: c for m, c in r.items() if c})

    def eval(self, env):
        """env: vid -> number (Fraction for exact results)."""
        tot = 0
        for m, c in self.t.items():
            x = c
            for v, e in m:
                x = x * env[v] ** e
            tot = tot + x
        return tot

    def subs(self, vid, p):
        """Substitute polynomial p for variable vid."""
        r = Poly()
        cache = {}
        for m, c in self.t.items():
            e = 0
            rest = []
            for v, k in m:
                if v == vid:
                    e = k
                else:
                    rest.append((v, k))
            base = Poly({tuple(rest): c})
            if e:
                if e not in cache:
                    cache[e] = p.pow(e)
                base = base.mul(cache[e])
            r = r.add(base)
        return r

    def coeffs_in(self, vid):
        """Return dict exponent -> Poly (coefficients of self seen as univariate in vid)."""
        out = {}
        for m, c in self.t.items():
            e = 0
            rest = []
            for v, k in m:
                if v == vid:
                    e = k
                else:
                    rest.append((v, k))
            out.setdefault(e, {})[tuple(rest)] = c
        return {e: Poly(d) for e, d in out.items()}

    # ---- division helpers
    def content_monomial(self):
        it = iter(self.t)
        try:
            g = next(it)
        except StopIteration:
            return ()
        for m in it:
            if not g:
                break
            g = _mono_gcd(g, m)
        return g

    def div_monomial(self, mono):
        if not mono:
            return self
        return Poly({_mono_div(m, mono): c for m, c in self.t.items()})

    def leading(self):
        m = max(self.t, key=_mono_key)
        return m, self.t[m]

    def exact_div(self, o, max_steps=20000):
        """self / o when the division is exact, else None."""
        if not o.t:
            raise ZeroDivisionError
        if o.is_const():
            return self.scale(1 / o.const_value())
        if not self.t:
            return Poly()
        lm, lc = o.leading()
        rem = dict(self.t)
        q = {}
        steps = 0
        while rem:
            steps += 1
            if steps > max_steps:
                return None
            m = max(rem, key=_mono_key)
            c = rem[m]
            d = _mono_div(m, lm)
            if d is None:
                return None
            qc = c / lc
            q[d] = qc
            for mo, co in o.t.items():
                mm = _mono_mul(mo, d)
                s = rem.get(mm, _F0) - co * qc
                if s:
                    rem[mm] = s
                else:
                    rem.pop(mm, None)
        return Poly(q)

    def __repr__(self):
        if not self.t:
            return "0"
        parts = []
        for m, c in sorted(self.t.items(), key=lambda kv: _mono_key(kv[0])):
            mon = "*".join(f"v{v}" + (f"^{e}" if e > 1 else "") for v, e in m)
            parts.append(f"{c}" + (f"*{mon}" if mon else ""))
        return " + ".join(parts)
