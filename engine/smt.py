"""SMT back ends (DESIGN.md sections 2.4, 3.3).

The deciding step of every obligation is a solver verdict:
  * `decide(conds)`              exact query over the reals (QF_LRA or QF_NRA), z3, fresh solver per
                                 non-linear query;
  * `decide_relaxed(...)`        monomial-box relaxation: every non-linear monomial becomes a fresh
                                 variable ranging over its exact interval on the box, linear
                                 assumptions are kept, non-linear ones dropped -> QF_LRA. `unsat` of the
                                 relaxation implies `unsat` of the exact query (sound for "holds").
  * `cross_check(...)`           re-decides the same query with cvc5 (time-limited).
`unknown`, timeouts and solver errors are reported as inconclusive, never as success.
"""

from fractions import Fraction
import time

import z3

from .poly import Poly
from .sym import Cond, Sym, ctx, _NEG

STATS = {
    "queries": 0,
    "unsat": 0,
    "sat": 0,
    "unknown": 0,
    "linear": 0,
    "nonlinear": 0,
    "solver_s": 0.0,
    "cvc5_queries": 0,
    "cvc5_agree": 0,
    "cvc5_unknown": 0,
    "cvc5_s": 0.0,
    "closed_by_normal_form": 0,
    "shadow_refuted": 0,
}
SAMPLES = []  # a few actual queries in SMT-LIB form, for the evidence


def reset_stats():
    for k in STATS:
        STATS[k] = 0.0 if k.endswith("_s") else 0
    SAMPLES.clear()


def merge_stats(other):
    for k, v in other.items():
        STATS[k] = STATS.get(k, 0) + v


def _rv(mod, f):
    f = Fraction(f)
    if f.denominator == 1:
        return mod.RealVal(str(f.numerator))
    return mod.RealVal(f"{f.numerator}/{f.denominator}")


class Enc:
    """Encoder of polynomials/conditions for one backend module (z3 or cvc5.pythonic)."""

    def __init__(self, mod=z3, names=None):
        self.mod = mod
        self.vars = {}
        self.names = names if names is not None else ctx().names
        self._mono = {}

    def var(self, vid):
        v = self.vars.get(vid)
        if v is None:
            nm = self.names[vid] if isinstance(vid, int) and vid < len(self.names) else str(vid)
            v = self.mod.Real(f"{nm}#{vid}")
            self.vars[vid] = v
        return v

    def mono(self, m):
        e = self._mono.get(m)
        if e is None:
            e = None
            for v, k in m:
                x = self.var(v)
                for _ in range(k):
                    e = x if e is None else e * x
            self._mono[m] = e
        return e

    def poly(self, p):
        mod = self.mod
        terms = []
        for m, c in p.t.items():
            if not m:
                terms.append(_rv(mod, c))
            elif c == 1:
                terms.append(self.mono(m))
            else:
                terms.append(_rv(mod, c) * self.mono(m))
        if not terms:
            return _rv(mod, 0)
        if len(terms) == 1:
            return terms[0]
        return mod.Sum(terms) if hasattr(mod, "Sum") else sum(terms[1:], terms[0])

    def cond(self, c):
        e = self.poly(c.p)
        z = _rv(self.mod, 0)
        op = c.op
        if op == "<":
            return e < z
        if op == "<=":
            return e <= z
        if op == ">":
            return e > z
        if op == ">=":
            return e >= z
        if op == "==":
            return e == z
        return e != z


def _is_linear(conds):
    for c in conds:
        if isinstance(c, Cond):
            if c.p.degree() > 1:
                return False
        else:  # ("or", [conds]) / ("and", [conds])
            if not _is_linear(c[1]):
                return False
    return True


def _encode(enc, c):
    if isinstance(c, Cond):
        return enc.cond(c)
    kind, sub = c
    parts = [_encode(enc, s) for s in sub]
    if kind == "or":
        return enc.mod.Or(*parts) if parts else enc.mod.BoolVal(False)
    if kind == "and":
        return enc.mod.And(*parts) if parts else enc.mod.BoolVal(True)
    if kind == "not":
        return enc.mod.Not(parts[0])
    raise ValueError(kind)


def _model_env(model, enc):
    env = {}
    for vid, zv in enc.vars.items():
        val = model.eval(zv, model_completion=True)
        try:
            env[vid] = Fraction(val.numerator_as_long(), val.denominator_as_long())
        except Exception:
            try:
                a = val.approx(30)
                env[vid] = Fraction(a.numerator_as_long(), a.denominator_as_long())
            except Exception:
                env[vid] = Fraction(0)
    return env


def decide(conds, timeout_ms=20000, label="", want_model=True, sample=True):
    """Satisfiability of the conjunction of `conds` (Cond or ("or"/"and", [...]) trees) over the reals.

    Returns (status, env) with status in {"unsat","sat","unknown"}; env: vid -> Fraction for "sat"."""
    t0 = time.time()
    enc = Enc(z3)
    linear = _is_linear(conds)
    exprs = [_encode(enc, c) for c in conds]
    if linear:
        s = z3.SolverFor("QF_LRA")
        s.set("arith.solver", 2)
    else:
        s = z3.Tactic("qfnra-nlsat").solver()
    s.set("timeout", int(timeout_ms))
    s.add(*exprs)
    if sample and len(SAMPLES) < 6:
        txt = s.to_smt2()
        if len(txt) < 6000:
            SAMPLES.append({"label": label, "smt2": txt})
        elif len(SAMPLES) < 2:
            SAMPLES.append({"label": label, "smt2_head": txt[:3000], "smt2_chars": len(txt)})
    try:
        r = s.check()
        status = str(r)
    except z3.Z3Exception as e:  # pragma: no cover
        status = "unknown"
    if status == "unknown" and timeout_ms <= 60000:
        # a time-out under machine load is not a verdict: one retry with four times the budget before reporting `unknown`
        STATS["retries"] = STATS.get("retries", 0) + 1
        s.set("timeout", int(timeout_ms) * 4)
        try:
            status = str(s.check())
        except z3.Z3Exception:  # pragma: no cover
            status = "unknown"
    env = None
    if status == "sat" and want_model:
        env = _model_env(s.model(), enc)
    dt = time.time() - t0
    STATS["queries"] += 1
    STATS[status] += 1
    STATS["linear" if linear else "nonlinear"] += 1
    STATS["solver_s"] += dt
    return status, env


def cross_check(conds, expected, timeout_ms=20000):
    """Re-decide with cvc5; returns True (agrees), False (disagrees) or None (cvc5 inconclusive)."""
    from cvc5 import pythonic as cp

    t0 = time.time()
    enc = Enc(cp)
    exprs = [_encode(enc, c) for c in conds]
    s = cp.Solver()
    s.setOption("tlimit-per", str(int(timeout_ms)))
    if not _is_linear(conds):
        s.setOption("nl-cov", "true")
    s.add(*exprs)
    try:
        r = str(s.check())
    except Exception:
        r = "unknown"
    STATS["cvc5_queries"] += 1
    STATS["cvc5_s"] += time.time() - t0
    if r not in ("sat", "unsat"):
        STATS["cvc5_unknown"] += 1
        return None
    if r == expected:
        STATS["cvc5_agree"] += 1
        return True
    return False


# --------------------------------------------------------------------------------------------------
# interval helpers for the monomial-box relaxation
def _pow_interval(lo, hi, e):
    if e % 2 == 1:
        return lo ** e, hi ** e
    a, b = lo ** e, hi ** e
    if lo <= 0 <= hi:
        return Fraction(0), max(a, b)
    return min(a, b), max(a, b)


def _mul_interval(a, b):
    c = (a[0] * b[0], a[0] * b[1], a[1] * b[0], a[1] * b[1])
    return min(c), max(c)


def mono_interval(m, box):
    iv = (Fraction(1), Fraction(1))
    for v, e in m:
        lo, hi = box[v]
        iv = _mul_interval(iv, _pow_interval(lo, hi, e))
    return iv


def poly_interval(p, box):
    lo = hi = Fraction(0)
    for m, c in p.t.items():
        a, b = mono_interval(m, box)
        if c >= 0:
            lo += c * a
            hi += c * b
        else:
            lo += c * b
            hi += c * a
    return lo, hi


def decide_relaxed(goal_conds, assumptions, box, timeout_ms=20000, label=""):
    """Monomial-box relaxation of  assumptions /\\ (goal_conds as a disjunction).

    Every monomial of degree >= 2 occurring in a goal polynomial becomes a fresh real variable bounded by
    its exact interval over `box` (vid -> (lo, hi)); linear assumptions over box variables are kept.
    `unsat` here implies the exact query is unsat."""
    t0 = time.time()
    s = z3.SolverFor("QF_LRA")
    s.set("arith.solver", 2)
    s.set("timeout", int(timeout_ms))
    zv = {}
    mono_vars = {}

    def var(v):
        if v not in zv:
            zv[v] = z3.Real(f"x{v}")
            lo, hi = box[v]
            s.add(zv[v] >= _rv(z3, lo), zv[v] <= _rv(z3, hi))
        return zv[v]

    def mono(m):
        if len(m) == 1 and m[0][1] == 1:
            return var(m[0][0])
        if m not in mono_vars:
            x = z3.Real("m" + "_".join(f"{v}e{e}" for v, e in m))
            lo, hi = mono_interval(m, box)
            s.add(x >= _rv(z3, lo), x <= _rv(z3, hi))
            mono_vars[m] = x
        return mono_vars[m]

    def lin(p):
        terms = []
        for m, c in p.t.items():
            terms.append(_rv(z3, c) if not m else _rv(z3, c) * mono(m))
        return z3.Sum(terms) if terms else _rv(z3, 0)

    def cnd(c):
        e = lin(c.p)
        z = _rv(z3, 0)
        return {"<": e < z, "<=": e <= z, ">": e > z, ">=": e >= z, "==": e == z, "!=": e != z}[c.op]

    for a in assumptions:
        if isinstance(a, Cond) and a.p.degree() <= 1 and all(v in box for v in a.p.vars()):
            s.add(cnd(a))
    s.add(z3.Or(*[cnd(g) for g in goal_conds]))
    if len(SAMPLES) < 6:
        txt = s.to_smt2()
        if len(txt) < 5000:
            SAMPLES.append({"label": label + " (monomial-box relaxation)", "smt2": txt})
    r = str(s.check())
    STATS["queries"] += 1
    STATS[r] += 1
    STATS["linear"] += 1
    STATS["solver_s"] += time.time() - t0
    return r
