"""Proof obligations: from a symbolic residual to solver queries (DESIGN.md section 3)."""

from fractions import Fraction
import math

from .poly import Poly
from .sym import Cond, Sym, as_sym, ctx
from . import smt


def _box_for(vids, c=None):
    """vid -> (lo, hi) for every variable; auxiliaries are bounded outward from their definitions.
    Returns None when some variable has no finite bound."""
    c = c or ctx()
    box = {}

    def bound(v, depth=0):
        if v in box:
            return box[v]
        lo, hi = c.dom.get(v, (None, None))
        if (lo is None or hi is None) and c.kind.get(v) == "aux" and depth < 8:
            kind, args = c.auxdef[v]
            if kind == "root":
                x, q = args
                if x.d.is_const():
                    sub = {}
                    ok = True
                    for w in x.n.vars():
                        b = bound(w, depth + 1)
                        if b is None:
                            ok = False
                            break
                        sub[w] = b
                    if ok:
                        xlo, xhi = smt.poly_interval(x.n.scale(1 / x.d.const_value()), sub)
                        up = Fraction(math.ceil((max(float(xhi), 0.0) ** (1.0 / q)) * (1 + 1e-9) * 2 ** 40 + 1), 2 ** 40)
                        if q % 2 == 0:
                            lo, hi = Fraction(0), up
                        else:
                            dn = Fraction(math.ceil((max(float(-xlo), 0.0) ** (1.0 / q)) * (1 + 1e-9) * 2 ** 40 + 1), 2 ** 40)
                            lo, hi = -dn, up
        if lo is None or hi is None:
            box[v] = None
            return None
        box[v] = (lo, hi)
        return box[v]

    for v in vids:
        if bound(v) is None:
            return None
    return {v: b for v, b in box.items() if b is not None}


def reduce_mod_sides(p, c=None):
    """Normal form of polynomial p modulo the defining equations of root auxiliaries
    (r^q -> x when x is a polynomial) and registered algebraic relations (e.g. s^2 -> 1 - c^2)."""
    c = c or ctx()
    changed = True
    guard = 0
    while changed and guard < 50:
        changed = False
        guard += 1
        for v in list(p.vars()):
            rule = c.auxdef.get(v)
            if rule is None:
                continue
            kind, args = rule
            if kind == "root":
                x, q = args
                if not x.d.is_const():
                    continue
                xp = x.n.scale(1 / x.d.const_value())
            elif kind == "alg":  # v^q = polynomial
                xp, q = args
            else:
                continue
            co = p.coeffs_in(v)
            if not co or max(co) < q:
                continue
            newp = Poly()
            vp = Poly.var(v)
            for e, cf in co.items():
                k, r = divmod(e, q)
                term = cf
                if k:
                    term = term.mul(xp.pow(k))
                if r:
                    term = term.mul(vp.pow(r))
                newp = newp.add(term)
            p = newp
            changed = True
    return p


def unit_pair(name="rot"):
    """(c, s) with c^2 + s^2 = 1 : s is an algebraic auxiliary-like input with rewrite s^2 -> 1 - c^2."""
    c = ctx()
    cs = c.var(name + "_c", -1, 1, shadow=Fraction(3, 5))
    sn = c.var(name + "_s", -1, 1, shadow=Fraction(4, 5))
    from .sym import _vid

    vs, vc = _vid(sn), _vid(cs)
    c.auxdef[vs] = ("alg", (Poly.const(1).sub(Poly.var(vc).pow(2)), 2))
    c.alg[vs] = (2, Poly.const(1).sub(Poly.var(vc).pow(2)))  # eager rewrite s^2 -> 1 - c^2
    c.side.append(Cond(Poly.var(vc).pow(2).add(Poly.var(vs).pow(2)).sub(Poly.const(1)), "==", "c^2+s^2=1"))
    return cs, sn


def angle(name="theta", shadow_cs=(Fraction(3, 5), Fraction(4, 5))):
    """A symbolic angle: returns theta (only usable through cos / sin of a constant multiple of it) and its pair (c, s)."""
    import math

    c = ctx()
    cs, sn = unit_pair(name)
    c.set_shadow({_vid_of(cs): shadow_cs[0], _vid_of(sn): shadow_cs[1]})
    th = c.var(name, shadow=Fraction(math.atan2(float(shadow_cs[1]), float(shadow_cs[0])) * 180 / math.pi).limit_denominator(10 ** 6))
    c.angles[_vid_of(th)] = {"c": cs, "s": sn, "coef": None}
    return th, cs, sn


def _vid_of(v):
    from .sym import _vid

    return _vid(v)


class Outcome:
    __slots__ = ("status", "env", "how", "detail")

    def __init__(self, status, env=None, how="", detail=""):
        self.status = status  # "held" | "cex" | "inconclusive"
        self.env = env
        self.how = how
        self.detail = detail

    def __repr__(self):
        return f"Outcome({self.status}, {self.how})"


def _shadow_env(c):
    return dict(c.shadow)


def prove_abs_le(res, tol, assumptions=None, label="", timeout_ms=20000, exact_first=False, reduce=True):
    """Decide  for all x in box /\\ assumptions : |res(x)| <= tol  (tol a Fraction >= 0).

    The assumptions are the domain, the relevant side constraints and the recorded path condition."""
    c = ctx()
    res = as_sym(res)
    tol = Fraction(tol)
    n, d = res.n, res.d
    if reduce and c.auxdef:
        n = reduce_mod_sides(n)
        if not d.is_const():
            d = reduce_mod_sides(d)
    if n.is_zero():
        smt.STATS["closed_by_normal_form"] += 1
        return Outcome("held", how="normal-form")
    vids = n.vars() | d.vars()
    allv = c.closure(vids)
    conds = list(c.domain_conds(allv)) + c.side_for(allv)
    if assumptions is None:
        assumptions = [pc for pc in c.pc if pc.vars() <= allv or pc.vars() & allv]
        allv = allv | set().union(*[a.vars() for a in assumptions]) if assumptions else allv
        allv = c.closure(allv)
        conds = list(c.domain_conds(allv)) + c.side_for(allv)
    conds = conds + list(assumptions)

    # (1) shadow point: satisfies the assumptions by construction
    env = c.shadow
    has_aux = any(c.kind.get(v) == "aux" for v in vids)
    try:
        dv = d.eval(env)
        if dv != 0:
            val = n.eval(env) / dv
            slack = Fraction(1, 10 ** 7) if has_aux else 0  # aux shadows are float approximations
            if abs(val) > tol + slack * (1 + abs(val)):
                smt.STATS["shadow_refuted"] += 1
                return Outcome("cex", env=_shadow_env(c), how="shadow", detail=f"|res|={float(abs(val)):.6g}")
    except ZeroDivisionError:
        pass

    T = Poly.const(tol)
    if d.is_const():
        k = d.const_value()
        P = n.scale(1 / k)
        def interval_bound(Pq, tolq):
            """sound fallback outside the solver: interval bound of the residual over the box"""
            bx0 = _box_for(Pq.vars())
            if bx0 is None:
                return None
            lo0, hi0 = smt.poly_interval(Pq, bx0)
            if max(abs(lo0), abs(hi0)) <= tolq:
                smt.STATS["closed_by_interval"] = smt.STATS.get("closed_by_interval", 0) + 1
                return Outcome("held", how="interval")
            return None

        if tol > 0:
            # residuals that are exact cancellations of exactly solved systems carry coefficients ~1e-16 written as rationals with hundreds
            # of digits, which the solvers handle badly: those go to the interval bound first; everything else is decided by the solver and
            # falls back to the interval bound only when the solver answers `unknown`
            bits = sum(cf.numerator.bit_length() + cf.denominator.bit_length() for cf in P.t.values())
            if bits > 40000:
                o_iv = interval_bound(P, tol)
                if o_iv is not None:
                    return o_iv
        if tol > 0 and len(P.vars()) > 12:
            # many tiny-range variables (enclosure errors of the verified linear solve): their terms are bounded by interval arithmetic and
            # moved into the tolerance, |P_a + P_e| <= |P_a| + max|P_e|; the solver then sees the small polynomial P_a only
            bx = _box_for(P.vars())
            if bx is not None:
                tiny = {v for v in P.vars() if bx[v][1] - bx[v][0] <= Fraction(1, 10 ** 6) and abs(bx[v][0]) <= Fraction(1, 10 ** 6)}
                if tiny:
                    Pe = Poly({m: cf for m, cf in P.t.items() if any(v in tiny for v, _ in m)})
                    lo_, hi_ = smt.poly_interval(Pe, bx)
                    bnd = max(abs(lo_), abs(hi_))
                    if bnd <= tol / 2:
                        P = Poly({m: cf for m, cf in P.t.items() if not any(v in tiny for v, _ in m)})
                        tol = tol - bnd
                        T = Poly.const(tol)
                        smt.STATS["tiny_terms_bounded"] = smt.STATS.get("tiny_terms_bounded", 0) + 1
                        if P.is_zero():
                            return Outcome("held", how="interval")
        goals = [Cond(P.sub(T), ">", "res > tol"), Cond(P.add(T), "<", "res < -tol")]
        if tol == 0:
            goals = [Cond(P, "!=", "res != 0")]
        goal = ("or", goals)
        box = _box_for(P.vars())
        small = P.nterms() <= 60 and P.degree() <= 8 and len(P.vars()) <= 8
        linear_goal = P.degree() <= 1
        if linear_goal or (small and exact_first) or box is None:
            st, m = smt.decide(conds + [goal], timeout_ms, label)
            if st == "unsat":
                return Outcome("held", how="exact")
            if st == "sat":
                return Outcome("cex", env=m, how="exact")
            if box is None:
                return Outcome("inconclusive", how="exact", detail="unknown/timeout, no box for relaxation")
        if tol > 0 and box is not None:
            r = smt.decide_relaxed(goals, conds, box, timeout_ms, label)
            if r == "unsat":
                return Outcome("held", how="relaxation")
        st, m = smt.decide(conds + [goal], timeout_ms, label)
        if st == "unsat":
            return Outcome("held", how="exact")
        if st == "sat":
            return Outcome("cex", env=m, how="exact")
        if tol > 0:
            o_iv = interval_bound(P, tol)
            if o_iv is not None:
                return o_iv
        return Outcome("inconclusive", how="exact", detail="unknown/timeout")
    # rational residual: |n| <= tol |d| and d != 0
    box = _box_for(n.vars() | d.vars())
    if box is not None and tol > 0:
        try:
            sd = d.eval(env)
        except Exception:
            sd = 0
        if sd != 0:
            dd = d if sd > 0 else -d
            nn = n if sd > 0 else -n
            goals = [Cond(dd, "<=", "denominator sign"), Cond(nn.sub(dd.mul(T)), ">", ""), Cond(nn.add(dd.mul(T)), "<", "")]
            r = smt.decide_relaxed(goals, conds, box, timeout_ms, label)
            if r == "unsat":
                return Outcome("held", how="relaxation")
    pos = ("and", [Cond(d, ">", ""), ("or", [Cond(n.sub(d.mul(T)), ">", ""), Cond(n.add(d.mul(T)), "<", "")])])
    neg = ("and", [Cond(d, "<", ""), ("or", [Cond(n.sub(d.mul(T)), "<", ""), Cond(n.add(d.mul(T)), ">", "")])])
    goal = ("or", [pos, neg, Cond(d, "==", "division by zero")])
    st, m = smt.decide(conds + [goal], timeout_ms, label)
    if st == "unsat":
        return Outcome("held", how="exact")
    if st == "sat":
        return Outcome("cex", env=m, how="exact")
    return Outcome("inconclusive", how="exact", detail="unknown/timeout")


def prove_zero_on_equalities(res, assumptions):
    """Algebraic shortcut for `res == 0` on a lower-dimensional region: equalities are read off the assumptions (explicit `==`, and pairs
    p >= 0 and p <= 0); an equality that is linear in an auxiliary variable with a constant coefficient eliminates it (also from the
    auxiliaries' defining equations, which become polynomial generators g); the numerator of res, reduced, must then be zero or an
    exact polynomial multiple of one generator g (res = h g, g = 0 on the region).  Returns an Outcome or None when it does not apply."""
    c = ctx()
    res = as_sym(res)
    n = reduce_mod_sides(res.n)
    if n.is_zero():
        return Outcome("held", how="normal-form")
    eqs = []
    seen = {}
    for a in assumptions or []:
        if not isinstance(a, Cond):
            continue
        if a.op == "==":
            eqs.append(a.p)
        elif a.op in (">=", "<="):
            k = a.p
            kn = -a.p
            if (k, a.op) in seen:
                continue
            seen[(k, a.op)] = True
            opp = "<=" if a.op == ">=" else ">="
            if (k, opp) in seen or (kn, a.op) in seen:
                eqs.append(a.p)
    if not eqs:
        return None
    gens = [cd.p for cd in c.side if cd.op == "=="]
    # eliminate variables through equalities linear in them
    for e in eqs:
        target = None
        for v in sorted(e.vars(), key=lambda vv: (c.kind.get(vv) != "aux", vv)):
            co = e.coeffs_in(v)
            if max(co) == 1 and co[1].is_const() and not co[1].is_zero():
                target = (v, co)
                break
        if target is None:
            gens.append(e)
            continue
        v, co = target
        expr = (-co.get(0, Poly())).scale(1 / co[1].const_value())
        n = n.subs(v, expr)
        gens = [g.subs(v, expr) for g in gens]
        eqs = [x.subs(v, expr) if x is not e else x for x in eqs]
    n = reduce_mod_sides(n)
    if n.is_zero():
        return Outcome("held", how="normal-form")
    # square roots of constants (e.g. the exact sqrt(2)): elements a + b r of Q(r)[x]; divisibility is tested after multiplying by the conjugate
    const_roots = [v for v, (kind, args) in c.auxdef.items() if kind == "root" and args[1] == 2 and as_sym(args[0]).is_const()]
    for g in gens:
        g = reduce_mod_sides(g)
        if g.is_zero() or g.is_const():
            continue
        nn, gg = n, g
        for v in const_roots:
            if v not in gg.vars():
                continue
            co = gg.coeffs_in(v)
            conj = co.get(0, Poly()).sub(co.get(1, Poly()).mul(Poly.var(v)))
            gg = reduce_mod_sides(gg.mul(conj))
            nn = reduce_mod_sides(nn.mul(conj))
        if gg.is_zero() or gg.is_const():
            continue
        ok = True
        parts = [nn]
        for v in const_roots:
            parts = [cf for p_ in parts for cf in p_.coeffs_in(v).values()]
        for part in parts:
            if part.is_zero():
                continue
            try:
                q = part.exact_div(gg)
            except Exception:
                q = None
            if q is None:
                ok = False
                break
        if ok:
            return Outcome("held", how="exact-division")
    return None


def prove_cond(goal_holds, assumptions=None, label="", timeout_ms=20000):
    """Decide  for all x : assumptions => goal_holds  where goal_holds is a Cond (or tree).
    Sends assumptions /\\ not(goal)."""
    c = ctx()

    def neg(g):
        if isinstance(g, Cond):
            return g.negate()
        kind, sub = g
        if kind == "and":
            return ("or", [neg(s) for s in sub])
        if kind == "or":
            return ("and", [neg(s) for s in sub])
        raise ValueError

    def gv(g):
        if isinstance(g, Cond):
            return g.vars()
        out = set()
        for s in g[1]:
            out |= gv(s)
        return out

    vids = c.closure(gv(goal_holds))
    if assumptions is None:
        assumptions = [pc for pc in c.pc if pc.vars() & vids]
        for a in assumptions:
            vids |= a.vars()
        vids = c.closure(vids)
    conds = list(c.domain_conds(vids)) + c.side_for(vids) + list(assumptions)
    # shadow first
    try:
        def ev(g):
            if isinstance(g, Cond):
                return g.holds(c.shadow)
            kind, sub = g
            return all(ev(s) for s in sub) if kind == "and" else any(ev(s) for s in sub)

        if not ev(goal_holds) and not any(c.kind.get(v) == "aux" for v in vids):
            smt.STATS["shadow_refuted"] += 1
            return Outcome("cex", env=dict(c.shadow), how="shadow")
    except ZeroDivisionError:
        pass
    st, m = smt.decide(conds + [neg(goal_holds)], timeout_ms, label)
    if st == "unsat":
        return Outcome("held", how="exact")
    if st == "sat":
        return Outcome("cex", env=m, how="exact")
    return Outcome("inconclusive", how="exact", detail="unknown/timeout")
