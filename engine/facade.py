"""numpy / scipy facade (DESIGN.md section 2.2).

While `symbolic()` is active, the module-level names `np`, `sparse`, `sla` of the EasyFEA modules are
replaced by proxies that forward everything to numpy / scipy except what cannot hold a `Sym`:
allocators give dtype=object arrays, `np.linalg.*` works exactly on symbolic matrices (and demotes
symbol-free object arrays back to float for LAPACK), sparse constructors return the real scipy matrix
whenever the data holds no symbol and a small dense `SymMatrix` otherwise.  No file of /repo is touched.
"""

import contextlib
import sys
import types
from fractions import Fraction

import numpy as _np
import scipy.sparse as _sp

from .sym import sarr, SArr, Sym, as_sym, has_sym, demote, root, sym_abs, OutOfReach, Concretised, ctx
from . import linsolve

_ACTIVE = [False]
USED_STUBS = set()
EXACT_SQRT2 = [False]
EXACT_SQRT_OF = set()  # per-job: plain constants whose np.sqrt is kept as the exact algebraic number (e.g. 1.5 for the von Mises factor)
OPAQUE_INV_FROM = None  # when set to n: np.linalg.inv of a symbolic matrix of size >= n returns opaque fresh symbols (contract only)


def active():
    return _ACTIVE[0]


def _is_float_dtype(dtype):
    if dtype is None:
        return True
    try:
        return _np.dtype(dtype).kind == "f"
    except TypeError:
        return False


def _isnum0(x):
    if hasattr(x, "imag") and not isinstance(x, (int, float, Sym)) and hasattr(x, "real") and type(x).__name__ == "CSym":
        return x.real.n.is_zero() and x.imag.n.is_zero()
    return (isinstance(x, (int, float)) and x == 0) or (isinstance(x, Sym) and x.n.is_zero())


# ------------------------------------------------------------------------------------------ SymMatrix
class SymMatrix:
    """Small dense object matrix answering the subset of the scipy.sparse API the solver layer uses."""

    has_canonical_format = True
    format = "csr"
    ndim = 2
    dtype = _np.dtype(object)

    def __init__(self, a):
        a = _np.asarray(a, dtype=object)
        if a.ndim == 1:
            a = a[:, None]
        self.a = a

    # -- construction
    @staticmethod
    def from_coo(data, rows, cols, shape):
        a = _np.zeros(shape, dtype=object)
        for v, i, j in zip(data, rows, cols):
            a[int(i), int(j)] = a[int(i), int(j)] + v
        return SymMatrix(a)

    @staticmethod
    def from_any(x):
        if isinstance(x, SymMatrix):
            return x
        if _sp.issparse(x):
            return SymMatrix(x.toarray().astype(object))
        return SymMatrix(x)

    @property
    def shape(self):
        return self.a.shape

    @property
    def nnz(self):
        return sum(0 if _isnum0(x) else 1 for x in self.a.flat)

    @property
    def data(self):
        return _np.array([x for x in self.a.flat if not _isnum0(x)], dtype=object)

    def count_nonzero(self):
        """value-dependent: every symbolic entry is compared with 0 (the comparison is a recorded path condition)"""
        return sum(1 for x in self.a.flat if (x != 0))

    @property
    def T(self):
        return SymMatrix(self.a.T.copy())

    def transpose(self):
        return self.T

    def toarray(self):
        return self.a.copy() if _ACTIVE[0] else demote(self.a.copy())

    def _pattern(self):
        rows, cols = [], []
        for i in range(self.a.shape[0]):
            for j in range(self.a.shape[1]):
                if not _isnum0(self.a[i, j]):
                    rows.append(i)
                    cols.append(j)
        counts = _np.bincount(_np.asarray(rows, dtype=int), minlength=self.a.shape[0]) if rows else _np.zeros(self.a.shape[0], dtype=int)
        indptr = _np.concatenate([[0], _np.cumsum(counts)]).astype(_np.int32)
        return indptr, _np.asarray(cols, dtype=_np.int32)

    @property
    def indptr(self):
        return self._pattern()[0]

    @property
    def indices(self):
        return self._pattern()[1]

    todense = toarray

    @property
    def A(self):
        return self.toarray()

    def copy(self):
        return SymMatrix(self.a.copy())

    def tocsr(self, copy=False):
        return self

    tocsc = tolil = tocoo = todok = tocsr

    def asformat(self, *a, **k):
        return self

    def astype(self, *a, **k):
        return self

    def eliminate_zeros(self):
        pass

    sort_indices = sum_duplicates = eliminate_zeros

    def getformat(self):
        return "csr"

    def nonzero(self):
        rows, cols = [], []
        for i in range(self.a.shape[0]):
            for j in range(self.a.shape[1]):
                if not _isnum0(self.a[i, j]):
                    rows.append(i)
                    cols.append(j)
        return _np.asarray(rows, dtype=int), _np.asarray(cols, dtype=int)

    def diagonal(self):
        return _np.array([self.a[i, i] for i in range(min(self.a.shape))], dtype=object)

    def sum(self, axis=None):
        return self.a.sum(axis=axis)

    # -- indexing (scipy spmatrix semantics: results stay 2-D)
    def __getitem__(self, key):
        if not isinstance(key, tuple):
            key = (key, slice(None))
        rk, ck = key
        r_int = isinstance(rk, (int, _np.integer))
        c_int = isinstance(ck, (int, _np.integer))
        if r_int and c_int:
            return self.a[rk, ck]
        r_arr = not r_int and not isinstance(rk, slice)
        c_arr = not c_int and not isinstance(ck, slice)
        if r_arr and c_arr:
            rr, cc = _np.asarray(rk), _np.asarray(ck)
            if rr.ndim == 1 and cc.ndim == 1:
                return SymMatrix(self.a[rr, cc][None, :])
            return SymMatrix(self.a[rr, cc])
        if r_int:
            return SymMatrix(self.a[rk, ck][None, :])
        if c_int:
            return SymMatrix(self.a[rk, ck][:, None])
        if r_arr:
            rk = _np.asarray(rk)
            if rk.dtype == bool:
                rk = _np.where(rk)[0]
            return SymMatrix(self.a[rk.astype(int)][:, ck])
        if c_arr:
            ck = _np.asarray(ck)
            if ck.dtype == bool:
                ck = _np.where(ck)[0]
            return SymMatrix(self.a[rk][:, ck.astype(int)])
        return SymMatrix(self.a[rk, ck])

    def __setitem__(self, key, val):
        if isinstance(val, SymMatrix):
            val = val.a
        elif _sp.issparse(val):
            val = val.toarray()
        if not isinstance(key, tuple):
            key = (key, slice(None))
        if isinstance(val, _np.ndarray):
            tgt = self.a[key]
            if isinstance(tgt, _np.ndarray) and val.size == tgt.size:
                val = val.reshape(tgt.shape)
        self.a[key] = val

    # -- arithmetic
    @staticmethod
    def _dense(o):
        if isinstance(o, SymMatrix):
            return o.a
        if _sp.issparse(o):
            return o.toarray()
        return _np.asarray(o)

    def __add__(self, o):
        if isinstance(o, (int, float)) and o == 0:
            return self
        d = self._dense(o)
        if d.ndim == 1:
            d = d[:, None]
        return SymMatrix(self.a + d.astype(object))

    __radd__ = __add__

    def __sub__(self, o):
        d = self._dense(o)
        if d.ndim == 1:
            d = d[:, None]
        return SymMatrix(self.a - d.astype(object))

    def __rsub__(self, o):
        d = self._dense(o)
        if d.ndim == 1:
            d = d[:, None]
        return SymMatrix(d.astype(object) - self.a)

    def __neg__(self):
        return SymMatrix(-self.a)

    def _is_scalar(self, o):
        return isinstance(o, (int, float, Fraction, Sym, _np.integer, _np.floating)) or (isinstance(o, _np.ndarray) and o.ndim == 0)

    def __mul__(self, o):
        if self._is_scalar(o):
            return SymMatrix(self.a * o)
        return self.__matmul__(o)  # spmatrix semantics

    def __rmul__(self, o):
        if self._is_scalar(o):
            return SymMatrix(o * self.a)
        return self.__rmatmul__(o)

    def __truediv__(self, o):
        return SymMatrix(self.a / o)

    def multiply(self, o):
        return SymMatrix(self.a * self._dense(o).astype(object))

    def __matmul__(self, o):
        dense_operand = isinstance(o, _np.ndarray)  # scipy semantics: sparse @ dense ndarray -> dense ndarray
        res = _matmul(self.a, self._dense(o) if not dense_operand else o)
        if dense_operand:
            return res
        return SymMatrix(res)

    def dot(self, o):
        return self.__matmul__(o)

    def __rmatmul__(self, o):
        if _sp.issparse(o):
            return SymMatrix(_sparse_matmul(o, self.a))
        return SymMatrix(_matmul(_np.asarray(o), self.a))

    def __iadd__(self, o):
        return self.__add__(o)

    def __isub__(self, o):
        return self.__sub__(o)

    def __repr__(self):
        return f"<SymMatrix {self.a.shape}>"


def _matmul(A, B):
    """object-aware dense matmul that skips structural zeros."""
    A = _np.asarray(A)
    B = _np.asarray(B)
    vec = B.ndim == 1
    if vec:
        B = B[:, None]
    n, k = A.shape
    m = B.shape[1]
    out = _np.zeros((n, m), dtype=object)
    nzB = [[(j, B[j, c]) for j in range(k) if not _isnum0(B[j, c])] for c in range(m)]
    for i in range(n):
        rowi = A[i]
        for c in range(m):
            s = 0
            for j, b in nzB[c]:
                a = rowi[j]
                if _isnum0(a):
                    continue
                s = s + a * b
            out[i, c] = s
    return out[:, 0] if vec else out


def _sparse_matmul(S, B):
    """real scipy sparse @ object dense (n,m)"""
    S = S.tocsr()
    B = _np.asarray(B)
    vec = B.ndim == 1
    if vec:
        B = B[:, None]
    n = S.shape[0]
    m = B.shape[1]
    out = _np.zeros((n, m), dtype=object)
    indptr, indices, data = S.indptr, S.indices, S.data
    for i in range(n):
        lo, hi = indptr[i], indptr[i + 1]
        if lo == hi:
            continue
        for c in range(m):
            s = 0
            for kk in range(lo, hi):
                b = B[indices[kk], c]
                if _isnum0(b):
                    continue
                s = s + float(data[kk]) * b
            out[i, c] = s
    return out[:, 0] if vec else out


def _patch_scipy_object_matmul():
    """real sparse @ object ndarray holding symbols: scipy cannot upcast to object -> exact loop."""
    from scipy.sparse import _base

    if getattr(_base._spbase, "_verif_patched", False):
        return
    orig = _base._spbase._matmul_dispatch

    def _matmul_dispatch(self, other):
        if isinstance(other, _np.ndarray) and other.dtype == object:
            if has_sym(other):
                USED_STUBS.add("scipy sparse @ object ndarray -> exact row loop (engine.facade._sparse_matmul)")
                return _sparse_matmul(self, other)
            other = demote(other)
        return orig(self, other)

    _base._spbase._matmul_dispatch = _matmul_dispatch
    _base._spbase._verif_patched = True


# ------------------------------------------------------------------------------------------ numpy proxy
class _LinalgProxy:
    def __getattr__(self, name):
        return getattr(_np.linalg, name)

    def norm(self, x, ord=None, axis=None, keepdims=False):
        if isinstance(x, Sym):
            return sym_abs(x)
        x = _np.asarray(x)
        if x.ndim == 0 and x.dtype == object:
            return sym_abs(x.item()) if isinstance(x.item(), Sym) else abs(x.item())
        if x.dtype != object or not has_sym(x):
            return _np.linalg.norm(demote(x), ord=ord, axis=axis, keepdims=keepdims)
        if ord not in (None, 2, "fro"):
            raise OutOfReach(f"norm ord={ord} of a symbolic array")
        USED_STUBS.add("np.linalg.norm(symbolic) -> sqrt auxiliary of the sum of squares")
        sq = (x * x).sum(axis=axis, keepdims=keepdims)
        if isinstance(sq, _np.ndarray):
            out = _np.empty(sq.shape, dtype=object)
            for idx in _np.ndindex(*sq.shape):
                out[idx] = root(sq[idx], 2) if isinstance(sq[idx], Sym) else _np.sqrt(float(sq[idx]))
            return out
        return root(sq, 2)

    def eigh(self, a, *args, **kw):
        # LAPACK: object arrays holding only plain numbers (born under the facade) are demoted; a symbolic matrix is out of reach
        a = _np.asarray(a)
        if a.dtype == object:
            if has_sym(a):
                raise OutOfReach("np.linalg.eigh of a symbolic matrix")
            a = demote(a)
        return _np.linalg.eigh(a, *args, **kw)

    def _batched(self, a, fn, out_mat):
        a = _np.asarray(a)
        lead = a.shape[:-2]
        n = a.shape[-1]
        res = _np.empty(lead + ((n, n) if out_mat else ()), dtype=object)
        for idx in _np.ndindex(*lead):
            res[idx] = fn(a[idx]) if out_mat else fn(a[idx])
        return res

    def det(self, a):
        a = _np.asarray(a)
        if a.dtype != object or not has_sym(a):
            return _np.linalg.det(demote(a))
        USED_STUBS.add("np.linalg.det(symbolic) -> exact fraction-free elimination")
        if a.ndim == 2:
            return linsolve.det_sym(a)
        return self._batched(a, linsolve.det_sym, False)

    def inv(self, a):
        a = _np.asarray(a)
        if a.dtype != object or not has_sym(a):
            return _np.linalg.inv(demote(a))
        USED_STUBS.add("np.linalg.inv(symbolic) -> exact fraction-free elimination (assumes det != 0, recorded)")

        def one(m):
            if OPAQUE_INV_FROM is not None and m.shape[-1] >= OPAQUE_INV_FROM:
                USED_STUBS.add("np.linalg.inv(dense symbolic matrix of size >= %d) -> opaque fresh symbols (LAPACK contract, not used by the assertions of this job)" % OPAQUE_INV_FROM)
                n_ = m.shape[-1]
                out = _np.empty((n_, n_), dtype=object)
                cc = ctx()
                for i in range(n_):
                    for j in range(n_):
                        out[i, j] = cc.var(f"inv{len(cc.names)}[{i},{j}]", kind="aux", shadow=0)
                        cc.auxdef[len(cc.names) - 1] = ("opaque", ())
                return out
            X, det = linsolve.inv_sym(m)
            _record_nonzero(det, "matrix inverted by np.linalg.inv is non-singular")
            return X

        if a.ndim == 2:
            return one(a)
        return self._batched(a, one, True)

    def solve(self, a, b):
        # numpy wraps the result in the ndarray subclass of its inputs (FeArray in, FeArray out)
        wrap = next((type(x) for x in (a, b) if isinstance(x, _np.ndarray) and type(x) not in (_np.ndarray, SArr)), None)
        a0, b0 = a, b
        a = _np.asarray(a)
        b = _np.asarray(b)
        if not has_sym(a) and not has_sym(b):
            if a.dtype != object and b.dtype != object:
                return _np.linalg.solve(a0, b0)  # untouched: numpy keeps the subclass of its inputs
            out = _np.linalg.solve(demote(a), demote(b))
            return out.view(wrap) if wrap is not None else out
        USED_STUBS.add("np.linalg.solve(symbolic) -> exact fraction-free elimination")
        if a.ndim != 2:
            # stacks of systems (..., n, n) x (..., n, m): one exact elimination per leading index (matrix right-hand sides only)
            if b.ndim != a.ndim or b.shape[:-2] != a.shape[:-2]:
                raise OutOfReach("batched symbolic np.linalg.solve with broadcasting / vector right-hand sides")
            out = _np.empty(b.shape, dtype=object)
            for idx in _np.ndindex(*a.shape[:-2]):
                ai, bi = a[idx], b[idx]
                if not has_sym(ai) and not has_sym(bi):
                    out[idx] = _np.linalg.solve(demote(ai), demote(bi))
                    continue
                Xi, det = linsolve.solve_sym(ai, bi)
                _record_nonzero(det, "matrix of np.linalg.solve is non-singular")
                out[idx] = Xi
            return out.view(wrap) if wrap is not None else sarr(out)
        X, det = linsolve.solve_sym(a, b)
        _record_nonzero(det, "matrix of np.linalg.solve is non-singular")
        return X[:, 0] if b.ndim == 1 else X


def _record_nonzero(det, why):
    from .sym import Cond

    det = as_sym(det)
    if not det.is_const():
        ctx().record(Cond(det.n, "!=", why))


_FLOAT_ALLOC = ("zeros", "ones", "empty")


class NpProxy:
    """Stands in for the `np` global of EasyFEA modules while symbolic mode is active."""

    def __init__(self):
        self.linalg = _LinalgProxy()

    def __getattr__(self, name):
        attr = getattr(_np, name)
        if not _ACTIVE[0] or not callable(attr) or isinstance(attr, type):
            return attr
        return _retrying(attr)

    # ---- allocators
    def zeros(self, shape, dtype=None, **k):
        if _ACTIVE[0] and _is_float_dtype(dtype):
            return sarr(_np.zeros(shape, dtype=object))
        return _np.zeros(shape, dtype=dtype or float, **k)

    def empty(self, shape, dtype=None, **k):
        if _ACTIVE[0] and _is_float_dtype(dtype):
            return sarr(_np.zeros(shape, dtype=object))
        return _np.empty(shape, dtype=dtype or float, **k)

    def ones(self, shape, dtype=None, **k):
        if _ACTIVE[0] and _is_float_dtype(dtype):
            a = _np.empty(shape, dtype=object)
            a.fill(1)
            return a
        return _np.ones(shape, dtype=dtype or float, **k)

    def full(self, shape, fill_value, dtype=None, **k):
        if _ACTIVE[0] and _is_float_dtype(dtype):
            a = _np.empty(shape, dtype=object)
            a.fill(fill_value)
            return a
        return _np.full(shape, fill_value, dtype=dtype, **k)

    def eye(self, N, M=None, k=0, dtype=None, **kw):
        if _ACTIVE[0] and _is_float_dtype(dtype):
            a = _np.eye(N, M, k).astype(object)
            out = _np.zeros(a.shape, dtype=object)
            out[a == 1.0] = 1
            return out
        return _np.eye(N, M, k, dtype=dtype or float, **kw)

    def identity(self, n, dtype=None):
        return self.eye(n, dtype=dtype)

    def zeros_like(self, a, dtype=None, **k):
        if _ACTIVE[0] and isinstance(a, _np.ndarray) and _is_float_dtype(dtype) and a.dtype.kind in "fO":
            out = _np.zeros(a.shape, dtype=object)
            return out.view(type(a)) if type(a) is not _np.ndarray else out
        return _np.zeros_like(a, dtype=dtype, **k)

    def ones_like(self, a, dtype=None, **k):
        if _ACTIVE[0] and isinstance(a, _np.ndarray) and _is_float_dtype(dtype) and a.dtype.kind in "fO":
            out = _np.empty(a.shape, dtype=object)
            out.fill(1)
            return out.view(type(a)) if type(a) is not _np.ndarray else out
        return _np.ones_like(a, dtype=dtype, **k)

    def empty_like(self, a, dtype=None, **k):
        return self.zeros_like(a, dtype=dtype, **k)

    # ---- conversions with dtype=float
    def _conv(self, fn, a, dtype=None, *args, **k):
        if _ACTIVE[0] and dtype is not None and _is_float_dtype(dtype):
            return sarr(fn(a, *args, dtype=object, **k))
        out = fn(a, *args, dtype=dtype, **k) if dtype is not None else fn(a, *args, **k)
        return sarr(out) if _ACTIVE[0] else out

    def concatenate(self, arrays, *a, **k):
        out = _np.concatenate(arrays, *a, **k)
        return sarr(out) if _ACTIVE[0] else out

    def array(self, a, dtype=None, *args, **k):
        return self._conv(_np.array, a, dtype, *args, **k)

    def asarray(self, a, dtype=None, *args, **k):
        return self._conv(_np.asarray, a, dtype, *args, **k)

    def asanyarray(self, a, dtype=None, *args, **k):
        return self._conv(_np.asanyarray, a, dtype, *args, **k)

    def ascontiguousarray(self, a, dtype=None, *args, **k):
        return self._conv(_np.ascontiguousarray, a, dtype, *args, **k)

    # ---- functions numpy has no object loop for
    def bincount(self, x, weights=None, minlength=0):
        if weights is not None and isinstance(weights, _np.ndarray) and weights.dtype == object:
            if not has_sym(weights):
                return _np.bincount(x, weights=demote(weights), minlength=minlength)
            USED_STUBS.add("np.bincount(weights=symbolic) -> python accumulation loop")
            n = max(int(minlength), int(_np.max(x)) + 1 if len(x) else 0)
            out = _np.zeros(n, dtype=object)
            for i, w in zip(x, weights):
                out[int(i)] = out[int(i)] + w
            return out
        return _np.bincount(x, weights=weights, minlength=minlength)

    def iscomplexobj(self, x):
        if isinstance(x, _np.ndarray) and x.dtype == object:
            from .sym import CSym

            return any(isinstance(v, (complex, CSym)) for v in x.flat)
        return _np.iscomplexobj(x)

    def isnan(self, x, *a, **k):
        if isinstance(x, Sym):
            return False
        if isinstance(x, _np.ndarray) and x.dtype == object:
            out = _np.zeros(x.shape, dtype=bool)
            for idx in _np.ndindex(*x.shape):
                v = x[idx]
                out[idx] = (not isinstance(v, Sym)) and v != v
            return out
        return _np.isnan(x, *a, **k)

    def isfinite(self, x, *a, **k):
        if isinstance(x, Sym):
            return True
        if isinstance(x, _np.ndarray) and x.dtype == object:
            out = _np.ones(x.shape, dtype=bool)
            for idx in _np.ndindex(*x.shape):
                v = x[idx]
                out[idx] = isinstance(v, Sym) or bool(_np.isfinite(float(v)))
            return out
        return _np.isfinite(x, *a, **k)

    def sqrt(self, x, *a, **k):
        if _ACTIVE[0] and EXACT_SQRT2[0] and isinstance(x, (int, float)) and x == 2:
            # the Kelvin-Mandel factor as the exact algebraic number r > 0, r^2 = 2 (per-job switch): identities hold modulo r^2 = 2
            return root(as_sym(2), 2)
        if _ACTIVE[0] and EXACT_SQRT_OF and isinstance(x, (int, float)) and x in EXACT_SQRT_OF:
            return root(as_sym(Fraction(x)), 2)
        if isinstance(x, Sym):
            return root(x, 2)
        if isinstance(x, _np.ndarray) and x.dtype == object:
            if not has_sym(x):
                return _np.sqrt(demote(x), *a, **k)
            out = _np.empty(x.shape, dtype=object)
            for idx in _np.ndindex(*x.shape):
                v = x[idx]
                if isinstance(v, Sym) and not v.is_const():
                    v = _normalise_const(v)
                if isinstance(v, Sym) and v.is_const():
                    v = v.const_value()
                out[idx] = root(v, 2) if isinstance(v, Sym) else _exact_or_float_sqrt(v)
            return out.view(type(x)) if type(x) is not _np.ndarray else out
        return _np.sqrt(x, *a, **k)

    def heaviside(self, x, h0, *a, **k):
        """np.heaviside has no object loop: value-dependent three-way branch (recorded as path condition)"""
        if isinstance(x, Sym) or (isinstance(x, _np.ndarray) and x.dtype == object and has_sym(x)):
            xs = _np.asarray(x, dtype=object)
            out = _np.empty(xs.shape, dtype=object)
            for idx in _np.ndindex(*xs.shape):
                v = xs[idx]
                out[idx] = (1 if v > 0 else (0 if v < 0 else h0))
            USED_STUBS.add("np.heaviside(symbolic) -> three-way branch on the sign (path condition recorded)")
            if out.ndim == 0:
                return out.item()
            return out.view(type(x)) if isinstance(x, _np.ndarray) and type(x) is not _np.ndarray else out
        if isinstance(x, _np.ndarray) and x.dtype == object:
            x = demote(x)
        return _np.heaviside(x, h0, *a, **k)

    def sign(self, x, *a, **k):
        if isinstance(x, Sym) or (isinstance(x, _np.ndarray) and x.dtype == object and has_sym(x)):
            xs = _np.asarray(x, dtype=object)
            out = _np.empty(xs.shape, dtype=object)
            for idx in _np.ndindex(*xs.shape):
                v = xs[idx]
                out[idx] = (1 if v > 0 else (-1 if v < 0 else 0))
            if out.ndim == 0:
                return out.item()
            return out.view(type(x)) if isinstance(x, _np.ndarray) and type(x) is not _np.ndarray else out
        if isinstance(x, _np.ndarray) and x.dtype == object:
            x = demote(x)
        return _np.sign(x, *a, **k)

    def cos(self, x, *a, **k):
        return _elementwise(x, _np.cos, "cos")

    def sin(self, x, *a, **k):
        return _elementwise(x, _np.sin, "sin")

    def arccos(self, x, *a, **k):
        return _elementwise(x, _np.arccos, "arccos")

    def arctan2(self, y, x, *a, **k):
        if has_sym(y) or has_sym(x):
            raise OutOfReach("arctan2 of a symbolic value")
        return _np.arctan2(demote(_np.asarray(y)), demote(_np.asarray(x)), *a, **k)

    def exp(self, x, *a, **k):
        return _elementwise(x, _np.exp, "exp")

    def log(self, x, *a, **k):
        return _elementwise(x, _np.log, "log")

    def einsum(self, *operands, **kwargs):
        try:
            return _np.einsum(*operands, **kwargs)
        except (TypeError, ValueError):
            kwargs.pop("optimize", None)
            ops = [demote(o) if isinstance(o, _np.ndarray) and not has_sym(o) else o for o in operands]
            if any(isinstance(o, _np.ndarray) and o.dtype == object for o in ops):
                ops = [o.astype(object) if isinstance(o, _np.ndarray) else o for o in ops]
            return _np.einsum(*ops, **kwargs)


def _normalise_const(v):
    """a symbolic value written with auxiliaries that is in fact a constant (e.g. (a r)^2 / r^2 with r^2 = 2) -> that constant"""
    from .oblig import reduce_mod_sides

    if not ctx().auxdef:
        return v
    n, d = reduce_mod_sides(v.n), (v.d if v.d.is_const() else reduce_mod_sides(v.d))
    if n.is_const() and d.is_const() and not d.is_zero():
        return as_sym(n.const_value() / d.const_value())
    return v


def _exact_or_float_sqrt(v):
    """square root of a concrete entry of an object array: exact when the value is a rational square, else the float root"""
    from fractions import Fraction
    import math

    f = Fraction(v) if not isinstance(v, float) else Fraction(v)
    if f < 0:
        return float("nan")
    n, d = math.isqrt(f.numerator), math.isqrt(f.denominator)
    if n * n == f.numerator and d * d == f.denominator:
        return Fraction(n, d)
    return math.sqrt(float(f))


def _elementwise(x, fn, name):
    from .sym import sym_exp, sym_log

    if isinstance(x, Sym):
        if x.is_const():
            return float(fn(float(x.const_value())))
        if name in ("cos", "sin"):
            return x._transc(name)  # registered angle -> algebraic pair, else OutOfReach
        if name == "exp":
            return sym_exp(x)
        if name == "log":
            return sym_log(x)
        raise OutOfReach(f"{name} of a symbolic value")
    if isinstance(x, _np.ndarray) and x.dtype == object:
        if not has_sym(x):
            return fn(demote(x))
        out = _np.empty(x.shape, dtype=object)
        for idx in _np.ndindex(*x.shape):
            out[idx] = _elementwise(x[idx], fn, name) if isinstance(x[idx], Sym) else float(fn(float(x[idx])))
        return out.view(type(x)) if type(x) is not _np.ndarray else out
    return fn(x)


def _retrying(fn):
    def wrapper(*args, **kwargs):
        try:
            return fn(*args, **kwargs)
        except (TypeError, ValueError, AttributeError) as e:
            dargs = [demote(a) if isinstance(a, _np.ndarray) else a for a in args]
            dkw = {k: demote(v) if isinstance(v, _np.ndarray) else v for k, v in kwargs.items()}
            changed = any(a is not b for a, b in zip(args, dargs)) or any(kwargs[k] is not dkw[k] for k in kwargs)
            if not changed:
                raise
            return fn(*dargs, **dkw)

    wrapper.__name__ = getattr(fn, "__name__", "np_fn")
    if isinstance(fn, _np.ufunc):
        # ufunc methods stay reachable on the wrapper (np.add.at, np.maximum.reduce, np.multiply.outer, ...)
        for meth in ("at", "reduce", "outer", "accumulate", "reduceat"):
            if hasattr(fn, meth):
                setattr(wrapper, meth, getattr(fn, meth))
    return wrapper


# ------------------------------------------------------------------------------------------ scipy proxy
class SparseProxy:
    def __getattr__(self, name):
        return getattr(_sp, name)

    def _matrix(self, arg1, shape=None, dtype=None, copy=False, real=_sp.csr_matrix):
        if isinstance(arg1, SymMatrix):
            return arg1
        if (isinstance(arg1, tuple) and len(arg1) == 2 and all(isinstance(v, (int, _np.integer)) for v in arg1)
                and dtype is not None and _np.dtype(dtype) == _np.dtype(object)):
            # empty matrix of a given shape asked with the dtype of a symbolic array: scipy refuses dtype=object
            if _ACTIVE[0]:
                return SymMatrix(_np.zeros((int(arg1[0]), int(arg1[1])), dtype=object))
            return real(arg1, dtype=float)
        if isinstance(arg1, tuple) and len(arg1) == 2 and isinstance(arg1[1], tuple):
            data, (rows, cols) = arg1
            data = _np.asarray(data)
            if data.dtype == object:
                if _ACTIVE[0] or has_sym(data):
                    USED_STUBS.add("scipy.sparse constructor with object data -> dense SymMatrix (duplicates summed like COO)")
                    return SymMatrix.from_coo(data, rows, cols, shape)
                data = demote(data)
            if _is_float_dtype(dtype):
                return real((data, (rows, cols)), shape=shape, dtype=dtype)
            return real((data, (rows, cols)), shape=shape, dtype=dtype)
        if isinstance(arg1, tuple) and len(arg1) == 3:
            data, indices, indptr = arg1
            data = _np.asarray(data)
            if data.dtype == object:
                if _ACTIVE[0] or has_sym(data):
                    USED_STUBS.add("scipy.sparse constructor with object data -> dense SymMatrix (duplicates summed like COO)")
                    rows = _np.repeat(_np.arange(len(indptr) - 1), _np.diff(indptr))
                    return SymMatrix.from_coo(data, rows, indices, shape)
                data = demote(data)
            return real((data, indices, indptr), shape=shape, dtype=dtype)
        if isinstance(arg1, _np.ndarray) and arg1.dtype == object:
            if _ACTIVE[0] or has_sym(arg1):
                return SymMatrix(arg1.copy())
            arg1 = demote(arg1)
        return real(arg1, shape=shape, dtype=dtype)

    def __init__(self):
        proxy = self

        def make(real):
            class _Meta(type):
                def __instancecheck__(cls, x):
                    return isinstance(x, (real, SymMatrix))

                def __call__(cls, arg1, shape=None, dtype=None, copy=False):
                    return proxy._matrix(arg1, shape, dtype, copy, real)

            return _Meta(real.__name__, (), {})

        self.csr_matrix = make(_sp.csr_matrix)
        self.csc_matrix = make(_sp.csc_matrix)
        self.lil_matrix = make(_sp.lil_matrix)
        self.coo_matrix = make(_sp.coo_matrix)

    def diags(self, diagonals, offsets=0, shape=None, format=None, dtype=None):
        d = _np.asarray(diagonals)
        if d.dtype == object:
            if _ACTIVE[0] or has_sym(d):
                n = len(d)
                a = _np.zeros((n, n), dtype=object)
                for i in range(n):
                    a[i, i] = d[i]
                return SymMatrix(a)
            diagonals = demote(d)
        return _sp.diags(diagonals, offsets, shape=shape, format=format, dtype=dtype)

    def issparse(self, x):
        return isinstance(x, SymMatrix) or _sp.issparse(x)


class SlaProxy:
    def __getattr__(self, name):
        import scipy.sparse.linalg as sla

        return getattr(sla, name)

    def norm(self, A, *a, **k):
        import scipy.sparse.linalg as sla

        if isinstance(A, SymMatrix):
            return _LinalgProxy().norm(A.a.ravel())
        return sla.norm(A, *a, **k)


NP = NpProxy()
SPARSE = SparseProxy()
SLA = SlaProxy()


def _easyfea_modules():
    return [m for name, m in list(sys.modules.items()) if name.startswith("EasyFEA") and isinstance(m, types.ModuleType)]


_INSTALLED = [False]


def _install_inplace_promotion():
    """`A *= s` on a float FeArray with a symbolic `s` cannot store its result in the float buffer.  In symbolic mode the
    statement rebinds the name to the object-dtype product instead (as `A = A * s`); a read-only buffer (cached arrays are
    frozen by `cache_computed_values`) raises exactly as numpy does.  Aliases of the *float* buffer are therefore not
    updated - stated as a stub whenever it is used."""
    from EasyFEA.FEM._linalg import FeArray

    if getattr(FeArray, "_verif_inplace", False):
        return

    def make(opname, fn):
        base = getattr(_np.ndarray, opname)

        def inplace(self, other):
            if _ACTIVE[0] and self.dtype != object and has_sym(other):
                if not self.flags.writeable:
                    raise ValueError("output array is read-only")
                USED_STUBS.add("in-place arithmetic float FeArray (op)= symbolic -> rebinding to the object-dtype result (aliases of the float buffer not updated)")
                return fn(self.astype(object), other)
            return base(self, other)

        return inplace

    import operator

    for opname, fn in (("__imul__", operator.mul), ("__iadd__", operator.add), ("__isub__", operator.sub), ("__itruediv__", operator.truediv)):
        setattr(FeArray, opname, make(opname, fn))
    FeArray._verif_inplace = True


def _install_param_wrappers():
    """Utilities/_params checkers test isinstance(x, (int, float)); a Sym must go through the *same comparison*,
    which thereby lands in the path condition as the documented precondition."""
    from EasyFEA.Utilities import _params as P

    if getattr(P, "_verif_wrapped", False):
        return
    orig = {n: getattr(P, n) for n in ("_CheckIsScalar", "_CheckIsScalarOrField", "_CheckIsPositive", "_CheckIsNegative", "_CheckIsInIntervalcc", "_CheckIsInIntervaloo")}

    def scalar(value):
        if isinstance(value, Sym):
            return
        return orig["_CheckIsScalar"](value)

    def scalar_or_field(value):
        if isinstance(value, Sym):
            return
        return orig["_CheckIsScalarOrField"](value)

    def positive(value):
        if isinstance(value, Sym):
            assert value >= 0.0, "Must be >= 0!"
            return
        return orig["_CheckIsPositive"](value)

    def negative(value):
        if isinstance(value, Sym):
            assert value <= 0.0, "Must be <= 0!"
            return
        return orig["_CheckIsNegative"](value)

    def incc(value, inf, sup):
        if isinstance(value, Sym):
            assert inf < value < sup
            return
        return orig["_CheckIsInIntervalcc"](value, inf, sup)

    def inoo(value, inf, sup):
        if isinstance(value, Sym):
            assert inf <= value <= sup
            return
        return orig["_CheckIsInIntervaloo"](value, inf, sup)

    P._CheckIsScalar, P._CheckIsScalarOrField, P._CheckIsPositive = scalar, scalar_or_field, positive
    P._CheckIsNegative, P._CheckIsInIntervalcc, P._CheckIsInIntervaloo = negative, incc, inoo
    P._verif_wrapped = True
    USED_STUBS.add("Utilities._params checkers accept a Sym and perform the same comparison (recorded as path condition)")


def _least_squares_proxy(real):
    """scipy.optimize.least_squares (FFI) on CONCRETE data that happens to sit in object arrays while symbolic mode is on (numerical inverse of the
    isoparametric map for concrete query points): arguments and residuals are demoted to floats; a genuinely symbolic argument is out of reach"""

    def to_float(a):
        a = _np.asarray(a)
        if a.dtype == object:
            if has_sym(a):
                raise OutOfReach("scipy least_squares on symbolic data")
            return _np.array([float(v) for v in a.ravel()], dtype=float).reshape(a.shape)
        return a

    def wrapper(fun, x0, *a, **k):
        if not _ACTIVE[0]:
            return real(fun, x0, *a, **k)
        args = tuple(to_float(v) for v in k.pop("args", ()))
        USED_STUBS.add("scipy.optimize.least_squares runs concretely (numerical inverse map of concrete query points); symbolic arguments are out of reach")
        return real(lambda x, *aa: to_float(fun(x, *aa)), to_float(x0), *a, args=args, **k)

    wrapper.__module__ = "engine.facade"
    return wrapper


_FLOAT_CALL_MODULES = ("EasyFEA.Simulations._elastic", "EasyFEA.Simulations._hyperelastic")  # modules whose only use of the name `float` is the call float(total)


def _float_passthrough(x=0.0):
    """float(total energy): a symbolic scalar stays symbolic in symbolic mode (stub, recorded); anything else is the builtin conversion"""
    if _ACTIVE[0]:
        v = x.item() if isinstance(x, _np.ndarray) and x.ndim == 0 else x
        if isinstance(v, Sym):
            USED_STUBS.add("float(symbolic scalar) -> the symbolic scalar (total energies)")
            return v
    return float(x)


def install():
    """Replace np / sparse / sla in every loaded EasyFEA module by the proxies (idempotent).  With
    symbolic mode off the proxies forward to numpy/scipy, so behaviour is unchanged."""
    import EasyFEA  # noqa: F401
    import EasyFEA.Simulations  # noqa: F401
    import EasyFEA.Models  # noqa: F401

    _patch_scipy_object_matmul()
    _install_param_wrappers()
    _install_inplace_promotion()
    for m in _easyfea_modules():
        if getattr(m, "np", None) is _np:
            m.np = NP
        if getattr(m, "sparse", None) is _sp:
            m.sparse = SPARSE
        for nm in ("csr_matrix", "csc_matrix", "lil_matrix", "coo_matrix"):
            if getattr(m, nm, None) is getattr(_sp, nm):
                setattr(m, nm, getattr(SPARSE, nm))
        sla = getattr(m, "sla", None)
        if isinstance(sla, types.ModuleType) and sla.__name__ == "scipy.sparse.linalg":
            m.sla = SLA
        if m.__name__ in _FLOAT_CALL_MODULES and "float" not in vars(m):
            m.float = _float_passthrough
        ls = getattr(m, "least_squares", None)
        if ls is not None and getattr(ls, "__module__", "").startswith("scipy.optimize"):
            m.least_squares = _least_squares_proxy(ls)
    _INSTALLED[0] = True


@contextlib.contextmanager
def symbolic():
    """Symbolic mode: allocators return object arrays, symbolic data is accepted everywhere."""
    if not _INSTALLED[0]:
        install()
    prev = _ACTIVE[0]
    _ACTIVE[0] = True
    try:
        yield
    finally:
        _ACTIVE[0] = prev
