"""Environment stubs (DESIGN.md section 2.3): each one is listed in the evidence of the check that uses it."""

import contextlib
from fractions import Fraction

import numpy as np
import scipy.sparse as sp

from . import facade, linsolve
from .poly import Poly
from .sym import Sym, as_sym, has_sym, Cond, ctx

SOLVER_LOG = []  # (n, symbolic_A, singular)


def _dense_obj(M):
    if isinstance(M, facade.SymMatrix):
        return M.a
    if sp.issparse(M):
        return M.toarray()
    return np.asarray(M)


def ideal_solve(A, b):
    """The contract of every linear-solver backend: returns the x with A x = b (exactly, over Q).

    A concrete  -> fraction-free elimination, one right-hand side per monomial of b;
    A symbolic  -> adjugate/determinant form, the assumption det(A) != 0 is recorded as a path condition."""
    A = _dense_obj(A)
    B = _dense_obj(b)
    if B.ndim == 1:
        B = B[:, None]
    n = A.shape[0]
    if n == 0:
        return np.zeros(0, dtype=object)
    if has_sym(A):
        X, det = linsolve.solve_sym(A, B[:, :1])
        det = as_sym(det)
        if not det.is_const():
            ctx().record(Cond(det.n, "!=", "linear system handed to the solver is non-singular"))
        elif det.const_value() == 0:
            raise linsolve.Singular("singular symbolic system")
        SOLVER_LOG.append((n, True, False))
        return X[:, 0]
    monos = {}
    rows = []
    for i in range(n):
        s = as_sym(B[i, 0])
        if s.d.is_const():
            p, d = s.n.scale(1 / s.d.const_value()), None
        else:
            p, d = s.n, s.d
        rows.append((p, d))
        for m in p.t:
            monos.setdefault((m, d), len(monos))
    if not monos:
        monos[((), None)] = 0
    Bm = [[Fraction(0)] * len(monos) for _ in range(n)]
    for i, (p, d) in enumerate(rows):
        for m, cf in p.t.items():
            Bm[i][monos[(m, d)]] = cf
    Af = [[Fraction(float(v)) if not isinstance(v, Fraction) else v for v in A[i]] for i in range(n)]
    X = linsolve.solve_numeric(Af, Bm)
    out = np.empty(n, dtype=object)
    dens = {}
    for (m, d), k in monos.items():
        dens.setdefault(d, []).append((m, k))
    for i in range(n):
        tot = Sym(Poly())
        for d, lst in dens.items():
            num = Poly({m: X[i][k] for m, k in lst if X[i][k]})
            tot = tot + (Sym(num) if d is None else Sym.make(num, d))
        out[i] = tot
    SOLVER_LOG.append((n, False, False))
    return out


def _solve_axb_stub(simu, problemType, A, b, x0, lb, ub, resol=None, ownedDofs=None, mapping=None):
    facade.USED_STUBS.add("Solvers._Solve_Axb -> ideal solver (exact x with A x = b over Q): the FFI backends' contract")
    return ideal_solve(A, b)


@contextlib.contextmanager
def ideal_linear_solver():
    import EasyFEA.Simulations.Solvers as S

    orig = S._Solve_Axb
    S._Solve_Axb = _solve_axb_stub
    try:
        yield
    finally:
        S._Solve_Axb = orig


# ----------------------------------------------------------------------------------------------------
# Verified enclosure of the exact solution for larger concrete systems (DESIGN.md section 2.3, amended):
# x = Z b + e with a rigorous bound on e obtained from exact integer arithmetic on the float approximate
# inverse Z:  ||A^-1||_inf <= ||Z||_inf / (1 - ||I - Z A||_inf).  The error enters the result as fresh
# bounded symbolic variables, so every later obligation is decided for every value the exact solution can take.
def _to_int_matrix(A):
    A = np.asarray(A, dtype=float)
    m, e = np.frexp(A)
    mi = np.round(m * 2.0 ** 53).astype(np.int64)
    ex = e.astype(np.int64) - 53
    nz = mi != 0
    emin = int(ex[nz].min()) if nz.any() else 0
    out = np.zeros(A.shape, dtype=object)
    for idx in np.ndindex(*A.shape):
        v = int(mi[idx])
        out[idx] = (v << int(ex[idx] - emin)) if v else 0
    return out, emin  # A = out * 2**emin


def enclosure_inverse(A):
    """Z (float), rigorous upper bound on ||A^-1||_inf (Fraction)."""
    Z = np.linalg.inv(A)
    Ai, ea = _to_int_matrix(A)
    Zi, ez = _to_int_matrix(Z)
    P = Zi.dot(Ai)  # exact integers, scaled by 2**(ea+ez)
    sh = ea + ez
    n = A.shape[0]
    one = Fraction(1)
    scale = Fraction(2) ** sh
    worst = Fraction(0)
    for i in range(n):
        s = Fraction(0)
        row = P[i]
        for j in range(n):
            v = row[j] * scale
            if i == j:
                v = one - v
            s += abs(v)
        worst = max(worst, s)
    if worst >= Fraction(1, 2):
        raise linsolve.Singular(f"approximate inverse not accurate enough (||I - Z A|| = {float(worst):.3g}): matrix numerically singular")
    normZ = max(sum(abs(Fraction(float(v))) for v in Z[i]) for i in range(n))
    return Z, normZ / (1 - worst), worst


def enclosing_solve(A, b, tag="x"):
    """A concrete (n,n) floats, b vector of polynomial Sym. Returns x with x_i = (Z b)_i + delta_i, |delta_i| <= eps rigorous."""
    A = np.asarray(_dense_obj(A), dtype=float)
    B = _dense_obj(b)
    if B.ndim == 1:
        B = B[:, None]
    n = A.shape[0]
    c = ctx()
    monos = {}
    rows = []
    for i in range(n):
        s = as_sym(B[i, 0])
        if not s.d.is_const():
            raise NotImplementedError("rational right-hand side in enclosing_solve")
        p = s.n.scale(1 / s.d.const_value())
        rows.append(p)
        for m in p.t:
            monos.setdefault(m, len(monos))
    if not monos:
        return np.zeros(n, dtype=object)
    Z, normAinv, defect = enclosure_inverse(A)
    Ai, ea = _to_int_matrix(A)
    from . import smt as _smt

    out = [Poly() for _ in range(n)]
    eps = Fraction(0)
    for m, k in monos.items():
        bk = [rows[i].t.get(m, Fraction(0)) for i in range(n)]
        bkf = np.array([float(v) for v in bk])
        xk = Z @ bkf
        xi, ex = _to_int_matrix(xk.reshape(-1, 1))
        Ax = Ai.dot(xi)[:, 0]
        sc = Fraction(2) ** (ea + ex)
        r0 = [bk[i] - Ax[i] * sc for i in range(n)]
        # one step of iterative refinement with the EXACT residual: x = x0 + Z r0 (both parts kept as exact binary rationals),
        # whose own residual (again exact) is ~1e-30 instead of ~1e-15, so the enclosure radius becomes negligible
        dk = Z @ np.array([float(v) for v in r0])
        di, ed = _to_int_matrix(dk.reshape(-1, 1))
        Ad = Ai.dot(di)[:, 0]
        scd = Fraction(2) ** (ea + ed)
        rinf = max(abs(r0[i] - Ad[i] * scd) for i in range(n))
        xk_exact = [Fraction(float(xk[i])) + Fraction(float(dk[i])) for i in range(n)]
        # magnitude of the monomial over the box
        box = {}
        for v, e in m:
            lo, hi = c.dom.get(v, (None, None))
            if lo is None or hi is None:
                raise NotImplementedError("enclosing_solve needs bounded symbols")
            box[v] = (lo, hi)
        lo, hi = _smt.mono_interval(m, box) if m else (Fraction(1), Fraction(1))
        eps += normAinv * rinf * max(abs(lo), abs(hi))
        for i in range(n):
            v = xk_exact[i]
            if v:
                out[i] = out[i].add(Poly({m: v}))
    # round the bound up to a short dyadic rational
    import math

    epsf = Fraction(math.ceil(float(eps) * 2 ** 80 * (1 + 1e-9)) + 1, 2 ** 80)
    res = np.empty(n, dtype=object)
    for i in range(n):
        d = c.var(f"{tag}_err{i}_{len(c.names)}", -epsf, epsf, shadow=0, kind="input")
        res[i] = Sym(out[i]) + d
    SOLVER_LOG.append((n, False, float(epsf)))
    return res, epsf


EXACT_LIMIT = 45


def _solve_axb_enclosing(simu, problemType, A, b, x0, lb, ub, resol=None, ownedDofs=None, mapping=None):
    Ad = _dense_obj(A)
    if has_sym(Ad) or Ad.shape[0] <= EXACT_LIMIT:
        return _solve_axb_stub(simu, problemType, A, b, x0, lb, ub)
    facade.USED_STUBS.add("Solvers._Solve_Axb -> verified enclosure of the exact solution (float inverse + exact integer residual bound; "
                          "error carried as bounded symbolic variables) for systems larger than %d unknowns" % EXACT_LIMIT)
    x, eps = enclosing_solve(Ad, b)
    return x


@contextlib.contextmanager
def enclosing_linear_solver():
    import EasyFEA.Simulations.Solvers as S

    orig = S._Solve_Axb
    S._Solve_Axb = _solve_axb_enclosing
    try:
        yield
    finally:
        S._Solve_Axb = orig
