"""Environment stubs (DESIGN.md section 2.3): each one is listed in the evidence of the check that uses it."""

import contextlib
from fractions import Fraction

import numpy as np
import scipy.sparse as sp

from . import facade, linsolve
from .poly import Poly
from .sym import Sym, as_sym, has_sym, Cond, ctx

SOLVER_LOG = []  # (n, symbolic_A, singular)


def _dense_obj(M):
    if isinstance(M, facade.SymMatrix):
        return M.a
    if sp.issparse(M):
        return M.toarray()
    return np.asarray(M)


def ideal_solve(A, b):
    """The contract of every linear-solver backend: returns the x with A x = b (exactly, over Q).

    A concrete  -> fraction-free elimination, one right-hand side per monomial of b;
    A symbolic  -> adjugate/determinant form, the assumption det(A) != 0 is recorded as a path condition."""
    A = _dense_obj(A)
    B = _dense_obj(b)
    if B.ndim == 1:
        B = B[:, None]
    n = A.shape[0]
    if n == 0:
        return np.zeros(0, dtype=object)
    if has_sym(A):
        X, det = linsolve.solve_sym(A, B[:, :1])
        det = as_sym(det)
        if not det.is_const():
            ctx().record(Cond(det.n, "!=", "linear system handed to the solver is non-singular"))
        elif det.const_value() == 0:
            raise linsolve.Singular("singular symbolic system")
        SOLVER_LOG.append((n, True, False))
        return X[:, 0]
    monos = {}
    rows = []
    for i in range(n):
        s = as_sym(B[i, 0])
        if s.d.is_const():
            p, d = s.n.scale(1 / s.d.const_value()), None
        else:
            p, d = s.n, s.d
        rows.append((p, d))
        for m in p.t:
            monos.setdefault((m, d), len(monos))
    if not monos:
        monos[((), None)] = 0
    Bm = [[Fraction(0)] * len(monos) for _ in range(n)]
    for i, (p, d) in enumerate(rows):
        for m, cf in p.t.items():
            Bm[i][monos[(m, d)]] = cf
    Af = [[Fraction(float(v)) if not isinstance(v, Fraction) else v for v in A[i]] for i in range(n)]
    X = linsolve.solve_numeric(Af, Bm)
    out = np.empty(n, dtype=object)
    dens = {}
    for (m, d), k in monos.items():
        dens.setdefault(d, []).append((m, k))
    for i in range(n):
        tot = Sym(Poly())
        for d, lst in dens.items():
            num = Poly({m: X[i][k] for m, k in lst if X[i][k]})
            tot = tot + (Sym(num) if d is None else Sym.make(num, d))
        out[i] = tot
    SOLVER_LOG.append((n, False, False))
    return out


def _solve_axb_stub(simu, problemType, A, b, x0, lb, ub, resol=None, ownedDofs=None, mapping=None):
    facade.USED_STUBS.add("Solvers._Solve_Axb -> ideal solver (exact x with A x = b over Q): the FFI backends' contract")
    return ideal_solve(A, b)


@contextlib.contextmanager
def ideal_linear_solver():
    import EasyFEA.Simulations.Solvers as S

    orig = S._Solve_Axb
    S._Solve_Axb = _solve_axb_stub
    try:
        yield
    finally:
        S._Solve_Axb = orig
