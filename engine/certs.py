"""Numerical certificates whose *exactly implied* statement is decided by the solver (DESIGN.md section 3.3)."""

from fractions import Fraction

import numpy as np
import z3

from . import smt
from .stubs import _to_int_matrix


def exact_congruence(A, W):
    """W A W^T in exact rational arithmetic (integers scaled by powers of two)."""
    Ai, ea = _to_int_matrix(A)
    Wi, ew = _to_int_matrix(W)
    P = Wi.dot(Ai).dot(Wi.T)
    return P, ea + 2 * ew  # value = P * 2**shift


def definiteness_certificate(A, mu=0.0, label=""):
    """Decide  x^T (A - mu I) x > 0 for all x != 0  (A symmetric float matrix, taken at its exact binary value).

    Certificate: W = inverse of the Cholesky factor of A - mu I (triangular, non-zero diagonal => invertible), so
    x^T (A - mu I) x = w^T Ahat w with w = W^-T x and Ahat = W (A - mu I) W^T computed exactly.  The solver refutes
    'exists w, ||w||_inf = 1 : w^T Ahat w <= 0' in the row-wise relaxation  sum_i (Ahat_ii q_i + t_i) <= 0,
    q_i in [0,1], some q_k = 1, |t_i| <= R_i = sum_{j != i} |Ahat_ij|   (QF_LRA, 2n variables).
    Returns ("held", info) | ("fail", offending_vector, info)."""
    A = np.asarray(A, dtype=float)
    n = A.shape[0]
    As = 0.5 * (A + A.T)
    B = As - mu * np.eye(n)
    try:
        L = np.linalg.cholesky(B)
    except np.linalg.LinAlgError:
        w, V = np.linalg.eigh(As)
        return "fail", V[:, 0], {"reason": "no Cholesky factor", "min_eig_float": float(w[0])}
    W = np.linalg.inv(L)
    W = np.tril(W)
    if np.any(np.diag(W) == 0):
        return "fail", None, {"reason": "degenerate certificate"}
    # exact B (A symmetrised exactly: (A + A^T)/2 is exact in binary arithmetic up to one halving; use exact rationals)
    Bi, eb = _to_int_matrix(A)
    BiT = Bi.T
    Bsym = Bi + BiT  # = 2 * sym(A) * 2**-eb
    mui, em = _to_int_matrix(np.array([[mu]]))
    # bring to a common exponent: value = Bsym * 2**(eb-1) - mu * I
    e_common = min(eb - 1, em) if mu != 0 else eb - 1
    Bex = Bsym * (1 << int(eb - 1 - e_common))
    if mu != 0:
        mu_int = int(mui[0, 0]) << int(em - e_common)
        for i in range(n):
            Bex[i, i] = Bex[i, i] - mu_int
    Wi, ew = _to_int_matrix(W)
    P = Wi.dot(Bex).dot(Wi.T)
    shift = e_common + 2 * ew
    sc = Fraction(2) ** shift
    diag = [P[i, i] * sc for i in range(n)]
    R = []
    for i in range(n):
        s = 0
        row = P[i]
        for j in range(n):
            if j != i:
                s += abs(row[j])
        R.append(s * sc)
    # solver query
    s = z3.SolverFor("QF_LRA")
    s.set("arith.solver", 2)
    s.set("timeout", 60000)
    q = [z3.Real(f"q{i}") for i in range(n)]
    t = [z3.Real(f"t{i}") for i in range(n)]
    import time

    t0 = time.time()
    for i in range(n):
        s.add(q[i] >= 0, q[i] <= 1, t[i] >= -smt._rv(z3, R[i]), t[i] <= smt._rv(z3, R[i]))
    s.add(z3.Or(*[q[i] == 1 for i in range(n)]))
    s.add(z3.Sum([smt._rv(z3, diag[i]) * q[i] + t[i] for i in range(n)]) <= 0)
    r = str(s.check())
    smt.STATS["queries"] += 1
    smt.STATS[r] += 1
    smt.STATS["linear"] += 1
    smt.STATS["solver_s"] += time.time() - t0
    if len(smt.SAMPLES) < 3:
        smt.SAMPLES.append({"label": f"{label} definiteness certificate (row-wise relaxation, n={n})", "smt2_head": s.to_smt2()[:1500]})
    info = {"n": n, "max_offdiag_row_sum": float(max(R)), "min_diag": float(min(diag)), "mu": mu}
    if r == "unsat":
        return "held", None, info
    w, V = np.linalg.eigh(As)
    return "fail", V[:, 0], {**info, "solver": r, "min_eig_float": float(w[0])}


def rayleigh_exact(A, v, mu):
    """exact sign of v^T (sym A) v - mu v^T v"""
    A = np.asarray(A, dtype=float)
    n = A.shape[0]
    vf = [Fraction(float(x)) for x in v]
    tot = Fraction(0)
    for i in range(n):
        row = A[i]
        s = Fraction(0)
        for j in range(n):
            if row[j] != 0.0 and vf[j] != 0:
                s += Fraction(float(row[j])) * vf[j]
        tot += vf[i] * s
    nv = sum(x * x for x in vf)
    return tot - Fraction(float(mu)) * nv, nv


def pick_support(R):
    """rows of R (n,k) forming a well-conditioned k x k block (greedy pivoting)."""
    R = np.array(R, dtype=float)
    n, k = R.shape
    rows = []
    M = R.copy()
    for c in range(k):
        i = int(np.argmax(np.abs(M[:, c])))
        rows.append(i)
        piv = M[i, c]
        M = M - np.outer(M[:, c] / piv, M[i])
        M[i] = 0
    return rows
