"""Value-dependent path exploration (DESIGN.md section 3.4).

The real code is executed concolically: every comparison on a symbolic value takes the branch of the current shadow point and
records the condition.  One run therefore decides the obligations on ONE region of the input box (the conjunction PC_k of the
recorded conditions).  `explore` re-runs the body on new shadow points until the solver shows that the regions cover the box:

    box  /\\  side constraints of the auxiliaries  /\\  not PC_1  /\\ ... /\\  not PC_n      is unsat.

While the query is sat its model is the next shadow point (auxiliary shadows are recomputed from their definitions, exactly
when the radicand is a rational square).  Auxiliaries are functions of the inputs (r = sqrt(x), r >= 0), so
not (exists aux: side /\\ PC)  is  exists aux: side /\\ not PC  and no quantifier alternation is needed.
"""

import math
from fractions import Fraction

from . import smt
from .sym import Sym, as_sym, ctx, Cond, _vid


def _exact_root(x, q):
    x = Fraction(x)
    if x < 0:
        return None
    n, d = x.numerator, x.denominator
    if q == 2:
        a, b = math.isqrt(n), math.isqrt(d)
        if a * a == n and b * b == d:
            return Fraction(a, b)
        return None
    a, b = round(n ** (1.0 / q)), round(d ** (1.0 / q))
    for aa in (a - 1, a, a + 1):
        for bb in (b - 1, b, b + 1):
            if aa >= 0 and bb > 0 and aa ** q == n and bb ** q == d:
                return Fraction(aa, bb)
    return None


def reshadow(c, env_inputs):
    """move the shadow point: inputs from env_inputs, auxiliaries recomputed from their definitions (in creation order)"""
    for v, val in env_inputs.items():
        if c.kind.get(v) == "input":
            c.shadow[v] = Fraction(val)
    exact = True
    for vid in sorted(c.auxdef):
        kind, args = c.auxdef[vid]
        if kind == "root":
            x, q = args
            x = as_sym(x)
            dv = x.d.eval(c.shadow)
            xs = x.n.eval(c.shadow) / dv
            if xs < 0:
                xs = Fraction(0)  # radicand negative only through rounding of an approximate model value
            r = _exact_root(xs, q)
            if r is None:
                r = Fraction(float(xs) ** (1.0 / q))
                exact = False
            c.shadow[vid] = r
        # other auxiliary kinds keep their shadow (not used by the explored code)
    for s in c._aux_cache.values():
        if isinstance(s, Sym):
            s._sh = None
    return exact


def reset_pc(c):
    c.pc = []
    c._pc_keys = set()


def not_all(pcs):
    """negation of a conjunction of Conds as an or-tree"""
    return ("or", [p.negate() for p in pcs])


class Region:
    def __init__(self, index, shadow, pcs, result, exact_shadow):
        self.index, self.shadow, self.pcs, self.result, self.exact_shadow = index, shadow, pcs, result, exact_shadow


def explore(body, input_syms, max_regions=64, timeout_ms=30000, label="coverage", first_shadows=()):
    """body(region_index) is run once per region with the context's shadow positioned in that region; it returns any object.
    Returns (regions, status) with status in {"covered", "incomplete: ..."}; `first_shadows`: optional list of {vid: value}
    tried first (hand-picked representatives, e.g. degenerate states)."""
    c = ctx()
    vids = [_vid(s) for s in input_syms]
    regions = []
    pending = list(first_shadows)
    seen_models = set()
    status = None
    while len(regions) < max_regions:
        from_model_inexact = False
        if pending:
            env = pending.pop(0)
            # skip representatives that fall in a region already explored
            if any(all(p.holds(_full_env(c, env)) for p in r.pcs) for r in regions if _can_eval(c, env)):
                continue
            exact = reshadow(c, env)
        elif regions:
            conds = list(c.domain_conds(set(vids) | set(c.auxdef))) + list(c.side)
            for r in regions:
                conds.append(not_all(r.pcs) if r.pcs else Cond(as_sym(1).n, "<", "empty path condition covers everything"))
            st, model = smt.decide(conds, timeout_ms, label)
            if st == "unsat":
                status = "covered"
                break
            if st != "sat":
                status = "incomplete: coverage query " + st
                break
            env = {v: model.get(v, c.shadow[v]) for v in vids}
            key = tuple(env[v] for v in vids)
            if key in seen_models:
                status = "incomplete: the solver returned a point whose concolic run does not reproduce its region (approximate algebraic model)"
                break
            seen_models.add(key)
            exact = reshadow(c, env)
            # z3 prints algebraic numbers as decimal approximations: such a model value has a huge denominator
            from_model_inexact = any(Fraction(env[v]).denominator > 10 ** 12 for v in vids)
        else:
            exact = reshadow(c, {v: c.shadow[v] for v in vids})
        reset_pc(c)
        c.snap = None if exact and not from_model_inexact else Fraction(1, 10 ** 9)
        try:
            result = body(len(regions))
        finally:
            c.snap = None
        pcs = list(c.pc)
        # auxiliaries created during this run got their shadow from the run itself
        regions.append(Region(len(regions), {v: c.shadow[v] for v in vids}, pcs, result, exact))
        if not pcs:
            status = "covered"  # no value-dependent branch at all
            break
    if status is None:
        status = f"incomplete: more than {max_regions} regions"
    return regions, status


def _can_eval(c, env):
    return True


def _full_env(c, env):
    """environment with auxiliaries recomputed for the candidate inputs (without moving the context's shadow)"""
    full = dict(c.shadow)
    full.update({v: Fraction(x) for v, x in env.items()})
    for vid in sorted(c.auxdef):
        kind, args = c.auxdef[vid]
        if kind == "root":
            x, q = args
            x = as_sym(x)
            try:
                xs = x.n.eval(full) / x.d.eval(full)
            except ZeroDivisionError:
                continue
            if xs < 0:
                xs = Fraction(0)
            r = _exact_root(xs, q)
            full[vid] = r if r is not None else Fraction(float(xs) ** (1.0 / q))
    return full
