"""Exact linear algebra used by the stubs and the facade.

* `solve_numeric(A, B)`  A: (n,n) array of exact rationals (floats are taken at their binary value),
                         B: (n,m) array of Fractions -> X with A X = B exactly (fraction-free Bareiss over Z).
* `solve_sym(A, b)`      A, b object arrays of Sym/numbers -> x as Sym (adjugate / determinant form through
                         fraction-free elimination over Q[x]); the assumption det(A) != 0 is returned.
* `det_sym`, `inv_sym`   same machinery.
"""

from fractions import Fraction
from math import gcd

import numpy as np

from .poly import Poly
from .sym import Sym, as_sym, Cond, ctx


class Singular(Exception):
    pass


def _row_to_ints(row):
    """row of Fractions -> (ints, scale) with ints = row * scale"""
    l = 1
    for x in row:
        d = x.denominator
        l = l * d // gcd(l, d)
    return [int(x * l) for x in row], l


def solve_numeric(A, B):
    n = len(A)
    m = len(B[0]) if n else 0
    M = []
    for i in range(n):
        row = [Fraction(x) if not isinstance(x, Fraction) else x for x in A[i]] + list(B[i])
        ints, _ = _row_to_ints(row)
        g = 0
        for v in ints:
            g = gcd(g, v)
        if g > 1:
            ints = [v // g for v in ints]
        M.append(ints)
    # Bareiss fraction-free forward elimination with partial (largest magnitude) pivoting
    prev = 1
    for k in range(n):
        piv = max(range(k, n), key=lambda r: abs(M[r][k]))
        if M[piv][k] == 0:
            raise Singular(f"zero pivot at column {k}")
        if piv != k:
            M[k], M[piv] = M[piv], M[k]
            prev = -prev if False else prev  # sign irrelevant for solving
        pk = M[k][k]
        rowk = M[k]
        for i in range(k + 1, n):
            rowi = M[i]
            f = rowi[k]
            if f == 0:
                if prev != 1:
                    M[i] = [(pk * rowi[j]) // prev for j in range(n + m)]
                else:
                    M[i] = [pk * rowi[j] for j in range(n + m)]
                continue
            M[i] = [0] * (k + 1) + [(pk * rowi[j] - f * rowk[j]) // prev for j in range(k + 1, n + m)]
        prev = pk
    # back substitution in Fractions
    X = [[Fraction(0)] * m for _ in range(n)]
    for i in range(n - 1, -1, -1):
        rowi = M[i]
        pii = rowi[i]
        for c in range(m):
            s = Fraction(rowi[n + c])
            for j in range(i + 1, n):
                if rowi[j]:
                    s -= rowi[j] * X[j][c]
            X[i][c] = s / pii
    return X


def _clear_row(row):
    """row of Sym -> list of Poly with common denominator cleared (multiplier is nonzero wherever defined)."""
    dens = []
    for x in row:
        if not x.d.is_const():
            if not any(x.d == d for d in dens):
                dens.append(x.d)
    out = []
    for x in row:
        p = x.n.scale(1 / x.d.const_value()) if x.d.is_const() else x.n
        for d in dens:
            if x.d.is_const() or not (x.d == d):
                p = p.mul(d)
        out.append(p)
    return out


def _bareiss(M, n, ncols):
    """in-place fraction-free elimination over Q[x]; returns (sign, det polynomial)."""
    prev = Poly.const(1)
    sign = 1
    for k in range(n):
        piv = None
        best = None
        for r in range(k, n):
            if not M[r][k].is_zero():
                sz = M[r][k].nterms()
                if best is None or sz < best:
                    best, piv = sz, r
        if piv is None:
            raise Singular("structurally singular symbolic matrix")
        if piv != k:
            M[k], M[piv] = M[piv], M[k]
            sign = -sign
        pk = M[k][k]
        for i in range(k + 1, n):
            f = M[i][k]
            for j in range(k + 1, ncols):
                v = pk.mul(M[i][j]).sub(f.mul(M[k][j]))
                if k > 0:
                    q = v.exact_div(prev)
                    if q is None:
                        raise ArithmeticError("Bareiss division not exact")
                    v = q
                M[i][j] = v
            M[i][k] = Poly()
        prev = pk
    return sign, M[n - 1][n - 1]


CRAMER_FORM = [False]  # per-job switch (reset by the harness): single-denominator inverse for matrices whose pivots may vanish on the domain


def _back_substitute_cramer(M, n, m, det):
    X = np.empty((n, m), dtype=object)
    sdet = Sym(det)
    for c in range(m):
        Y = [None] * n
        for i in range(n - 1, -1, -1):
            acc = det.mul(M[i][n + c])
            for j in range(i + 1, n):
                if not M[i][j].is_zero() and not Y[j].is_zero():
                    acc = acc.sub(M[i][j].mul(Y[j]))
            q = acc.exact_div(M[i][i])
            if q is None:
                return None
            Y[i] = q
        for i in range(n):
            X[i, c] = Sym(Y[i]) / sdet
    return X


def solve_sym(A, B):
    """A (n,n), B (n,m) arrays of Sym/numbers. Returns (X object array (n,m) of Sym, det Sym)."""
    A = np.asarray(A, dtype=object)
    B = np.asarray(B, dtype=object)
    if B.ndim == 1:
        B = B[:, None]
    n, m = A.shape[0], B.shape[1]
    M = []
    for i in range(n):
        row = [as_sym(x) for x in A[i]] + [as_sym(x) for x in B[i]]
        M.append(_clear_row(row))
    sign, det = _bareiss(M, n, n + m)
    # Cramer form: det * x is a polynomial vector; fraction-free back substitution with exact divisions gives X = Y / det with the
    # determinant as the ONLY denominator (dividing by the pivots instead leaves removable singularities where a pivot vanishes)
    X = _back_substitute_cramer(M, n, m, det) if CRAMER_FORM[0] else None
    if X is not None:
        return X, Sym(det) * sign
    # fallback: back substitution over the fraction field
    X = np.empty((n, m), dtype=object)
    for c in range(m):
        for i in range(n - 1, -1, -1):
            s = Sym(M[i][n + c])
            for j in range(i + 1, n):
                if not M[i][j].is_zero():
                    s = s - Sym(M[i][j]) * X[j, c]
            X[i, c] = s / Sym(M[i][i])
    return X, Sym(det) * sign


def det_sym(A):
    A = np.asarray(A, dtype=object)
    n = A.shape[0]
    scale = as_sym(1)
    M = []
    for i in range(n):
        row = [as_sym(x) for x in A[i]]
        cleared = _clear_row(row)
        # multiplier used for this row
        mult = as_sym(1)
        for x, p in zip(row, cleared):
            if not x.n.is_zero():
                mult = Sym(p) / x
                break
        scale = scale * mult
        M.append(cleared)
    try:
        sign, det = _bareiss(M, n, n)
    except Singular:
        return as_sym(0)
    return Sym(det) * sign / scale


def inv_sym(A):
    A = np.asarray(A, dtype=object)
    n = A.shape[0]
    I = np.zeros((n, n), dtype=object)
    for i in range(n):
        I[i, i] = 1
    X, det = solve_sym(A, I)
    return X, det
