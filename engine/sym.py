"""Symbolic reals in eager normal form (quotient of two sparse polynomials over Q) with a concolic
shadow.  See DESIGN.md section 2.1.

A `Sym` flows through the *unmodified* EasyFEA code inside dtype=object numpy arrays: numpy's object
loops call the Python operators below.  Non-rational operations introduce auxiliary variables with a
defining side constraint; comparisons are decided on the shadow point and recorded as path conditions.
"""

from fractions import Fraction
import math
import numbers

import numpy as np

from .poly import Poly

_F0 = Fraction(0)
_F1 = Fraction(1)
_P1 = Poly.const(1)


class Concretised(Exception):
    """A symbolic value was about to be silently turned into a number."""


class OutOfReach(Exception):
    """An operation that has no encoding (transcendental function of a symbol, ...)."""


_NEG = {"<": ">=", "<=": ">", ">": "<=", ">=": "<", "==": "!=", "!=": "=="}
_FLIP = {"<": ">", "<=": ">=", ">": "<", ">=": "<=", "==": "==", "!=": "!="}


def _holds(v, op):
    if op == "<":
        return v < 0
    if op == "<=":
        return v <= 0
    if op == ">":
        return v > 0
    if op == ">=":
        return v >= 0
    if op == "==":
        return v == 0
    return v != 0


class Cond:
    """poly `op` 0"""

    __slots__ = ("p", "op", "why")

    def __init__(self, p, op, why=""):
        self.p = p
        self.op = op
        self.why = why

    def negate(self):
        return Cond(self.p, _NEG[self.op], self.why)

    def holds(self, env):
        return _holds(self.p.eval(env), self.op)

    def key(self):
        return (self.p, self.op)

    def vars(self):
        return self.p.vars()

    def __repr__(self):
        return f"({self.p} {self.op} 0)"


class Context:
    def __init__(self):
        self.names = []
        self.dom = {}
        self.shadow = {}
        self.kind = {}
        self.auxdef = {}  # vid -> (kind, args)
        self.side = []  # Cond list defining auxiliaries
        self.pc = []
        self._pc_keys = set()
        self.decisions = 0
        self.forced = None  # optional list of forced truth values (path exploration)
        self.snap = None  # optional threshold: |value| below it counts as zero when choosing a branch (approximate algebraic shadow points)
        self._aux_cache = {}
        self.angles = {}
        self.alg = {}  # vid -> (q, Poly): eager rewrite v^q -> Poly (e.g. s^2 -> 1 - c^2), applied after products
        import os, random

        self._rng = random.Random(int(os.environ.get("VERIF_SEED", "0") or 0) * 7919 + 17)

    # ---- variables
    def var(self, name, lo=None, hi=None, shadow=None, kind="input"):
        vid = len(self.names)
        self.names.append(name)
        lo = None if lo is None else Fraction(lo)
        hi = None if hi is None else Fraction(hi)
        self.dom[vid] = (lo, hi)
        if shadow is None:
            if lo is not None and hi is not None:
                shadow = lo + (hi - lo) * Fraction(self._rng.randint(60, 940), 1009)
            elif lo is not None:
                shadow = lo + 1
            elif hi is not None:
                shadow = hi - 1
            else:
                shadow = Fraction(1, 3)
        self.shadow[vid] = Fraction(shadow)
        self.kind[vid] = kind
        return Sym(Poly.var(vid))

    def set_shadow(self, env):
        for k, v in env.items():
            self.shadow[k] = Fraction(v)

    def domain_conds(self, vids=None):
        out = []
        for vid, (lo, hi) in self.dom.items():
            if vids is not None and vid not in vids:
                continue
            if lo is not None:
                out.append(Cond(Poly.var(vid).sub(Poly.const(lo)), ">=", "domain"))
            if hi is not None:
                out.append(Cond(Poly.var(vid).sub(Poly.const(hi)), "<=", "domain"))
        return out

    def record(self, cond):
        if cond.p.is_const():
            return
        k = cond.key()
        if k not in self._pc_keys:
            self._pc_keys.add(k)
            self.pc.append(cond)

    def mark(self):
        return len(self.pc)

    def pc_since(self, mark):
        return self.pc[mark:]

    def input_vids(self):
        return [v for v, k in self.kind.items() if k == "input"]

    def name(self, vid):
        return self.names[vid]

    def closure(self, vids):
        """vids plus every variable reachable through side constraints (aux definitions)."""
        vids = set(vids)
        changed = True
        while changed:
            changed = False
            for c in self.side:
                cv = c.vars()
                if cv & vids and not cv <= vids:
                    vids |= cv
                    changed = True
        return vids

    def side_for(self, vids):
        return [c for c in self.side if c.vars() & vids]


CTX = Context()


def new_context():
    global CTX
    CTX = Context()
    return CTX


def ctx():
    return CTX


def _to_fraction(x):
    if isinstance(x, Fraction):
        return x
    if isinstance(x, (bool, np.bool_)):
        return Fraction(int(x))
    if isinstance(x, (int, np.integer)):
        return Fraction(int(x))
    if isinstance(x, (float, np.floating)):
        x = float(x)
        if math.isnan(x) or math.isinf(x):
            raise OutOfReach(f"non-finite constant {x}")
        return Fraction(x)  # exact binary value
    return None


def as_sym(x):
    if isinstance(x, Sym):
        return x
    f = _to_fraction(x)
    if f is None:
        if isinstance(x, np.ndarray) and x.ndim == 0:
            return as_sym(x.item())
        raise TypeError(f"cannot make a Sym of {type(x)}")
    return Sym(Poly.const(f))


def _alg_reduce(p):
    """eager normal form modulo the registered algebraic relations (v^q -> poly)"""
    alg = CTX.alg
    if not alg:
        return p
    guard = 0
    while guard < 20:
        guard += 1
        hit = None
        for m in p.t:
            for v, e in m:
                if v in alg and e >= alg[v][0]:
                    hit = v
                    break
            if hit is not None:
                break
        if hit is None:
            return p
        q, xp = alg[hit]
        co = p.coeffs_in(hit)
        newp = Poly()
        vp = Poly.var(hit)
        for e, cf in co.items():
            k, r = divmod(e, q)
            term = cf
            if k:
                term = term.mul(xp.pow(k))
            if r:
                term = term.mul(vp.pow(r))
            newp = newp.add(term)
        p = newp
    return p


INPLACE_PROMOTIONS = [0]


class Sym:
    __slots__ = ("n", "d", "_sh")

    def __init__(self, n, d=_P1, _sh=None):
        self.n = n
        self.d = d
        self._sh = _sh

    # ------------------------------------------------------------------ normal form
    @staticmethod
    def make(n, d):
        if d.is_const():
            c = d.const_value()
            if not c:
                raise ZeroDivisionError("symbolic division by the zero polynomial")
            return Sym(n.scale(1 / c)) if c != 1 else Sym(n)
        if n.is_zero():
            return Sym(n)
        # cheap cancellations: monomial content, then exact division when d is small
        gn, gd = n.content_monomial(), d.content_monomial()
        if gn and gd:
            from .poly import _mono_gcd

            g = _mono_gcd(gn, gd)
            if g:
                n, d = n.div_monomial(g), d.div_monomial(g)
        if d.is_const():
            return Sym.make(n, d)
        if d.nterms() <= 12 and n.nterms() <= 4000:
            q = n.exact_div(d)
            if q is not None:
                return Sym(q)
        if n.nterms() <= 12 and d.nterms() <= 400 and not n.is_const():
            q = d.exact_div(n)
            if q is not None:
                return Sym.make(_P1, q)
        # normalise the leading coefficient of d to 1 so that equal quotients compare equal more often
        _, lc = d.leading()
        if lc != 1:
            n, d = n.scale(1 / lc), d.scale(1 / lc)
        return Sym(n, d)

    def is_const(self):
        return self.d is _P1 and self.n.is_const() or (self.d.is_const() and self.n.is_const())

    def const_value(self):
        return self.n.const_value() / self.d.const_value()

    def is_poly(self):
        return self.d.is_const()

    def vars(self):
        return self.n.vars() | self.d.vars()

    # ------------------------------------------------------------------ arithmetic
    def _coerce(self, o):
        if isinstance(o, Sym):
            return o
        f = _to_fraction(o)
        if f is None:
            return None
        return Sym(Poly.const(f))

    def __array_ufunc__(self, ufunc, method, *inputs, out=None, **kwargs):
        """numpy protocol hook, used for one case only: `A op= s` with a FLOAT array A and a symbolic scalar s (e.g. `M_e *= thickness`).
        numpy would have to store symbolic values in a float buffer; the statement is executed as the rebinding `A = A op s` on an
        object-dtype copy instead (a read-only buffer raises as numpy does).  Everything else goes the ordinary way (Sym as 0-d object)."""
        import numpy as _np

        ins = [_np.array(i, dtype=object) if isinstance(i, Sym) else i for i in inputs]
        if method == "__call__" and out is not None and len(out) == 1 and isinstance(out[0], _np.ndarray) and out[0].dtype != object and out[0] is inputs[0]:
            if not out[0].flags.writeable:
                raise ValueError("output array is read-only")
            INPLACE_PROMOTIONS[0] += 1
            ins[0] = _np.asarray(ins[0]).astype(object)
            return ufunc(*ins, **kwargs)
        if out is not None:
            kwargs["out"] = out
        r = getattr(ufunc, method)(*ins, **kwargs)
        if isinstance(r, _np.ndarray) and r.ndim == 0 and r.dtype == object:
            return r.item()
        return r

    def __add__(self, o):
        o = self._coerce(o)
        if o is None:
            return NotImplemented
        if self.d is o.d or self.d == o.d:
            if self.d.is_const():
                return Sym(self.n.add(o.n))
            return Sym.make(self.n.add(o.n), self.d)
        a, b, l = _common_den(self.d, o.d)
        return Sym.make(self.n.mul(a).add(o.n.mul(b)), l)

    __radd__ = __add__

    def __sub__(self, o):
        o = self._coerce(o)
        if o is None:
            return NotImplemented
        if self.d is o.d or self.d == o.d:
            if self.d.is_const():
                return Sym(self.n.sub(o.n))
            return Sym.make(self.n.sub(o.n), self.d)
        a, b, l = _common_den(self.d, o.d)
        return Sym.make(self.n.mul(a).sub(o.n.mul(b)), l)

    def __rsub__(self, o):
        o = self._coerce(o)
        if o is None:
            return NotImplemented
        return o.__sub__(self)

    def __mul__(self, o):
        o0 = o
        if isinstance(o, complex):
            return CSym(self * o.real, self * o.imag)
        o = self._coerce(o)
        if o is None:
            if hasattr(o0, "tocsr") and hasattr(o0, "nnz") and not hasattr(o0, "a"):
                from .facade import SymMatrix  # scalar * real scipy sparse matrix

                return SymMatrix.from_any(o0) * self
            return NotImplemented
        if self.d.is_const() and o.d.is_const():
            return Sym(_alg_reduce(self.n.mul(o.n)))
        n1, d1, n2, d2 = self.n, self.d, o.n, o.d
        # cross cancellation
        if not d2.is_const() and not n1.is_const() and d2.nterms() <= 200 and n1.nterms() <= 2000:
            q = n1.exact_div(d2, 4000)
            if q is not None:
                n1, d2 = q, _P1
        if not d1.is_const() and not n2.is_const() and d1.nterms() <= 200 and n2.nterms() <= 2000:
            q = n2.exact_div(d1, 4000)
            if q is not None:
                n2, d1 = q, _P1
        return Sym.make(_alg_reduce(n1.mul(n2)), _alg_reduce(d1.mul(d2)))

    __rmul__ = __mul__

    def __truediv__(self, o):
        o = self._coerce(o)
        if o is None:
            return NotImplemented
        if o.n.is_zero():
            raise ZeroDivisionError("division by a symbolic value that is identically zero")
        return Sym.make(_alg_reduce(self.n.mul(o.d)), _alg_reduce(self.d.mul(o.n)))

    def __rtruediv__(self, o):
        o = self._coerce(o)
        if o is None:
            return NotImplemented
        return o.__truediv__(self)

    def __neg__(self):
        return Sym(-self.n, self.d)

    def __pos__(self):
        return self

    def __pow__(self, e):
        if isinstance(e, Sym):
            if e.is_const():
                e = e.const_value()
            else:
                raise OutOfReach("symbolic exponent")
        f = _to_fraction(e)
        if f is None:
            return NotImplemented
        if isinstance(e, (float, np.floating)) and f.denominator != 1:
            # a float exponent written as p/q in the source (1/3, 4/3, 3/2 ...): the nearest small rational is the intended real exponent
            g = f.limit_denominator(12)
            if abs(float(g) - float(e)) <= 4e-16 * max(1.0, abs(float(e))):
                f = g
        if f.denominator == 1:
            k = int(f)
            if k >= 0:
                return Sym.make(_alg_reduce(self.n.pow(k)), _alg_reduce(self.d.pow(k)))
            if self.n.is_zero():
                raise ZeroDivisionError
            return Sym.make(_alg_reduce(self.d.pow(-k)), _alg_reduce(self.n.pow(-k)))
        # rational power p/q: r > 0, r^q = self, value r^p  (requires self > 0, recorded)
        p, q = f.numerator, f.denominator
        r = root(self, q)
        return r ** p

    def __rpow__(self, b):
        if self.is_const():
            return as_sym(b) ** self.const_value()
        raise OutOfReach("symbolic exponent")

    def sqrt(self):
        return root(self, 2)

    def conjugate(self):
        return self

    conj = conjugate

    @property
    def real(self):
        return self

    @property
    def imag(self):
        return 0

    def __abs__(self):
        return sym_abs(self)

    # ------------------------------------------------------------------ comparisons (concolic)
    def shadow(self):
        if self._sh is None:
            env = CTX.shadow
            dv = self.d.eval(env) if not self.d.is_const() else self.d.const_value()
            if dv == 0:
                raise ZeroDivisionError("denominator vanishes at the shadow point")
            self._sh = self.n.eval(env) / dv
        return self._sh

    def _cmp(self, o, op):
        o = self._coerce(o)
        if o is None:
            return NotImplemented
        z = self - o
        if z.d.is_const():
            P = z.n
        else:
            sd = z.d.eval(CTX.shadow)
            if sd == 0:
                raise ZeroDivisionError("denominator vanishes at the shadow point")
            CTX.record(Cond(z.d, ">" if sd > 0 else "<", "sign of a denominator"))
            P = z.n if sd > 0 else -z.n
        if P.is_const():
            return _holds(P.const_value(), op)
        v = P.eval(CTX.shadow)
        if CTX.snap is not None and v != 0 and abs(v) <= CTX.snap * max(1, max(abs(cf) for cf in P.t.values())):
            # the shadow point approximates an algebraic point of a lower-dimensional region (engine.paths): a value this close to zero
            # is taken as zero.  Only the CHOICE of the branch is affected; the recorded condition is decided exactly by the solver.
            v = 0
        truth = _holds(v, op)
        CTX.decisions += 1
        CTX.record(Cond(P, op if truth else _NEG[op], "branch"))
        return truth

    def __lt__(self, o):
        return self._cmp(o, "<")

    def __le__(self, o):
        return self._cmp(o, "<=")

    def __gt__(self, o):
        return self._cmp(o, ">")

    def __ge__(self, o):
        return self._cmp(o, ">=")

    def __eq__(self, o):
        r = self._cmp(o, "==")
        return False if r is NotImplemented else r

    def __ne__(self, o):
        r = self._cmp(o, "!=")
        return True if r is NotImplemented else r

    __hash__ = object.__hash__

    def __bool__(self):
        return self._cmp(0, "!=")

    def structurally_equal(self, o):
        o = as_sym(o)
        z = self - o
        return z.n.is_zero()

    # ------------------------------------------------------------------ never silently a number
    def __float__(self):
        if self.is_const():
            return float(self.const_value())
        raise Concretised(f"float() of a symbolic value {self!r}")

    def __int__(self):
        if self.is_const():
            return int(self.const_value())
        raise Concretised("int() of a symbolic value")

    def __index__(self):
        raise Concretised("a symbolic value used as an index")

    def __format__(self, spec):
        # printing is environment: a symbolic value formats as its shadow value (f"{norm:14.12e}" in progress messages)
        if not spec:
            return repr(self)
        try:
            return format(float(self.shadow()), spec)
        except Exception:
            return repr(self)

    def __round__(self, n=None):
        raise Concretised("round() of a symbolic value")

    # numpy object loops look these up by name
    def astype(self, *a, **k):
        return self

    def copy(self):
        return self

    def item(self):
        return self

    def _transc(self, name):
        if name in ("cos", "sin") and self.d.is_const() and len(self.n.t) == 1:
            # k * theta with theta a registered angle: the algebraic pair (c, s), c^2 + s^2 = 1
            (m, k), = self.n.t.items()
            if len(m) == 1 and m[0][1] == 1 and m[0][0] in CTX.angles:
                ent = CTX.angles[m[0][0]]
                coef = k / self.d.const_value()
                if ent["coef"] is None:
                    ent["coef"] = coef
                if ent["coef"] == coef:
                    return ent["c"] if name == "cos" else ent["s"]
                if ent["coef"] == -coef:
                    return ent["c"] if name == "cos" else -ent["s"]
        if self.is_const():
            return getattr(math, {"arccos": "acos", "arcsin": "asin", "arctan": "atan"}.get(name, name))(float(self.const_value()))
        if name == "exp":
            return sym_exp(self)
        if name == "log":
            return sym_log(self)
        raise OutOfReach(f"{name} of a symbolic value")

    def cos(self):
        return self._transc("cos")

    def sin(self):
        return self._transc("sin")

    def tan(self):
        return self._transc("tan")

    def arccos(self):
        return self._transc("arccos")

    def arcsin(self):
        return self._transc("arcsin")

    def arctan(self):
        return self._transc("arctan")

    def exp(self):
        return self._transc("exp")

    def log(self):
        return self._transc("log")

    # ------------------------------------------------------------------ calculus / evaluation
    def diff(self, var):
        """d self / d var, chain rule through auxiliary variables that depend on var."""
        vid = _vid(var)
        return _diff(self, vid, {})

    def eval(self, env):
        """Exact (Fraction env) or float evaluation; env: vid -> number."""
        return self.n.eval(env) / (self.d.eval(env) if not self.d.is_const() else self.d.const_value())

    def subs(self, var, val):
        vid = _vid(var)
        val = as_sym(val)
        if not val.d.is_const():
            raise NotImplementedError
        return Sym.make(self.n.subs(vid, val.n), self.d.subs(vid, val.n))

    def cancel(self):
        """Full gcd cancellation through sympy (only when needed)."""
        if self.d.is_const():
            return self
        from .sympy_bridge import cancel_pair

        n, d = cancel_pair(self.n, self.d)
        return Sym.make(n, d)

    def __repr__(self):
        names = CTX.names

        def fmt(p):
            if p.is_zero():
                return "0"
            parts = []
            for m, c in list(p.t.items())[:6]:
                mon = "*".join((names[v] if v < len(names) else f"v{v}") + (f"^{e}" if e > 1 else "") for v, e in m)
                cs = str(c) if c.denominator < 10**6 else f"{float(c):.17g}"
                parts.append(cs + ("*" + mon if mon else ""))
            s = " + ".join(parts)
            if p.nterms() > 6:
                s += f" + ...({p.nterms()} terms)"
            return s

        if self.d.is_const():
            return f"Sym({fmt(self.n)})"
        return f"Sym(({fmt(self.n)})/({fmt(self.d)}))"


class CSym:
    """complex number with symbolic real and imaginary parts (only what complex assembly needs)."""

    __slots__ = ("real", "imag")

    def __init__(self, re, im):
        self.real = as_sym(re)
        self.imag = as_sym(im)

    @staticmethod
    def _parts(o):
        if isinstance(o, CSym):
            return o.real, o.imag
        if isinstance(o, complex):
            return as_sym(o.real), as_sym(o.imag)
        try:
            return as_sym(o), as_sym(0)
        except TypeError:
            return None

    def __add__(self, o):
        p = CSym._parts(o)
        if p is None:
            return NotImplemented
        return CSym(self.real + p[0], self.imag + p[1])

    __radd__ = __add__

    def __sub__(self, o):
        p = CSym._parts(o)
        if p is None:
            return NotImplemented
        return CSym(self.real - p[0], self.imag - p[1])

    def __neg__(self):
        return CSym(-self.real, -self.imag)

    def __mul__(self, o):
        p = CSym._parts(o)
        if p is None:
            return NotImplemented
        return CSym(self.real * p[0] - self.imag * p[1], self.real * p[1] + self.imag * p[0])

    __rmul__ = __mul__

    def conjugate(self):
        return CSym(self.real, -self.imag)

    def __repr__(self):
        return f"CSym({self.real!r} + i {self.imag!r})"


def _common_den(d1, d2):
    """multipliers (a, b) and common denominator l with l = a*d1 = b*d2 (cheap: divisibility tests only)."""
    if d1.is_const():
        return d2.scale(1 / d1.const_value()), _P1, d2
    if d2.is_const():
        return _P1, d1.scale(1 / d2.const_value()), d1
    if d1.nterms() <= 400 and d2.nterms() <= 400:
        if d2.nterms() >= d1.nterms():
            q = d2.exact_div(d1, 4000)
            if q is not None:
                return q, _P1, d2
        q = d1.exact_div(d2, 4000)
        if q is not None:
            return _P1, q, d1
        if d2.nterms() < d1.nterms():
            q = d2.exact_div(d1, 4000)
            if q is not None:
                return q, _P1, d2
    return d2, d1, d1.mul(d2)


def _vid(var):
    if isinstance(var, Sym):
        (m, c), = var.n.t.items()
        ((v, e),) = m
        return v
    return int(var)


def _diff(s, vid, memo):
    # quotient rule on the normal form + chain rule through auxiliaries
    n, d = s.n, s.d
    vs = n.vars() | d.vars()
    total = Sym(Poly())
    deps = [vid] if vid in vs else []
    for a in vs:
        if a != vid and CTX.kind.get(a) == "aux" and _aux_depends(a, vid):
            deps.append(a)
    for v in deps:
        dn, dd = n.diff(v), d.diff(v)
        if d.is_const():
            part = Sym(dn.scale(1 / d.const_value()))
        else:
            part = Sym.make(dn.mul(d).sub(n.mul(dd)), d.mul(d))
        if v == vid:
            total = total + part
        else:
            total = total + part * _aux_diff(v, vid, memo)
    return total


def _aux_depends(a, vid, seen=None):
    kind, args = CTX.auxdef[a]
    for arg in args:
        if isinstance(arg, Sym):
            vs = arg.vars()
            if vid in vs:
                return True
            for b in vs:
                if CTX.kind.get(b) == "aux" and b != a and _aux_depends(b, vid):
                    return True
    return False


def _aux_diff(a, vid, memo):
    key = (a, vid)
    if key in memo:
        return memo[key]
    kind, args = CTX.auxdef[a]
    av = Sym(Poly.var(a))
    if kind == "root":  # a^q = x  =>  da = dx / (q a^(q-1))
        x, q = args
        r = _diff(x, vid, memo) / (q * av ** (q - 1))
    elif kind == "abs":  # a = |x|, a*a = x*x => da = x dx / a
        (x,) = args
        r = x * _diff(x, vid, memo) / av
    elif kind == "exp":
        (x,) = args
        r = av * _diff(x, vid, memo)
    elif kind == "log":
        (x,) = args
        r = _diff(x, vid, memo) / x
    else:
        raise OutOfReach(f"derivative of auxiliary kind {kind}")
    memo[key] = r
    return r


# ---------------------------------------------------------------------- auxiliaries
def _aux_key(kind, *args):
    parts = [kind]
    for a in args:
        if isinstance(a, Sym):
            parts.append((a.n, a.d))
        else:
            parts.append(a)
    return tuple(parts)


def root(x, q):
    """positive q-th root of a positive quantity: auxiliary r with r > 0 (>= 0), r^q = x."""
    x = as_sym(x)
    q = int(q)
    if x.is_const():
        c = x.const_value()
        if c < 0 and q % 2 == 0:
            raise OutOfReach("even root of a negative constant")
        # exact rational root when it exists
        num, den = c.numerator, c.denominator
        rn, rd = round(abs(num) ** (1.0 / q)), round(den ** (1.0 / q))
        for a in (rn - 1, rn, rn + 1):
            for b in (rd - 1, rd, rd + 1):
                if b > 0 and a >= 0 and a ** q == abs(num) and b ** q == den:
                    return as_sym(Fraction(a if num >= 0 else -a, b))
    if CTX.auxdef and (not x.d.is_const() or any(v in CTX.auxdef for v in x.n.vars())):
        # radicand expressed with other auxiliaries (e.g. the exact sqrt(2)): bring it to normal form first, so that r^q -> x is a
        # polynomial rewrite rule whenever possible
        from .oblig import reduce_mod_sides

        nn, dd = reduce_mod_sides(x.n), (x.d if x.d.is_const() else reduce_mod_sides(x.d))
        if dd.is_const() and not dd.is_zero():
            x = Sym(nn.scale(1 / dd.const_value()))
        else:
            x = Sym.make(nn, dd)
    key = _aux_key("root", x, q)
    c = CTX
    if key in c._aux_cache:
        return c._aux_cache[key]
    xs = x.shadow()
    if xs < 0 and q % 2 == 0:
        raise OutOfReach("even root of a quantity that is negative at the shadow point")
    sh = None
    if xs >= 0:
        from .paths import _exact_root

        sh = _exact_root(xs, q)  # exact when the radicand is a rational q-th power at the shadow point (degenerate states)
    if sh is None:
        sh = Fraction(float(xs) ** (1.0 / q)) if xs >= 0 else -Fraction(float(-xs) ** (1.0 / q))
    r = c.var(f"root{q}_{len(c.names)}", shadow=sh, kind="aux")
    vid = _vid(r)
    c.auxdef[vid] = ("root", (x, q))
    # r^q * d = n ; r >= 0 (even roots)
    c.side.append(Cond(r.n.pow(q).mul(x.d).sub(x.n), "==", f"root{q} definition"))
    if q % 2 == 0:
        c.side.append(Cond(r.n, ">=", "root sign"))
    c._aux_cache[key] = r
    return r


def sym_abs(x):
    x = as_sym(x)
    if x.is_const():
        return as_sym(abs(x.const_value()))
    # concolic: decide the sign on the shadow, record it
    if x >= 0:
        return x
    return -x


def sym_exp(x):
    x = as_sym(x)
    if x.is_const() and x.const_value() == 0:
        return as_sym(1)
    key = _aux_key("exp", x)
    c = CTX
    if key in c._aux_cache:
        return c._aux_cache[key]
    # exp(q y) = exp(y)^q for an integer q when exp(y) already exists (e.g. exp(-2 k (I-1)) next to exp(-k (I-1)), exp(-a) next to exp(a))
    if x.d.is_const() and not x.n.is_zero():
        for vid, (kind, args) in list(c.auxdef.items()):
            if kind != "exp":
                continue
            y = args[0]
            if not y.d.is_const() or y.n.is_zero() or set(y.n.t) != set(x.n.t):
                continue
            m0 = next(iter(y.n.t))
            q = (x.n.t[m0] / x.d.const_value()) / (y.n.t[m0] / y.d.const_value())
            if q.denominator == 1 and abs(q) <= 8 and all((x.n.t[m] / x.d.const_value()) == q * (y.n.t[m] / y.d.const_value()) for m in y.n.t):
                base = Sym(Poly.var(vid))
                out = base ** int(q)
                c._aux_cache[key] = out
                return out
    r = c.var(f"exp_{len(c.names)}", shadow=Fraction(math.exp(float(x.shadow()))), kind="aux")
    c.auxdef[_vid(r)] = ("exp", (x,))
    c.side.append(Cond(r.n, ">", "exp positive"))
    c._aux_cache[key] = r
    return r


def sym_log(x):
    x = as_sym(x)
    if x.is_const() and x.const_value() == 1:
        return as_sym(0)
    key = _aux_key("log", x)
    c = CTX
    if key in c._aux_cache:
        return c._aux_cache[key]
    xs = x.shadow()
    if xs <= 0:
        raise OutOfReach("log of a non-positive quantity at the shadow point")
    r = c.var(f"log_{len(c.names)}", shadow=Fraction(math.log(float(xs))), kind="aux")
    c.auxdef[_vid(r)] = ("log", (x,))
    c._aux_cache[key] = r
    return r


# ---------------------------------------------------------------------- array helpers
def has_sym(a):
    if isinstance(a, Sym):
        return True
    if isinstance(a, np.ndarray):
        if a.dtype != object:
            return False
        for x in a.flat:
            if isinstance(x, Sym):
                return True
        return False
    if isinstance(a, (list, tuple)):
        return any(has_sym(x) for x in a)
    return False


class SArr(np.ndarray):
    """Object array born in symbolic mode.  numpy offers no hook for the METHOD `.astype(float)` (it calls float() on every entry); on this
    subclass a conversion to a float type keeps an array that still holds symbols as it is (the symbolic stand-in of 'these are real numbers').
    Every other behaviour is ndarray's; the subclass propagates through slicing and ufuncs like any ndarray subclass."""

    ASTYPE_KEPT = [0]

    def astype(self, dtype, *a, **k):
        try:
            is_float = np.dtype(dtype).kind == "f"
        except TypeError:
            is_float = False
        base = np.asarray(self)
        if is_float and base.dtype == object and has_sym(base):
            SArr.ASTYPE_KEPT[0] += 1
            return self.copy() if k.get("copy", True) else self
        return base.astype(dtype, *a, **k)


def _defer_to_foreign_subclass(opname):
    """A plain ndarray on the left of `x (op) y` lets Python try y.__rop__ first whenever type(y) is a proper subclass of ndarray that overrides it.
    SArr is a sibling of such subclasses, not their base, so Python would not: the forward operators return NotImplemented for a foreign ndarray
    subclass on the right and Python then calls its reflected operator - the dispatch a plain ndarray gets."""
    base = getattr(np.ndarray, opname)

    def op(self, other):
        if isinstance(other, np.ndarray) and not isinstance(other, SArr) and type(other) is not np.ndarray:
            return NotImplemented
        return base(self, other)

    op.__name__ = opname
    return op


for _nm in ("__add__", "__sub__", "__mul__", "__truediv__", "__floordiv__", "__mod__", "__pow__", "__matmul__", "__lt__", "__le__", "__gt__", "__ge__", "__eq__", "__ne__", "__and__", "__or__", "__xor__"):
    setattr(SArr, _nm, _defer_to_foreign_subclass(_nm))
SArr.__hash__ = None


def sarr(a):
    """view of an object ndarray as SArr (other arrays / subclasses are returned unchanged)"""
    if type(a) is np.ndarray and a.dtype == object:
        return a.view(SArr)
    return a


def sym_array(name, shape, lo=-1, hi=1, shadows=None):
    """Array of fresh input variables name[i,j,...]."""
    shape = (shape,) if isinstance(shape, int) else tuple(shape)
    out = np.empty(shape, dtype=object)
    k = 0
    for idx in np.ndindex(*shape):
        sh = None if shadows is None else shadows[k]
        out[idx] = CTX.var(f"{name}{list(idx)}".replace(" ", ""), lo, hi, shadow=sh)
        k += 1
    return out


def demote(a):
    """object array without symbols -> float array (exact: the objects are python numbers)."""
    if isinstance(a, np.ndarray) and a.dtype == object and not has_sym(a):
        out = np.empty(a.shape, dtype=float)
        flat = out.reshape(-1)
        for i, x in enumerate(a.flat):
            flat[i] = float(x) if not isinstance(x, Sym) else float(x.const_value())
        return out.view(type(a)) if type(a) is not np.ndarray else out
    return a


def shadow_of(a):
    """float shadow of a Sym / array of Syms / number."""
    if isinstance(a, Sym):
        return float(a.shadow())
    if isinstance(a, np.ndarray):
        if a.dtype != object:
            return np.asarray(a, dtype=float)
        out = np.empty(a.shape, dtype=float)
        flat = out.reshape(-1)
        for i, x in enumerate(a.flat):
            flat[i] = float(x.shadow()) if isinstance(x, Sym) else float(x)
        return out
    return float(a)


def eval_array(a, env):
    if isinstance(a, Sym):
        return a.eval(env)
    a = np.asarray(a, dtype=object)
    out = np.empty(a.shape, dtype=object)
    flat = out.reshape(-1)
    for i, x in enumerate(a.flat):
        flat[i] = x.eval(env) if isinstance(x, Sym) else _to_fraction(x)
    return out
