"""Deterministic equivalence driver for the history-dependent material area.

Prints every number with repr(), so the output must be byte-identical before and after a
behaviour-preserving refactoring:

    PYTHONPATH=/tmp/wt_R7 MPLBACKEND=Agg /venv/bin/python equiv.py > out.txt
"""

import pickle

import numpy as np

from EasyFEA import ElemType, Models, Simulations
from EasyFEA.FEM import FeArray
from EasyFEA.Geoms import Domain, Point
from EasyFEA.Models.Elastic._laws import Isotropic, Orthotropic
from EasyFEA.Models.InElastic import _spectral

Inel = Models.InElastic
E, NU, SIGMA_Y, HMOD = 210000.0, 0.3, 250.0, 2000.0


def dump(tag: str, arr) -> None:
    """Every number of `arr`, one repr() per token."""
    if arr is None:
        print(tag, "None")
        return
    a = np.asarray(arr)
    flat = a.ravel().tolist()
    print(tag, a.dtype.name, a.shape, " ".join(repr(v) for v in flat))


def isot() -> Isotropic:
    return Isotropic(3, E=E, v=NU)


def ortho() -> Orthotropic:
    return Orthotropic(
        3,
        E1=E,
        E2=E / 2,
        E3=E / 3,
        G12=E / 4,
        G13=E / 5,
        G23=E / 6,
        v12=0.3,
        v13=0.2,
        v23=0.1,
    )


def surfaces() -> dict:
    return {
        "VonMises": Inel.Yield.VonMises(SIGMA_Y),
        "Hill": Inel.Yield.Hill(SIGMA_Y, F=0.7, G=0.4, H=0.6, L=1.8, M=1.2, N=1.4),
        "DruckerPrager": Inel.Yield.DruckerPrager(SIGMA_Y, 0.1),
    }


def hardenings() -> dict:
    return {
        "None": None,
        "Linear": Inel.IsotropicHardening.Linear(HMOD),
        "Voce": Inel.IsotropicHardening.Voce(150.0, 30.0),
        "Swift": Inel.IsotropicHardening.Swift(500.0, 0.3),
    }


def strains(seed: int, Ne: int, nPg: int, n: int, amp: float = 4e-3) -> FeArray:
    rng = np.random.default_rng(seed)
    eps = rng.normal(0.0, amp, (Ne, nPg, n))
    # a few points stay elastic, and one sits exactly at the origin (the apex guards)
    eps[0, 0] *= 1e-3
    eps[-1, -1] = 0.0
    return FeArray.asfearray(eps)


def integrate_twice(tag: str, law, eps: FeArray, dt: float = 0.0) -> None:
    """Two increments, the second one from the committed state of the first (reverse loading)."""
    sig, C, z, ok = law.Integrate(eps, None, dt)
    dump(f"{tag} sig1", sig)
    dump(f"{tag} C1", C)
    dump(f"{tag} z1", z)
    dump(f"{tag} ok1", ok)
    eps2 = FeArray.asfearray(-0.6 * np.asarray(eps) + 1e-4)
    sig, C, z2, ok = law.Integrate(eps2, z, dt, eps)
    dump(f"{tag} sig2", sig)
    dump(f"{tag} C2", C)
    dump(f"{tag} z2", z2)
    dump(f"{tag} ok2", ok)
    sig, C, z3, ok = law.Integrate(eps2, z, dt, withTangent=False)
    dump(f"{tag} sig3", sig)
    dump(f"{tag} C3", C)
    # the read-only accessors
    # (a rate-dependent plane-stress law cannot be read at dt = 0: the message is compared too)
    try:
        dump(f"{tag} stress", law.Compute_stress(eps2, z2))
    except AssertionError as err:
        print(f"{tag} stress", type(err).__name__, repr(str(err)))
    eps6 = law.Compute_strain_6d(eps2, z, dt)
    dump(f"{tag} eps6", eps6)
    dump(f"{tag} psi", law.Compute_psi(eps6, z2))
    dump(f"{tag} psi0", law.Compute_psi(eps6))
    dump(f"{tag} eel", law.Compute_elastic_strain(eps6, z2))
    dump(f"{tag} sigma6", law.Compute_sigma(eps6, z2))
    dump(f"{tag} X", law.Compute_back_stress(z2))
    print(tag, "layout", law.layout, law.simplification, repr(law.coef))
    print(tag, "str", repr(str(law)))


# ----------------------------------------------------------------------------------------
# 1. the pieces on their own
# ----------------------------------------------------------------------------------------


def pieces() -> None:
    sig = strains(11, 3, 2, 6, 300.0)
    R = FeArray.asfearray(np.linspace(0.0, 30.0, 6).reshape(3, 2))
    for name, surf in surfaces().items():
        dump(f"yield {name} f", surf.f(sig, R))
        dump(f"yield {name} N", surf.N(sig, R))
        dump(f"yield {name} dNdSig", surf.dNdSig(sig))
        dump(f"yield {name} P", surf.P)
        print(f"yield {name} scale", repr(surf.scale), surf._fields)
    dump("yield Svm", Inel.Yield.Svm(sig))
    dump("yield _Normal_J2", Inel.Yield._Normal_J2(sig))
    dump("yield _dNormal_J2", Inel.Yield._dNormal_J2(sig))
    hill_iso = Inel.Yield.Hill(SIGMA_Y)
    dump("yield Hill-iso f", hill_iso.f(sig, R))
    dump("yield Hill-iso N", hill_iso.N(sig, R))
    dump("yield Hill-iso dNdSig", hill_iso.dNdSig(sig))

    p = FeArray.asfearray(np.linspace(0.0, 0.05, 6).reshape(3, 2))
    for name, hard in hardenings().items():
        if hard is None:
            continue
        dump(f"hardening {name} psi", hard.psi(p))
        dump(f"hardening {name} R", hard.R(p))
        dump(f"hardening {name} dR", hard.dR(p))
        print(f"hardening {name}", hard._fields, repr(hard.R(0.01)), repr(hard.dR(0.0)))

    alpha = strains(12, 3, 2, 6, 1e-2)
    kin = {
        "AF": Inel.KinematicHardening.ArmstrongFrederick(20000.0, 150.0),
        "Prager": Inel.KinematicHardening.Prager(5000.0),
    }
    for i, comp in enumerate(
        Inel.KinematicHardening.Chaboche((60000.0, 500.0), (2000.0, 0.0))
    ):
        kin[f"Chaboche{i}"] = comp
    for name, comp in kin.items():
        dump(f"kinematic {name} psi", comp.psi(alpha))
        dump(f"kinematic {name} X", comp.X(alpha))
        print(f"kinematic {name}", comp._fields, repr(comp.modulus), repr(comp.recall))

    g = FeArray.asfearray(np.linspace(0.0, 2.0, 6).reshape(3, 2))
    for name, rate in {
        "Norton": Inel.ViscoPlastic.Norton(1e-2, 2.0, SIGMA_Y),
        "Perzyna": Inel.ViscoPlastic.Perzyna(50.0, 1.5, SIGMA_Y),
    }.items():
        dump(f"rate {name} rate", rate.rate(g * 100.0 - 50.0))
        dump(f"rate {name} inverse", rate.inverse(g))
        dump(f"rate {name} dinverse", rate.dinverse(g))

    # the spectral module, driven directly
    for lname, elastic in (("iso", isot()), ("ortho", ortho())):
        for sname in ("VonMises", "Hill"):
            surf = surfaces()[sname]
            eigen = _spectral.Build(*elastic.Get_sqrt_C_S(), surf.P)
            for f in eigen._fields:
                dump(f"spectral {lname} {sname} eigen.{f}", getattr(eigen, f))
            sigTr = strains(13, 3, 2, 6, 400.0)
            pOld = FeArray.asfearray(np.linspace(0.0, 0.01, 6).reshape(3, 2))
            for rname, rate, dt in (
                ("ri", None, 0.0),
                ("norton", Inel.ViscoPlastic.Norton(1e-2, 2.0, SIGMA_Y), 0.5),
            ):
                tag = f"spectral {lname} {sname} {rname}"
                res = _spectral.Solve(
                    eigen,
                    sigTr,
                    pOld,
                    Inel.IsotropicHardening.Voce(150.0, 30.0),
                    surf.scale,
                    rate,
                    dt,
                    1e-10,
                    20,
                )
                for f in res._fields:
                    dump(f"{tag} res.{f}", getattr(res, f))
                C = FeArray.broadcast(elastic.C, 3, 2, tensor_ndim=2)
                dump(f"{tag} tangent", _spectral.Tangent(eigen, res, C))
                phi, dphi = _spectral._Phi(res.y, eigen.lam, res.theta)
                dump(f"{tag} _Phi phi", phi)
                dump(f"{tag} _Phi dphi", dphi)
            # the default arguments of Solve
            res = _spectral.Solve(
                eigen, sigTr, pOld, Inel.IsotropicHardening.Linear(HMOD), surf.scale
            )
            for f in res._fields:
                dump(f"spectral {lname} {sname} default res.{f}", getattr(res, f))


# ----------------------------------------------------------------------------------------
# 2. Behavior.Integrate
# ----------------------------------------------------------------------------------------


def behaviours() -> None:
    AF = Inel.KinematicHardening.ArmstrongFrederick
    Chab = Inel.KinematicHardening.Chaboche
    Norton = Inel.ViscoPlastic.Norton
    Maxwell = Inel.ViscoElastic.Maxwell
    surf, hard = surfaces(), hardenings()

    cases: list[tuple[str, dict, float]] = []
    for sname in surf:
        for hname in ("None", "Linear", "Voce"):
            cases.append(
                (
                    f"{sname}-{hname}",
                    dict(yieldSurface=surf[sname], hardening=hard[hname]),
                    0.0,
                )
            )
    cases += [
        ("elastic", dict(), 0.0),
        ("VM-Swift", dict(yieldSurface=surf["VonMises"], hardening=hard["Swift"]), 0.0),
        (
            "VM-AF",
            dict(yieldSurface=surf["VonMises"], kinematic=AF(20000.0, 150.0)),
            0.0,
        ),
        (
            "VM-Prager-Linear",
            dict(
                yieldSurface=surf["VonMises"],
                hardening=hard["Linear"],
                kinematic=Inel.KinematicHardening.Prager(5000.0),
            ),
            0.0,
        ),
        (
            "VM-Chaboche-Voce",
            dict(
                yieldSurface=surf["VonMises"],
                hardening=hard["Voce"],
                kinematic=Chab((60000.0, 500.0), (20000.0, 100.0), (2000.0, 0.0)),
            ),
            0.0,
        ),
        (
            "Hill-Chaboche",
            dict(
                yieldSurface=surf["Hill"],
                kinematic=Chab((30000.0, 300.0), (2000.0, 0.0)),
            ),
            0.0,
        ),
        (
            "DP-AF-Linear",
            dict(
                yieldSurface=surf["DruckerPrager"],
                hardening=hard["Linear"],
                kinematic=AF(10000.0, 80.0),
            ),
            0.0,
        ),
        (
            "VM-Norton-Linear",
            dict(
                yieldSurface=surf["VonMises"],
                hardening=hard["Linear"],
                rate=Norton(1e-2, 1.0, SIGMA_Y),
            ),
            1.0,
        ),
        (
            "Hill-Norton-Voce",
            dict(
                yieldSurface=surf["Hill"],
                hardening=hard["Voce"],
                rate=Norton(5e-3, 2.0, SIGMA_Y),
            ),
            0.5,
        ),
        (
            "DP-Norton",
            dict(yieldSurface=surf["DruckerPrager"], rate=Norton(1e-2, 1.5, SIGMA_Y)),
            0.5,
        ),
        (
            "VM-Norton-AF",
            dict(
                yieldSurface=surf["VonMises"],
                kinematic=AF(20000.0, 150.0),
                rate=Norton(1e-2, 1.0, SIGMA_Y),
            ),
            1.0,
        ),
        ("Maxwell1", dict(branches=[Maxwell(0.3, 2.0)]), 0.5),
        ("Maxwell2", dict(branches=[Maxwell(0.3, 2.0), Maxwell(0.2, 20.0)]), 0.5),
        (
            "Maxwell-VM-Linear",
            dict(
                yieldSurface=surf["VonMises"],
                hardening=hard["Linear"],
                branches=[Maxwell(0.25, 3.0)],
            ),
            0.5,
        ),
        (
            "Maxwell-VM-AF-Norton",
            dict(
                yieldSurface=surf["VonMises"],
                hardening=hard["Voce"],
                kinematic=AF(20000.0, 150.0),
                rate=Norton(1e-2, 1.0, SIGMA_Y),
                branches=[Maxwell(0.25, 3.0), Maxwell(0.1, 30.0)],
            ),
            0.5,
        ),
    ]

    for name, kwargs, dt in cases:
        for lname, elastic in (("iso", isot()), ("ortho", ortho())):
            if lname == "ortho" and not (
                name.startswith("Hill") or name in ("VonMises-Voce", "Maxwell1")
            ):
                continue
            for solver in ("auto", "newton"):
                # 3D
                law = Inel.Behavior(3, elastic, solver=solver, **kwargs)
                tag = f"B3 {lname} {name} {solver}"
                print(tag, "spectral", law._Behavior__eigen is not None)
                integrate_twice(tag, law, strains(1, 4, 3, 6), dt)
                # plane strain / plane stress
                for planeStress in (False, True):
                    law = Inel.Behavior(
                        2,
                        elastic,
                        solver=solver,
                        thickness=1.5,
                        planeStress=planeStress,
                        **kwargs,
                    )
                    tag = f"B2{'s' if planeStress else 'e'} {lname} {name} {solver}"
                    integrate_twice(tag, law, strains(2, 3, 4, 3, 3e-3), dt)

    # the guards and their messages
    law = Inel.Behavior(
        3,
        isot(),
        yieldSurface=surf["VonMises"],
        rate=Norton(1e-2, 1.0, SIGMA_Y),
    )
    for call in (
        lambda: law.Integrate(strains(1, 1, 1, 6)),
        lambda: law.Integrate(strains(1, 1, 1, 6), None, 1.0, None, {"T": 1}),
        lambda: Inel.Behavior(3, isot(), hardening=hard["Linear"]),
        lambda: Inel.Behavior(3, isot(), planeStress=True),
        lambda: Inel.Behavior(2, Isotropic(2), planeStress=True),
        lambda: Inel.Behavior(3, isot(), branches=[Maxwell(0.6, 1.0), Maxwell(0.5, 1.0)]),
        lambda: Inel.Yield.VonMises(-1.0),
        lambda: Inel.Yield.Hill(0.0),
        lambda: Inel.Yield.DruckerPrager(0.0, 0.1),
        lambda: Inel.IsotropicHardening.Linear(-1.0),
        lambda: Inel.IsotropicHardening.Voce(1.0, 0.0),
        lambda: Inel.KinematicHardening.ArmstrongFrederick(0.0),
        lambda: Inel.KinematicHardening.Chaboche(),
    ):
        try:
            call()
            print("guard: no exception")
        except Exception as err:  # noqa: BLE001
            print("guard:", type(err).__name__, repr(str(err)))

    # a plane-stress solve that cannot converge reports how far it got
    law = Inel.Behavior(
        2,
        isot(),
        yieldSurface=surf["VonMises"],
        hardening=hard["Linear"],
        planeStress=True,
    )
    law._maxIter = 1
    try:
        law.Integrate(strains(2, 3, 4, 3, 3e-3))
        print("guard: no exception")
    except Exception as err:  # noqa: BLE001
        print("guard:", type(err).__name__, repr(str(err)))
    # a local Newton cut short reports the points it left behind
    law = Inel.Behavior(
        3,
        isot(),
        yieldSurface=surf["Hill"],
        hardening=hard["Voce"],
        solver="newton",
    )
    law._maxIter = 2
    sig, C, z, ok = law.Integrate(strains(1, 4, 3, 6))
    dump("cut sig", sig)
    dump("cut C", C)
    dump("cut z", z)
    dump("cut ok", ok)

    # the attribute names a pickle would carry, and what pickling says today
    law = Inel.Behavior(3, isot())
    print("dict", sorted(law.__dict__))
    try:
        pickle.dumps(Inel.Behavior(3, isot(), yieldSurface=surf["VonMises"]))
        print("pickle: no exception")
    except Exception as err:  # noqa: BLE001
        print("pickle:", type(err).__name__, repr(str(err)))
    law = Inel.Behavior(
        2, isot(), yieldSurface=surf["Hill"], hardening=hard["Voce"], planeStress=True
    )
    print("dict", sorted(law.__dict__))


# ----------------------------------------------------------------------------------------
# 3. MaterialPoint.Run, load - unload - reload
# ----------------------------------------------------------------------------------------


def material_points() -> None:
    path = np.concatenate(
        [
            np.linspace(0.0, 4e-3, 9),
            np.linspace(4e-3, -1e-3, 11)[1:],
            np.linspace(-1e-3, 6e-3, 13)[1:],
        ]
    )
    surf, hard = surfaces(), hardenings()
    AF = Inel.KinematicHardening.ArmstrongFrederick
    cases = {
        "VM-Linear": (dict(yieldSurface=surf["VonMises"], hardening=hard["Linear"]), 0.0),
        "VM-Linear-newton": (
            dict(
                yieldSurface=surf["VonMises"], hardening=hard["Linear"], solver="newton"
            ),
            0.0,
        ),
        "Hill-Voce": (dict(yieldSurface=surf["Hill"], hardening=hard["Voce"]), 0.0),
        "DP-Linear": (
            dict(yieldSurface=surf["DruckerPrager"], hardening=hard["Linear"]),
            0.0,
        ),
        "VM-Chaboche": (
            dict(
                yieldSurface=surf["VonMises"],
                hardening=hard["Voce"],
                kinematic=Inel.KinematicHardening.Chaboche(
                    (60000.0, 500.0), (2000.0, 0.0)
                ),
            ),
            0.0,
        ),
        "VM-AF-Norton": (
            dict(
                yieldSurface=surf["VonMises"],
                kinematic=AF(20000.0, 150.0),
                rate=Inel.ViscoPlastic.Norton(1e-2, 1.0, SIGMA_Y),
            ),
            0.5,
        ),
        "Maxwell-VM": (
            dict(
                yieldSurface=surf["VonMises"],
                hardening=hard["Linear"],
                branches=[Inel.ViscoElastic.Maxwell(0.3, 2.0)],
            ),
            0.5,
        ),
    }
    for name, (kwargs, dt) in cases.items():
        law = Inel.Behavior(3, isot(), **kwargs)
        point = Inel.MaterialPoint(law)
        # uniaxial stress: everything but xx is solved for
        res = point.Run(strain={"xx": path}, dt=dt)
        for key in res:
            dump(f"MP {name} uniaxial {key}", res[key])
        # mixed control with a stress target
        try:
            res = point.Run(
                strain={"xx": path, "yy": -0.3 * path, "xy": 0.5 * path},
                stress={"zz": 20.0 + 0.0 * path},
                dt=dt,
            )
        except AssertionError as err:
            print(f"MP {name} mixed", type(err).__name__, repr(str(err)))
            continue
        for key in res:
            dump(f"MP {name} mixed {key}", res[key])


# ----------------------------------------------------------------------------------------
# 4. Simulations.InElastic, with Save_Iter / Set_Iter
# ----------------------------------------------------------------------------------------


def simulations() -> None:
    L, Hh = 60.0, 12.0
    mesh2D = Domain(Point(0, 0), Point(L, Hh), Hh / 2).Mesh_2D([], ElemType.QUAD4)
    mesh2T = Domain(Point(0, 0), Point(L, Hh), Hh / 2).Mesh_2D([], ElemType.TRI6)
    mesh3D = Domain(Point(0, 0), Point(L, Hh), Hh / 2).Mesh_Extrude(
        [], [0, 0, Hh], [2], ElemType.HEXA8
    )
    surf, hard = surfaces(), hardenings()

    def run(tag: str, mesh, law, loads, dt: float = 0.0) -> None:
        dim = law.dim
        simu = Simulations.InElastic(mesh, law)
        simu.dt = dt
        nodes0 = mesh.Nodes_Conditions(lambda x, y, z: x == 0)
        nodesL = mesh.Nodes_Conditions(lambda x, y, z: x == L)
        print(tag, "unknowns", simu.Get_unknowns(), simu.Get_dof_n(), simu.Get_problemTypes())
        print(tag, "available", simu.Results_Available())
        print(tag, "fields", simu.Results_nodeFields_elementFields(True))
        dump(f"{tag} x0", simu.Get_x0())
        for k, load in enumerate(loads):
            simu.Bc_Init()
            simu.add_dirichlet(nodes0, [0] * dim, simu.Get_unknowns())
            simu.add_dirichlet(nodesL, [load, -0.3 * load], ["x", "y"])
            simu.Solve()
            simu.Save_Iter()
            dump(f"{tag} step{k} u", simu.displacement)
            dump(f"{tag} step{k} Svm", simu.Result("Svm", nodeValues=False))
            dump(f"{tag} step{k} Sxx", simu.Result("Sxx", nodeValues=False))
            dump(f"{tag} step{k} psi", simu.Results_dict_Energy()[r"$\Psi$"])
            if "p" in law.layout.slots:
                dump(f"{tag} step{k} p", simu.Result("p", nodeValues=False))
        # every saved iteration, read back
        for k in range(len(loads)):
            results = simu.Set_Iter(k)
            dump(f"{tag} iter{k} displacement", results["displacement"])
            for et, arr in results["state"].items():
                dump(f"{tag} iter{k} state {et}", arr)
            dump(f"{tag} iter{k} Stress", simu.Result("Stress", nodeValues=False))
            dump(f"{tag} iter{k} Strain", simu.Result("Strain", nodeValues=True))
            dump(f"{tag} iter{k} Exy", simu.Result("Exy", nodeValues=False))
            dump(f"{tag} iter{k} ux", simu.Result("ux"))
            dump(f"{tag} iter{k} norm", simu.Result("displacement_norm"))
            dump(f"{tag} iter{k} matrix", simu.Result("displacement_matrix"))
            dump(f"{tag} iter{k} psi", simu._Calc_psi())
            if "p" in law.layout.slots:
                dump(f"{tag} iter{k} p", simu.Result("p", nodeValues=True))
        # go back to the middle of the history and reload from there
        mid = len(loads) // 2
        simu.Set_Iter(mid)
        simu.Bc_Init()
        simu.add_dirichlet(nodes0, [0] * dim, simu.Get_unknowns())
        simu.add_dirichlet(nodesL, [1.2 * max(loads), 0.0], ["x", "y"])
        simu.Solve()
        simu.Save_Iter()
        dump(f"{tag} reload u", simu.displacement)
        dump(f"{tag} reload Svm", simu.Result("Svm", nodeValues=False))
        dump(f"{tag} reload state", simu.Set_Iter(-1)["state"][mesh.elemType])
        print(tag, "Result(unknown)", simu.Result("nope"))
        print(tag, "attrs", sorted(k for k in simu.__dict__ if "InElastic" in k))

    loads = [0.04, 0.12, 0.2, 0.05, 0.25]
    run(
        "S2e",
        mesh2D,
        Inel.Behavior(
            2,
            isot(),
            yieldSurface=surf["VonMises"],
            hardening=hard["Linear"],
            thickness=2.0,
        ),
        loads,
    )
    run(
        "S2s",
        mesh2D,
        Inel.Behavior(
            2,
            isot(),
            yieldSurface=surf["Hill"],
            hardening=hard["Voce"],
            thickness=2.0,
            planeStress=True,
        ),
        loads,
    )
    run(
        "S2t-chaboche",
        mesh2T,
        Inel.Behavior(
            2,
            isot(),
            yieldSurface=surf["VonMises"],
            hardening=hard["Voce"],
            kinematic=Inel.KinematicHardening.Chaboche((30000.0, 300.0), (2000.0, 0.0)),
        ),
        [0.04, 0.12, 0.2, 0.17, 0.25],
    )
    run(
        "S3-norton",
        mesh3D,
        Inel.Behavior(
            3,
            isot(),
            yieldSurface=surf["VonMises"],
            hardening=hard["Linear"],
            rate=Inel.ViscoPlastic.Norton(1e-2, 1.0, SIGMA_Y),
        ),
        [0.06, 0.12, 0.18],
        dt=1.0,
    )
    run(
        "S2e-maxwell",
        mesh2D,
        Inel.Behavior(
            2,
            isot(),
            branches=[
                Inel.ViscoElastic.Maxwell(0.2, 3.0),
                Inel.ViscoElastic.Maxwell(0.1, 30.0),
            ],
            thickness=2.0,
        ),
        [0.05, 0.1, 0.15, 0.12],
        dt=0.5,
    )
    run("S2-elastic", mesh2D, Inel.Behavior(2, isot(), thickness=2.0), loads[:2])


if __name__ == "__main__":
    np.seterr(all="ignore")
    pieces()
    behaviours()
    material_points()
    simulations()
