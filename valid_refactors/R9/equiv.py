"""Deterministic equivalence program for the R9 refactoring.

Exercises boundary conditions / loads, Bc_dofs_known_unknown, Calc_Reaction, Calc_Energy,
Save_Iter / Get_results / Set_Iter of `_Simu`, and the Thermal / WeakForms / Elastic simulations
(Construct_local_matrix_system, Result, Results_Available, ...), and prints every number with repr().

Run:  PYTHONPATH=/tmp/wt_R9 MPLBACKEND=Agg /venv/bin/python equiv.py > out.txt
"""

import os
import shutil
import tempfile
import hashlib

import numpy as np
from scipy import sparse

from EasyFEA import ElemType, Models, Simulations, SolverType, Mesher
from EasyFEA.FEM import Field, BiLinearForm, LinearForm, FeArray, Sym_Grad, Trace
from EasyFEA.Geoms import Domain, Circle, Point, Line
from EasyFEA.Simulations.Solvers import AlgoType
from EasyFEA.Simulations._simu import _Simu

# ------------------------------------------------------------------
# printing
# ------------------------------------------------------------------

TIMING_KEYS = {"timeIter"}
MAX_FULL = 400  # arrays up to this size are fully printed, bigger ones are hashed + sampled


def _r(x):
    """repr of a scalar, using the python builtin repr of the exact value."""
    if isinstance(x, (bool, np.bool_)):
        return repr(bool(x))
    if isinstance(x, (int, np.integer)):
        return repr(int(x))
    if isinstance(x, (float, np.floating)):
        return repr(float(x))
    if isinstance(x, (complex, np.complexfloating)):
        return repr(complex(x))
    return repr(x)


def P(label, x):
    """Prints `x` exactly."""
    if x is None:
        print(f"{label}: None")
    elif sparse.issparse(x):
        x = x.tocsr().copy()
        x.sum_duplicates()
        x.sort_indices()
        print(f"{label}: sparse shape={x.shape} nnz={x.nnz}")
        P(label + ".data", x.data)
        P(label + ".indices", x.indices)
        P(label + ".indptr", x.indptr)
    elif isinstance(x, np.ndarray):
        arr = np.ascontiguousarray(x)
        digest = hashlib.sha256(arr.tobytes()).hexdigest()
        head = f"{label}: ndarray {type(x).__name__} shape={x.shape} dtype={x.dtype} sha256={digest}"
        flat = arr.ravel()
        if flat.size <= MAX_FULL:
            print(head + " values=[" + ", ".join(_r(v) for v in flat.tolist()) + "]")
        else:
            idx = np.linspace(0, flat.size - 1, 60).astype(int)
            print(
                head
                + " sample=["
                + ", ".join(_r(v) for v in flat[idx].tolist())
                + "]"
                + " sum="
                + _r(flat.sum().item() if flat.dtype != object else 0)
            )
    elif isinstance(x, dict):
        print(f"{label}: dict keys={sorted(x.keys())}")
        for key in sorted(x.keys()):
            if key in TIMING_KEYS:
                # wall-clock measurement: not a computed number
                print(f"{label}[{key!r}]: <wall-clock, type {type(x[key]).__name__}>")
                continue
            P(f"{label}[{key!r}]", x[key])
    elif isinstance(x, (list, tuple)):
        if all(isinstance(v, (str, int, float, bool)) or v is None for v in x):
            print(f"{label}: {type(x).__name__} " + repr([_r(v) for v in x]))
        else:
            print(f"{label}: {type(x).__name__} len={len(x)}")
            for i, v in enumerate(x):
                P(f"{label}[{i}]", v)
    else:
        print(f"{label}: {type(x).__name__} {_r(x)}")


def TRY(label, func, *args, **kwargs):
    """Calls func and prints its result or the exception type / message."""
    try:
        out = func(*args, **kwargs)
    except BaseException as err:  # noqa
        print(f"{label}: raised {type(err).__name__}({str(err)!r})")
        return None
    P(label, out)
    return out


def print_bcs(label, simu: _Simu):
    for kind, bcs in [
        ("dirichlet", simu.Bc_Dirichlet),
        ("neumann", simu.Bc_Neuman),
        ("display", simu.Bc_Display),
    ]:
        print(f"{label}: {kind} n={len(bcs)}")
        for i, bc in enumerate(bcs):
            tag = f"{label}.{kind}[{i}]"
            print(f"{tag}: problemType={bc.problemType!r} unknowns={bc.unknowns!r} desc={bc.description!r}")
            P(tag + ".nodes", bc.nodes)
            P(tag + ".dofs", bc.dofs)
            P(tag + ".dofsValues", bc.dofsValues)


def print_bc_vectors(label, simu: _Simu, problemType=None):
    P(label + ".Bc_dofs_Dirichlet", simu.Bc_dofs_Dirichlet(problemType))
    P(label + ".Bc_values_Dirichlet", simu.Bc_values_Dirichlet(problemType))
    P(label + ".Bc_dofs_Neumann", simu.Bc_dofs_Neumann(problemType))
    P(label + ".Bc_values_Neumann", simu.Bc_values_Neumann(problemType))
    P(label + ".Bc_vector_Dirichlet", simu.Bc_vector_Dirichlet(problemType))
    P(label + ".Bc_vector_Neumann", simu.Bc_vector_Neumann(problemType))
    pt = simu.problemType if problemType is None else problemType
    known, unknown = simu.Bc_dofs_known_unknown(pt)
    P(label + ".dofsKnown", known)
    P(label + ".dofsUnknown", unknown)


def print_results(label, simu: _Simu, skip=()):
    available = simu.Results_Available()
    P(label + ".Results_Available", available)
    P(label + ".nodeFields_elementFields", list(simu.Results_nodeFields_elementFields()))
    P(label + ".nodeFields_elementFields(details)", list(simu.Results_nodeFields_elementFields(True)))
    for result in available:
        if result in skip:
            continue
        for nodeValues in (True, False):
            TRY(f"{label}.Result({result!r},{nodeValues})", simu.Result, result, nodeValues)
    TRY(label + ".Result('nope')", simu.Result, "nope")
    TRY(label + ".displacement_matrix", simu.Results_displacement_matrix)
    TRY(label + ".dict_Energy", simu.Results_dict_Energy)
    TRY(label + ".Iter_Summary", simu.Results_Iter_Summary)


def print_system(label, simu: _Simu, problemType=None):
    K, C, M, F = simu.Get_K_C_M_F(problemType) if problemType is None else simu.Get_K_C_M_F(problemType)
    for name, mat in zip("KCMF", (K, C, M, F)):
        P(f"{label}.{name}", mat)
    return K, C, M, F


def print_local_system(label, simu: _Simu):
    out = simu.Construct_local_matrix_system(simu.problemType)
    for groupElem, mats in out.items():
        for name, mat in zip(("K_e", "C_e", "M_e", "F_e"), mats):
            P(f"{label}.local[{groupElem.elemType}].{name}", None if mat is None else np.asarray(mat))


def print_iters(label, simu: _Simu):
    print(f"{label}: Niter={simu.Niter}")
    for i in list(range(simu.Niter)) + [-1]:
        P(f"{label}.Get_results({i})", simu.Get_results(i))
    TRY(label + ".Get_results(out of range)", simu.Get_results, simu.Niter)
    TRY(label + ".Get_results(-Niter-1)", simu.Get_results, -simu.Niter - 1)
    TRY(label + ".Get_results(1.0)", simu.Get_results, 1.0 if simu.Niter > 1 else 0.0)


def energies_and_reactions(label, simu: _Simu, nodes):
    pt = simu.problemType
    dofs = simu.Bc_dofs_nodes(nodes, simu.Get_unknowns(), pt)
    TRY(label + ".Calc_Reaction()", simu.Calc_Reaction)
    TRY(label + ".Calc_Reaction(dofs)", simu.Calc_Reaction, dofs)
    TRY(label + ".Calc_Reaction(dofs[::-1],pt)", simu.Calc_Reaction, dofs[::-1], pt)
    TRY(label + ".Calc_Reaction(dup dofs)", simu.Calc_Reaction, np.concatenate([dofs[:3], dofs[:3]]))
    TRY(label + ".Calc_Reaction(foreign dofs)", simu.Calc_Reaction, np.array([0, 10**9]))
    K, C, M, F = simu.Get_K_C_M_F()
    u = simu._Get_u_n(pt)
    TRY(label + ".Calc_Energy(K,u)", simu.Calc_Energy, K, u)
    TRY(label + ".Calc_Energy(K,u,dofs)", simu.Calc_Energy, K, u, dofs)
    if M.nnz > 0:
        TRY(label + ".Calc_Energy(M,v)", simu.Calc_Energy, M, simu._Get_v_n(pt))
    if C.nnz > 0:
        TRY(label + ".Calc_Energy(C,a,dofs)", simu.Calc_Energy, C, simu._Get_a_n(pt), dofs[::2])


# ------------------------------------------------------------------
# meshes
# ------------------------------------------------------------------

L, H, T = 2.0, 1.0, 0.7


def mesh2D(elemType, organised=True, inclusion=False):
    contour = Domain(Point(0, 0), Point(L, H), H / 3)
    inclusions = [Circle(Point(L / 2, H / 2), H / 2.5, H / 3)] if inclusion else []
    return contour.Mesh_2D(inclusions, elemType, isOrganised=organised)


def mesh3D(elemType, organised=True):
    contour = Domain(Point(0, 0), Point(L, H), H / 2)
    return contour.Mesh_Extrude([], [0, 0, T], [2], elemType, isOrganised=organised)


# ------------------------------------------------------------------
# 1. boundary conditions and loads, elastic
# ------------------------------------------------------------------


def loads_elastic(label, mesh, dim):
    print(f"=== {label}: Nn={mesh.Nn} Ne={mesh.Ne} dim={mesh.dim} inDim={mesh.inDim}")
    if dim == 2:
        material = Models.Elastic.Isotropic(2, E=210000.0, v=0.3, planeStress=True, thickness=T)
    else:
        material = Models.Elastic.Isotropic(3, E=210000.0, v=0.3)
    simu = Simulations.Elastic(mesh, material)
    simu.solver = SolverType.scipy
    simu.rho = 7.8e-3

    unknowns = simu.Get_unknowns()
    nodesX0 = mesh.Nodes_Conditions(lambda x, y, z: x == 0)
    nodesXL = mesh.Nodes_Conditions(lambda x, y, z: x == L)
    nodesY0 = mesh.Nodes_Conditions(lambda x, y, z: y == 0)
    nodesYH = mesh.Nodes_Conditions(lambda x, y, z: y == H)
    P(label + ".nodesX0", nodesX0)
    P(label + ".nodesXL", nodesXL)

    # -- dirichlet : scalar, function, array, numpy scalar
    simu.add_dirichlet(nodesX0, [0] * dim, unknowns, description="clamp")
    simu.add_dirichlet(nodesX0, [lambda x, y, z: 1e-3 * y * (1 + z)], ["y"])
    simu.add_dirichlet(nodesX0[:2], [np.float32(0.25e-3)], ["x"], description="dup")
    simu.add_dirichlet(list(nodesY0[:3]), [np.linspace(1e-4, 3e-4, 3), 0.0], unknowns[:2][::-1])
    simu.add_dirichlet(nodesX0, [], [])  # empty values -> ignored
    simu.add_dirichlet([], [0], ["x"])  # empty nodes -> ignored
    TRY(label + ".add_dirichlet(len mismatch)", simu.add_dirichlet, nodesX0, [0, 0], ["x"])
    TRY(label + ".add_dirichlet(bad problemType)", simu.add_dirichlet, nodesX0, [0], ["x"], "thermal")
    TRY(label + ".add_dirichlet(bad unknown)", simu.add_dirichlet, nodesX0[:1], [0], ["rz"])
    TRY(label + ".add_dirichlet(bad array)", simu.add_dirichlet, nodesX0, [np.ones(nodesX0.size + 1)], ["x"])

    # -- neumann (point loads)
    simu.add_neumann(nodesXL, [-50.0], ["y"], description="tip")
    simu.add_neumann(nodesXL, [lambda x, y, z: 10 * y + z, 3], ["x", "y"])
    simu.add_neumann(nodesXL, [np.arange(nodesXL.size) * 1.5], ["x"])
    simu.add_neumann(nodesXL, [7], ["x"], simu.problemType, "typed")
    simu.add_neumann(np.array([], dtype=int), [7], ["x"])
    TRY(label + ".add_neumann(list nodes)", simu.add_neumann, list(nodesXL), [1.0], ["x"])
    TRY(label + ".add_neumann(len mismatch)", simu.add_neumann, nodesXL, [1.0], ["x", "y"])

    # -- line loads
    simu.add_lineLoad(nodesYH, [-3.5], ["y"], description="line scalar")
    simu.add_lineLoad(nodesYH, [lambda x, y, z: x**2 - y + z, 2], ["x", "y"])
    simu.add_lineLoad(nodesYH, [np.cos(mesh.coord[nodesYH, 0])], ["x"], description="line array")
    simu.add_lineLoad(nodesYH, [np.int64(4)], ["y"], description="line np.int64")
    simu.add_lineLoad(nodesYH, [True], ["x"], description="line bool")
    simu.add_lineLoad(nodesYH[:1], [1.0], ["x"], description="no element")
    TRY(label + ".add_lineLoad(bad unknown)", simu.add_lineLoad, nodesYH, [1.0], ["t"])
    TRY(label + ".add_lineLoad(len mismatch)", simu.add_lineLoad, nodesYH, [1.0, 2.0, 3.0, 4.0], ["x"])
    simu.add_lineLoad([], [1.0], ["x"])

    # -- surface loads
    simu.add_surfLoad(nodesXL, [12.5], ["x"], description="surf scalar")
    simu.add_surfLoad(nodesXL, [lambda x, y, z: y * (1 - y) + z, -1], unknowns[:2])
    simu.add_surfLoad(nodesXL, [np.sin(mesh.coord[nodesXL, 1] + 0.1)], ["y"], description="surf array")
    TRY(label + ".add_surfLoad(bad unknown)", simu.add_surfLoad, nodesXL, [1.0], ["u"])

    # -- volume loads
    simu.add_volumeLoad(mesh.nodes, [-7.8e-3 * 9.81], [unknowns[-1]], description="gravity")
    simu.add_volumeLoad(mesh.nodes, [lambda x, y, z: x * y + z, 0.5], unknowns[:2])
    simu.add_volumeLoad(mesh.nodes, [mesh.coord[:, 0] * 0.1], ["x"], description="vol array")
    TRY(label + ".add_volumeLoad(bad unknown)", simu.add_volumeLoad, mesh.nodes, [1.0], ["rx"])

    # -- pressure
    simu.add_pressureLoad(nodesYH, 2.5, description="pressure")
    simu.add_pressureLoad(nodesXL, -1.25, simu.problemType)
    simu.add_pressureLoad(nodesXL, 0)  # ignored
    simu.add_pressureLoad([], 1.0)  # ignored
    TRY(label + ".add_pressureLoad(bad problemType)", simu.add_pressureLoad, nodesXL, 1.0, "damage")

    # -- display
    simu._Bc_Add_Display(nodesXL, unknowns[:1], "shown")
    simu._Bc_Add_Display(nodesXL, unknowns, "shown typed", simu.problemType)
    TRY(label + "._Bc_Add_Display(bad)", simu._Bc_Add_Display, nodesXL, ["x"], "bad", "beam")

    print_bcs(label, simu)
    print_bc_vectors(label, simu)
    print_bc_vectors(label + ".typed", simu, simu.problemType)
    TRY(label + ".Bc_dofs_known_unknown(bad)", simu.Bc_dofs_known_unknown, "thermal")

    # private evaluation helper, reached through its mangled name (unchanged by the refactoring)
    evaluate = simu._Simu__Bc_evaluate
    coord_n = mesh.coord[nodesXL]
    coord_e_p = mesh.groupElem.Get_GaussCoordinates_e_pg("mass")[:3]
    TRY(label + ".evaluate(nodes,scalar)", evaluate, coord_n, 2.5)
    TRY(label + ".evaluate(nodes,func)", evaluate, coord_n, lambda x, y, z: x - 2 * y + 3 * z, "nodes")
    TRY(label + ".evaluate(nodes,array)", evaluate, coord_n, np.arange(coord_n.shape[0]), option="nodes")
    TRY(label + ".evaluate(gauss,scalar)", evaluate, coord_e_p, 2.5, "gauss")
    TRY(label + ".evaluate(gauss,func)", evaluate, coord_e_p, lambda x, y, z: x * y - z, option="gauss")
    TRY(label + ".evaluate(gauss,array)", evaluate, coord_e_p, np.arange(coord_e_p.shape[1]) * 0.5, "gauss")
    TRY(label + ".evaluate(gauss,bad array)", evaluate, coord_e_p, np.arange(coord_e_p.shape[1] + 7), "gauss")
    TRY(label + ".evaluate(bad option)", evaluate, coord_n, 2.5, "elements")
    TRY(label + ".check_inputs", simu._Simu__Bc_check_inputs, nodesXL, [1], ["x"])
    TRY(label + ".check_inputs(empty)", simu._Simu__Bc_check_inputs, nodesXL, [], ["x"])
    TRY(label + ".check_inputs(bad)", simu._Simu__Bc_check_inputs, nodesXL, [1, 2], ["x"])
    for name in ("lineLoad", "surfload", "volumeload"):
        helper = getattr(simu, f"_Simu__Bc_{name}")
        out = TRY(f"{label}.__Bc_{name}", helper, simu.problemType, mesh.nodes, [1.5, lambda x, y, z: x], unknowns[:2])
        TRY(f"{label}.__Bc_{name}(bad)", helper, simu.problemType, mesh.nodes, [1.5], ["t"])
    TRY(label + ".__Bc_pointLoad", simu._Simu__Bc_pointLoad, simu.problemType, nodesXL, [1.5, lambda x, y, z: x], unknowns[:2])
    TRY(label + ".__Bc_pressureload", simu._Simu__Bc_pressureload, simu.problemType, nodesXL, 3.0)
    TRY(label + ".__Bc_Integration_Dim(0)", simu._Simu__Bc_Integration_Dim, 0, simu.problemType, nodesXL, [1.0], ["x"])

    # -- local and global system, solve
    print_local_system(label, simu)
    print_system(label, simu)
    u = simu.Solve()
    P(label + ".u", u)
    simu.Save_Iter()
    energies_and_reactions(label, simu, nodesX0)
    print_results(label, simu)
    print_iters(label, simu)

    simu.Bc_Init()
    print_bcs(label + ".afterInit", simu)
    print_bc_vectors(label + ".afterInit", simu)
    return simu


# ------------------------------------------------------------------
# 2. dynamic elastic, iterations in memory and on disk
# ------------------------------------------------------------------


def dynamic_elastic(label, mesh, algo, folder=""):
    print(f"=== {label}: algo={algo} folder={'yes' if folder else 'no'}")
    dim = mesh.dim
    material = Models.Elastic.Isotropic(dim, E=210000.0, v=0.3, planeStress=False, thickness=T)
    simu = Simulations.Elastic(mesh, material, folder=folder)
    simu.solver = SolverType.scipy
    simu.rho = 8.1e-3
    simu.Set_Rayleigh_Damping_Coefs(1e-3, 2e-3)
    unknowns = simu.Get_unknowns()
    nodesX0 = mesh.Nodes_Conditions(lambda x, y, z: x == 0)
    nodesXL = mesh.Nodes_Conditions(lambda x, y, z: x == L)

    simu.add_dirichlet(nodesX0, [0] * dim, unknowns)
    simu.add_dirichlet(nodesXL, [-0.05], ["y"])
    simu.Solve()
    simu.Save_Iter()
    energies_and_reactions(label + ".static", simu, nodesX0)

    alpha = 0.1 if algo in (AlgoType.hht, AlgoType.hht_newmark) else 0.5
    simu.Solver_Set_Hyperbolic_Algorithm(1e-3, algo, alpha=alpha)
    for step in range(3):
        simu.Bc_Init()
        simu.add_dirichlet(nodesX0, [0] * dim, unknowns)
        simu.add_surfLoad(nodesXL, [lambda x, y, z: 2.0 * (step + 1) * (1 + y)], ["y"])
        simu.add_volumeLoad(mesh.nodes, [-1e-2], ["y"])
        simu.Solve()
        simu.Save_Iter({"step": step, "extra": np.arange(3) * 0.5})
        P(f"{label}.u[{step}]", simu.displacement)
        P(f"{label}.v[{step}]", simu.speed)
        P(f"{label}.a[{step}]", simu.accel)
    energies_and_reactions(label + ".dyn", simu, nodesX0)
    print_results(label + ".dyn", simu, skip=("ZZ1", "ZZ1_e"))
    print_iters(label, simu)

    for i in (0, 2, -1, 1):
        res = simu.Set_Iter(i)
        P(f"{label}.Set_Iter({i})", res)
        P(f"{label}.Set_Iter({i}).u", simu.displacement)
        P(f"{label}.Set_Iter({i}).v", simu.speed)
        P(f"{label}.Set_Iter({i}).a", simu.accel)
        TRY(f"{label}.Result('uy',iter={i})", simu.Result, "uy", True, i)
        TRY(f"{label}.Result('Svm',iter={i})", simu.Result, "Svm", False, i)
    TRY(label + ".Set_Iter(99)", simu.Set_Iter, 99)
    return simu


# ------------------------------------------------------------------
# 3. thermal
# ------------------------------------------------------------------


def thermal(label, mesh, parabolic, folder=""):
    print(f"=== {label}: Nn={mesh.Nn} Ne={mesh.Ne} parabolic={parabolic}")
    model = Models.Thermal(k=1.3, c=0.9, thickness=T)
    simu = Simulations.Thermal(mesh, model, folder=folder)
    simu.solver = SolverType.scipy
    simu.rho = 2.5
    P(label + ".unknowns", simu.Get_unknowns())
    P(label + ".dof_n", simu.Get_dof_n())
    P(label + ".x0", simu.Get_x0())

    nodesX0 = mesh.Nodes_Conditions(lambda x, y, z: x == 0)
    nodesXL = mesh.Nodes_Conditions(lambda x, y, z: x == L)
    nodesYH = mesh.Nodes_Conditions(lambda x, y, z: y == H)

    print_local_system(label, simu)

    if parabolic:
        simu.Solver_Set_Parabolic_Algorithm(0.05, 0.5)

    nSteps = 3 if parabolic else 1
    for step in range(nSteps):
        simu.Bc_Init()
        simu.add_dirichlet(nodesX0, [lambda x, y, z: 10 * y + z], ["t"])
        simu.add_dirichlet(nodesXL, [40.0 + step], ["t"])
        simu.add_surfLoad(nodesYH, [lambda x, y, z: 3.0 * x], ["t"])
        simu.add_volumeLoad(mesh.nodes, [0.25], ["t"])
        simu.add_neumann(nodesYH[:2], [1.0], ["t"])
        if mesh.dim == 2:
            simu.add_lineLoad(nodesYH, [np.ones(nodesYH.size) * 0.5], ["t"])
        TRY(label + ".add_pressureLoad", simu.add_pressureLoad, nodesYH, 1.0)
        if step == 0:
            print_bcs(label, simu)
            print_bc_vectors(label, simu)
            print_system(label, simu)
        simu.Solve()
        simu.Save_Iter()
        P(f"{label}.thermal[{step}]", simu.thermal)
        P(f"{label}.thermalDot[{step}]", simu.thermalDot)
    P(label + ".x0 solved", simu.Get_x0())
    energies_and_reactions(label, simu, nodesX0)
    print_results(label, simu)
    print_iters(label, simu)
    for i in range(simu.Niter):
        P(f"{label}.Set_Iter({i})", simu.Set_Iter(i))
        P(f"{label}.Set_Iter({i}).thermal", simu.thermal)
        P(f"{label}.Set_Iter({i}).thermalDot", simu.thermalDot)
        TRY(f"{label}.Result('thermalDot',iter={i})", simu.Result, "thermalDot", False, i)
    return simu


# ------------------------------------------------------------------
# 4. weak forms
# ------------------------------------------------------------------


def weakforms_scalar(label, mesh, algo, thickness):
    print(f"=== {label}: algo={algo} thickness={thickness!r}")
    field = Field(mesh.groupElem, 1)

    @BiLinearForm
    def computeK(u: Field, v: Field):
        return 1.3 * u.grad.dot(v.grad)

    @BiLinearForm
    def computeC(u: Field, v: Field):
        return 0.7 * u.dot(v)

    @LinearForm
    def computeF(v: Field):
        x, y, _ = v.Get_coords()
        return np.sin(np.pi * x) * np.cos(y) * v

    if algo == "elliptic":
        model = Models.WeakForms(field, computeK, computeF=computeF, thickness=thickness)
    else:
        model = Models.WeakForms(field, computeK, computeC, computeF=computeF, thickness=thickness)
    simu = Simulations.WeakForms(mesh, model)
    simu.solver = SolverType.scipy
    P(label + ".unknowns", simu.Get_unknowns())
    P(label + ".dof_n", simu.Get_dof_n())
    print_local_system(label, simu)

    nodesX0 = mesh.Nodes_Conditions(lambda x, y, z: x == 0)
    nodesXL = mesh.Nodes_Conditions(lambda x, y, z: x == L)
    if algo == "parabolic":
        simu.Solver_Set_Parabolic_Algorithm(0.1)
    for step in range(2 if algo == "parabolic" else 1):
        simu.Bc_Init()
        simu.add_dirichlet(nodesX0, [0], ["u"])
        simu.add_dirichlet(nodesXL, [lambda x, y, z: 1 + y], ["u"])
        simu.add_volumeLoad(mesh.nodes, [0.1 * (step + 1)], ["u"])
        simu.Solve()
        simu.Save_Iter()
    print_bcs(label, simu)
    print_system(label, simu)
    energies_and_reactions(label, simu, nodesX0)
    print_results(label, simu)
    print_iters(label, simu)
    for i in range(simu.Niter):
        P(f"{label}.Set_Iter({i})", simu.Set_Iter(i))
        P(f"{label}.Set_Iter({i}).u", simu.u)
        P(f"{label}.Set_Iter({i}).v", simu.v)
        P(f"{label}.Set_Iter({i}).a", simu.a)
    return simu


def weakforms_vector(label, mesh, algo, folder=""):
    dim = mesh.inDim
    print(f"=== {label}: algo={algo} dim={dim}")
    field = Field(mesh.groupElem, dim)
    lmbda, mu, rho = 1.2e5, 8.0e4, 8.1e-3

    def S(u: Field) -> FeArray:
        Eps = Sym_Grad(u)
        return 2 * mu * Eps + lmbda * Trace(Eps) * np.eye(dim)

    @BiLinearForm
    def computeK(u: Field, v: Field):
        return S(u).ddot(Sym_Grad(v))

    @BiLinearForm
    def computeM(u: Field, v: Field):
        return rho * u.dot(v)

    @BiLinearForm
    def computeC(u: Field, v: Field):
        return computeK(u, v) * 1e-3 + computeM(u, v) * 1e-3

    model = Models.WeakForms(field, computeK, computeC, computeM, thickness=T)
    simu = Simulations.WeakForms(mesh, model, folder=folder)
    simu.solver = SolverType.scipy
    unknowns = simu.Get_unknowns()
    P(label + ".unknowns", unknowns)
    print_local_system(label, simu)

    nodesX0 = mesh.Nodes_Conditions(lambda x, y, z: x == 0)
    nodesXL = mesh.Nodes_Conditions(lambda x, y, z: x == L)
    simu.add_dirichlet(nodesX0, [0] * dim, unknowns)
    simu.add_dirichlet(nodesXL, [-0.05], ["y"])
    simu.Solve()
    simu.Save_Iter()
    energies_and_reactions(label + ".static", simu, nodesX0)

    if algo is not None:
        alpha = 0.1 if algo in (AlgoType.hht, AlgoType.hht_newmark) else 0.5
        simu.Solver_Set_Hyperbolic_Algorithm(1e-3, algo, alpha=alpha)
    for step in range(2):
        simu.Bc_Init()
        simu.add_dirichlet(nodesX0, [0] * dim, unknowns)
        simu.add_surfLoad(nodesXL, [1.0 + step], ["x"])
        simu.add_pressureLoad(nodesXL, 0.5)
        simu.Solve()
        simu.Save_Iter()
    print_bcs(label, simu)
    energies_and_reactions(label + ".dyn", simu, nodesX0)
    print_results(label, simu)
    print_iters(label, simu)
    for i in (0, -1, 1):
        TRY(f"{label}.Set_Iter({i})", simu.Set_Iter, i)
        P(f"{label}.Set_Iter({i}).u", simu.u)
        P(f"{label}.Set_Iter({i}).v", simu.v)
        P(f"{label}.Set_Iter({i}).a", simu.a)
        TRY(f"{label}.Result('vy',iter={i})", simu.Result, "vy", True, i)
    return simu


def weakforms_nonlinear(label, mesh):
    print(f"=== {label}")
    field = Field(mesh.groupElem, 1)

    @BiLinearForm
    def computeK(u: Field, v: Field):
        return u.grad.dot(v.grad)

    model = Models.WeakForms(field, computeK)
    simu = Simulations.WeakForms(mesh, model, isNonLinear=True, tolConv=1e-8, maxIter=7)
    P(label + ".isNonLinear", simu.isNonLinear)
    TRY(label + ".Calc_Reaction", simu.Calc_Reaction)
    P(label + ".Results_Available", simu.Results_Available())


# ------------------------------------------------------------------
# 5. beams (1D mesh) and phase-field (two problem types)
# ------------------------------------------------------------------


def beam(label, elemType, beamDim):
    print(f"=== {label}: {elemType} beamDim={beamDim}")
    mesher = Mesher()
    section = Domain(Point(-0.05, -0.1), Point(0.05, 0.1)).Mesh_2D([], ElemType.QUAD4, isOrganised=True)
    p1, p2 = Point(), Point(x=1.5)
    line = Line(p1, p2, 1.5 / 4)
    model = Models.Beam.Isotropic(beamDim, line, section, 200000e6, 0.3)
    mesh = mesher.Mesh_Beams([model], elemType=elemType)
    structure = Models.Beam.BeamStructure([model])
    simu = Simulations.Beam(mesh, structure)
    simu.solver = SolverType.scipy
    simu.rho = 7800.0
    unknowns = simu.Get_unknowns()
    P(label + ".unknowns", unknowns)
    simu.add_dirichlet(mesh.Nodes_Point(p1), [0] * simu.Get_dof_n(), unknowns)
    simu.add_lineLoad(mesh.nodes, [lambda x, y, z: 100 * (1 + x)], ["x"])
    simu.add_lineLoad(mesh.nodes, [np.linspace(1, 2, mesh.Nn)], [unknowns[-1]])
    simu.add_neumann(mesh.Nodes_Point(p2), [5000.0], ["x"])
    if beamDim > 1:
        simu.add_neumann(mesh.Nodes_Point(p2), [-300.0, 20.0], ["y", "rz"])
    TRY(label + ".add_surfLoad", simu.add_surfLoad, mesh.nodes, [1.0], ["x"])
    TRY(label + ".add_volumeLoad", simu.add_volumeLoad, mesh.nodes, [1.0], ["x"])
    TRY(label + ".add_pressureLoad", simu.add_pressureLoad, mesh.nodes, 1.0)
    print_bcs(label, simu)
    print_bc_vectors(label, simu)
    P(label + ".u", simu.Solve())
    simu.Save_Iter()
    energies_and_reactions(label, simu, mesh.Nodes_Point(p1))
    print_iters(label, simu)


def thermal_1D(label, elemType):
    """Thermal simulation on a 1D mesh: surface / volume / pressure loads have no configuration there."""
    print(f"=== {label}: {elemType}")
    section = Domain(Point(-0.05, -0.1), Point(0.05, 0.1)).Mesh_2D([], ElemType.QUAD4, isOrganised=True)
    p1, p2 = Point(), Point(x=1.5)
    line = Line(p1, p2, 1.5 / 5)
    beamModel = Models.Beam.Isotropic(1, line, section, 200000e6, 0.3)
    mesh = Mesher().Mesh_Beams([beamModel], elemType=elemType)
    simu = Simulations.Thermal(mesh, Models.Thermal(k=2.0, c=0.5, thickness=T))
    simu.solver = SolverType.scipy
    print_local_system(label, simu)
    simu.add_dirichlet(mesh.Nodes_Point(p1), [10.0], ["t"])
    simu.add_neumann(mesh.Nodes_Point(p2), [lambda x, y, z: 3.0 * x], ["t"])
    simu.add_lineLoad(mesh.nodes, [lambda x, y, z: 1 + x**2], ["t"])
    simu.add_lineLoad(mesh.nodes, [np.linspace(0, 1, mesh.Nn)], ["t"])
    TRY(label + ".add_surfLoad", simu.add_surfLoad, mesh.nodes, [1.0], ["t"])
    TRY(label + ".add_volumeLoad", simu.add_volumeLoad, mesh.nodes, [1.0], ["t"])
    TRY(label + ".add_pressureLoad", simu.add_pressureLoad, mesh.nodes, 1.0)
    simu.add_surfLoad([], [1.0], ["t"])
    simu.add_volumeLoad(mesh.nodes, [], [])
    P(label + ".Bc_dofs_nodes(empty)", simu.Bc_dofs_nodes([], ["t"]))
    P(label + ".Bc_dofs_nodes(default)", simu.Bc_dofs_nodes(mesh.nodes[::2], ["t"]))
    TRY(label + ".Bc_dofs_nodes(bad)", simu.Bc_dofs_nodes, mesh.nodes, ["t"], "elastic")
    print_bcs(label, simu)
    print_bc_vectors(label, simu)
    P(label + ".thermal", simu.Solve())
    simu.Save_Iter()
    energies_and_reactions(label, simu, mesh.Nodes_Point(p1))
    print_results(label, simu)
    print_iters(label, simu)


def phasefield(label, mesh):
    print(f"=== {label}")
    material = Models.Elastic.Isotropic(2, E=210000.0, v=0.3, planeStress=True, thickness=T)
    pfm = Models.PhaseField(material, "AnisotStress", "AT2", 2700.0, 0.2)
    simu = Simulations.PhaseField(mesh, pfm)
    simu.solver = SolverType.scipy
    nodesX0 = mesh.Nodes_Conditions(lambda x, y, z: x == 0)
    nodesXL = mesh.Nodes_Conditions(lambda x, y, z: x == L)
    nodesMid = mesh.Nodes_Conditions(lambda x, y, z: (x == L / 2) & (y <= H / 2))
    P(label + ".problemTypes", [str(p) for p in simu.Get_problemTypes()])
    for ud in (1e-4, 2e-4):
        simu.Bc_Init()
        simu.add_dirichlet(nodesX0, [0, 0], ["x", "y"])
        simu.add_dirichlet(nodesXL, [ud], ["x"], "elastic")
        simu.add_dirichlet(nodesMid, [1.0], ["d"], "damage", description="crack")
        simu.add_lineLoad(nodesXL, [1.0], ["y"], "elastic")
        simu.add_volumeLoad(mesh.nodes, [1e-3], ["d"], "damage")
        TRY(label + ".add_pressureLoad(damage)", simu.add_pressureLoad, nodesXL, 1.0, "damage")
        TRY(label + ".add_dirichlet(wrong unknown)", simu.add_dirichlet, nodesXL, [1.0], ["x"], "damage")
        simu.Solve()
        simu.Save_Iter()
    print_bcs(label, simu)
    for pt in simu.Get_problemTypes():
        print_bc_vectors(f"{label}.{pt}", simu, pt)
        TRY(f"{label}.Calc_Reaction({pt})", simu.Calc_Reaction, None, pt)
        TRY(f"{label}.Get_dofs({pt})", simu.Get_dofs, pt)
    print_iters(label, simu)
    P(label + ".Set_Iter(0)", simu.Set_Iter(0))
    P(label + ".damage", simu.damage)
    P(label + ".displacement", simu.displacement)


# ------------------------------------------------------------------
# main
# ------------------------------------------------------------------


def main():
    np.set_printoptions(precision=17)
    tmp = tempfile.mkdtemp(prefix="equiv_R9_")
    try:
        # 1. loads
        for elemType in (ElemType.TRI3, ElemType.TRI6, ElemType.TRI10, ElemType.QUAD4, ElemType.QUAD8, ElemType.QUAD9):
            loads_elastic(f"loads2D.{elemType}", mesh2D(elemType), 2)
        loads_elastic("loads2D.TRI3.unstructured", mesh2D(ElemType.TRI3, False, True), 2)
        loads_elastic("loads2D.QUAD4.unstructured", mesh2D(ElemType.QUAD4, False, True), 2)
        for elemType in (ElemType.TETRA4, ElemType.TETRA10, ElemType.HEXA8, ElemType.HEXA20, ElemType.PRISM6, ElemType.PRISM15):
            loads_elastic(f"loads3D.{elemType}", mesh3D(elemType), 3)

        # 2. dynamics + iterations
        algos = [AlgoType.newmark, AlgoType.midpoint, AlgoType.hht, AlgoType.hht_newmark, AlgoType.euler_implicit]
        for i, algo in enumerate(algos):
            folder = os.path.join(tmp, f"dyn{i}") if i % 2 == 0 else ""
            dynamic_elastic(f"dyn2D.{algo.value}", mesh2D(ElemType.TRI6 if i % 2 else ElemType.QUAD4), algo, folder)
        dynamic_elastic("dyn3D.newmark", mesh3D(ElemType.PRISM6), AlgoType.newmark, os.path.join(tmp, "dyn3D"))

        # 3. thermal
        for elemType in (ElemType.TRI3, ElemType.QUAD8, ElemType.TRI15):
            thermal(f"thermal2D.{elemType}", mesh2D(elemType), False)
            thermal(f"thermal2D.{elemType}.parabolic", mesh2D(elemType), True, os.path.join(tmp, f"th{elemType}"))
        thermal("thermal2D.TRI6.unstructured", mesh2D(ElemType.TRI6, False, True), True)
        for elemType in (ElemType.TETRA4, ElemType.HEXA8, ElemType.PRISM6):
            thermal(f"thermal3D.{elemType}", mesh3D(elemType), False)
            thermal(f"thermal3D.{elemType}.parabolic", mesh3D(elemType), True)

        # 4. weak forms
        weakforms_scalar("wfScalar.TRI6.elliptic", mesh2D(ElemType.TRI6), "elliptic", 1.0)
        weakforms_scalar("wfScalar.QUAD4.elliptic", mesh2D(ElemType.QUAD4), "elliptic", 0.35)
        weakforms_scalar("wfScalar.TRI3.parabolic", mesh2D(ElemType.TRI3), "parabolic", 0.35)
        weakforms_scalar("wfScalar.TETRA4.parabolic", mesh3D(ElemType.TETRA4), "parabolic", 0.35)
        weakforms_vector("wfVector.QUAD4.static", mesh2D(ElemType.QUAD4), None)
        weakforms_vector("wfVector.TRI6.newmark", mesh2D(ElemType.TRI6), AlgoType.newmark, os.path.join(tmp, "wf2D"))
        weakforms_vector("wfVector.QUAD8.hht", mesh2D(ElemType.QUAD8), AlgoType.hht)
        weakforms_vector("wfVector.HEXA8.midpoint", mesh3D(ElemType.HEXA8), AlgoType.midpoint)
        weakforms_nonlinear("wfNonLinear.TRI3", mesh2D(ElemType.TRI3))

        # 5. beams and phase field
        beam("beam1D.SEG2", ElemType.SEG2, 1)
        beam("beam2D.SEG3", ElemType.SEG3, 2)
        beam("beam3D.SEG2", ElemType.SEG2, 3)
        thermal_1D("thermal1D.SEG2", ElemType.SEG2)
        thermal_1D("thermal1D.SEG4", ElemType.SEG4)
        phasefield("phasefield.TRI3", mesh2D(ElemType.TRI3))
    finally:
        shutil.rmtree(tmp, ignore_errors=True)


if __name__ == "__main__":
    main()
