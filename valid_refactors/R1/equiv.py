"""Equivalence digest for the _group_elem.py / _gauss.py refactoring.

Run as:  cd WORKTREE && PYTHONPATH=WORKTREE /venv/bin/python equiv.py
Prints one line per checked quantity: `label shape sum/norm weighted-sum/norm norm`. The norm is
printed with 12 significant digits, the two (possibly cancelling) sums with 10 decimals relative
to the norm so that pure round-off noise is not printed.
The output has to be the same before and after the refactoring.
"""

import numpy as np

from EasyFEA import ElemType, MatrixType, Mesher
from EasyFEA.FEM import Gauss
from EasyFEA.FEM._group_elem import _GroupElem, GroupElemFactory
from EasyFEA.Geoms import Points

np.seterr(all="ignore")


def _weights(n: int) -> np.ndarray:
    # fixed, non symmetric weights so that a permutation of the entries changes the digest
    return np.cos(1.0 + 0.37 * np.arange(n)) + 0.011 * np.arange(n) % 0.7


def digest(label: str, array) -> None:
    if array is None:
        print(f"{label:<58s} None")
        return
    arr = np.asarray(array)
    if arr.dtype == object:
        arr = np.concatenate([np.asarray(a, dtype=float).ravel() for a in arr] + [[]])
    arr = arr.astype(float)
    flat = arr.ravel()
    norm = float(np.linalg.norm(flat)) if flat.size else 0.0
    total = float(flat.sum()) if flat.size else 0.0
    weighted = float(flat @ _weights(flat.size)) if flat.size else 0.0
    # the two sums can cancel, so they are printed relative to the norm (10 decimals); the norm
    # itself, which cannot cancel, is printed with 12 significant digits.
    scale = norm if norm > 0 else 1.0
    total = round(total / scale, 10) + 0.0
    weighted = round(weighted / scale, 10) + 0.0
    print(
        f"{label:<58s} {str(np.shape(array)):<18s} {total: .10f} {weighted: .10f} {norm: .11e}"
    )


def raised(label: str, func) -> None:
    try:
        func()
        print(f"{label:<58s} no exception")
    except Exception as err:  # noqa: BLE001
        print(f"{label:<58s} raises {type(err).__name__}")


# ----------------------------------------------------------------------------------------------
# Gauss
# ----------------------------------------------------------------------------------------------


def check_gauss() -> None:
    for elemType in ElemType:
        if elemType == ElemType.POINT:
            continue
        for matrixType in MatrixType.Get_types():
            label = f"gauss {elemType} {matrixType}"
            try:
                gauss = Gauss(elemType, matrixType)
            except Exception as err:  # noqa: BLE001
                print(f"{label:<58s} raises {type(err).__name__}")
                continue
            digest(label + " coord", gauss.coord)
            digest(label + " weights", gauss.weights)
            assert gauss.nPg == gauss.weights.size
            # the static factory and a plain string are accepted too
            coord, weights = Gauss.Gauss_factory(elemType, str(matrixType))
            assert np.array_equal(coord, gauss.coord)
            assert np.array_equal(weights, gauss.weights)
            # a Gauss object must not be polluted by writes done on another one
            other = Gauss(elemType, matrixType)
            try:
                other.coord[...] = -7.0
                other.weights[...] = -7.0
            except ValueError:
                pass
            again = Gauss(elemType, matrixType)
            assert np.array_equal(again.coord, coord), "shared state between Gauss objects"
            assert np.array_equal(again.weights, weights), "shared state between Gauss objects"

    for elemType in ElemType:
        for nPg in [1, 2, 3, 4, 5, 6, 7, 8, 9, 12, 15, 21, 27]:
            label = f"gauss {elemType} nPg={nPg}"
            try:
                gauss = Gauss(elemType, nPg)
            except Exception as err:  # noqa: BLE001
                print(f"{label:<58s} raises {type(err).__name__}")
                continue
            digest(label + " coord", gauss.coord)
            digest(label + " weights", gauss.weights)

    raised("gauss POINT rigi", lambda: Gauss(ElemType.POINT, MatrixType.rigi))
    raised("gauss TRI3 beam", lambda: Gauss(ElemType.TRI3, MatrixType.beam))
    raised("gauss TRI3 'foo'", lambda: Gauss(ElemType.TRI3, "foo"))
    raised("gauss TRI3 2.5", lambda: Gauss(ElemType.TRI3, 2.5))
    raised("gauss TRI3 None", lambda: Gauss(ElemType.TRI3, None))
    raised("gauss QUAD4 nPg=5", lambda: Gauss(ElemType.QUAD4, 5))
    raised("gauss factory TETRA4 beam", lambda: Gauss.Gauss_factory("TETRA4", "beam"))


# ----------------------------------------------------------------------------------------------
# Group of elements
# ----------------------------------------------------------------------------------------------


def build_meshes() -> list:
    L, H = 2.0, 1.0
    contour = Points([(0, 0), (L, 0), (L * 1.1, H), (0, H * 0.8)], H / 3)
    meshes = []

    for elemType in ElemType.Get_1D():
        mesher = Mesher()
        factory = mesher._factory
        p1 = factory.addPoint(0, 0, 0)
        p2 = factory.addPoint(1, 0.5, 0.25)
        factory.addLine(p1, p2)
        mesher._Mesh_Generate(1, elemType)
        meshes.append((f"{elemType}", mesher._Mesh_Get_Mesh()))

    for elemType in ElemType.Get_2D():
        meshes.append((f"{elemType}", contour.Mesh_2D([], elemType, isOrganised=False)))

    # a 2D mesh embedded in the 3D space (dim != inDim)
    mesh = contour.Mesh_2D([], ElemType.QUAD8, isOrganised=True)
    mesh.Rotate(35.0, mesh.center, (1, 0.3, 0.2))
    meshes.append(("QUAD8-rotated", mesh))
    mesh = contour.Mesh_2D([], ElemType.TRI6, isOrganised=False)
    mesh.Rotate(-50.0, mesh.center, (0.1, 1, 0.4))
    meshes.append(("TRI6-rotated", mesh))

    for elemType in ElemType.Get_3D():
        organised = not elemType.startswith("TETRA")
        mesh = contour.Mesh_Extrude(
            [], [0, 0, L / 2], [2], elemType, isOrganised=organised
        )
        meshes.append((f"{elemType}", mesh))

    return meshes


def matrix_types(group: _GroupElem) -> list:
    types = []
    for matrixType in MatrixType.Get_types():
        try:
            group.Get_gauss(matrixType)
            types.append(matrixType)
        except Exception:  # noqa: BLE001
            pass
    return types


def check_group(name: str, group: _GroupElem, rng: np.random.Generator) -> None:
    tag = f"{name}/{group.elemType}"
    Ncoords = group.Ncoords
    displacement = 0.05 * np.sin(
        np.arange(Ncoords * 3, dtype=float).reshape(Ncoords, 3) * 0.7
    )
    if group.inDim < 3:
        displacement[:, 2] = 0.0

    # assembly
    for dof_n in [1, 2, 3, 6]:
        digest(f"{tag} assembly_e dof={dof_n}", group.Get_assembly_e(dof_n))
        digest(f"{tag} rows_e dof={dof_n}", group.Get_rows_e(dof_n))
        digest(f"{tag} columns_e dof={dof_n}", group.Get_columns_e(dof_n))
        assert group.Get_assembly_e(dof_n).dtype == np.int64
        assert group.Get_rows_e(dof_n).dtype == np.int64
        assert group.Get_columns_e(dof_n).dtype == np.int64
    digest(f"{tag} _assembly_e list", _GroupElem._Get_assembly_e(group.connect[:3], 2))

    digest(f"{tag} sysCoord_e", group._Get_sysCoord_e())
    digest(f"{tag} sysCoord_e disp", group._Get_sysCoord_e(displacement))
    digest(f"{tag} sysCoord_e disp list", group._Get_sysCoord_e(displacement.tolist()))
    raised(f"{tag} sysCoord_e bad disp", lambda: group._Get_sysCoord_e(displacement[1:]))

    if group.dim == 0:
        for matrixType in MatrixType.Get_types():
            digest(f"{tag} {matrixType} N_pg", group.Get_N_pg(matrixType))
            digest(f"{tag} {matrixType} dN_pg", group.Get_dN_pg(matrixType))
            digest(f"{tag} {matrixType} F", group.Get_F_e_pg(matrixType))
            digest(f"{tag} {matrixType} wJ", group.Get_weightedJacobian_e_pg(matrixType))
        raised(f"{tag} gaussCoord", lambda: group.Get_GaussCoordinates_e_pg(MatrixType.mass))
        raised(f"{tag} Integrate_e", lambda: group.Integrate_e())
        raised(f"{tag} normals", lambda: group.Get_normals_e_pg(MatrixType.mass))
        raised(f"{tag} dddN_pg", lambda: group.Get_dddN_pg(MatrixType.mass))
        digest(f"{tag} pointsInElem", group.Get_pointsInElem(group.coord, 0))
        print(f"{tag} length/area/volume", group.length, group.area, group.volume)
        return

    for matrixType in matrix_types(group):
        mt = f"{tag} {matrixType}"
        digest(f"{mt} weight_pg", group.Get_weight_pg(matrixType))
        digest(f"{mt} N_pg", group.Get_N_pg(matrixType))
        for repeat in [1, 2, 3]:
            digest(f"{mt} N_pg_rep {repeat}", group.Get_N_pg_rep(matrixType, repeat))
        digest(f"{mt} dN_pg", group.Get_dN_pg(matrixType))
        digest(f"{mt} ddN_pg", group.Get_ddN_pg(matrixType))
        digest(f"{mt} dddN_pg", group.Get_dddN_pg(matrixType))
        digest(f"{mt} ddddN_pg", group.Get_ddddN_pg(matrixType))
        digest(f"{mt} gaussCoord", group.Get_GaussCoordinates_e_pg(matrixType))
        digest(
            f"{mt} gaussCoord elems",
            group.Get_GaussCoordinates_e_pg(matrixType, np.array([0, group.Ne - 1])),
        )
        digest(
            f"{mt} gaussCoord disp",
            group.Get_GaussCoordinates_e_pg(matrixType, displacementMatrix=displacement),
        )
        raised(
            f"{mt} gaussCoord bad disp",
            lambda: group.Get_GaussCoordinates_e_pg(
                matrixType, displacementMatrix=displacement[:, :2]
            ),
        )
        digest(f"{mt} F_e_pg", group.Get_F_e_pg(matrixType))
        digest(f"{mt} jacobian", group.Get_jacobian_e_pg(matrixType))
        digest(f"{mt} jacobian signed", group.Get_jacobian_e_pg(matrixType, False))
        digest(f"{mt} wJ", group.Get_weightedJacobian_e_pg(matrixType))
        digest(f"{mt} invF", group.Get_invF_e_pg(matrixType))
        digest(f"{mt} dN_e_pg", group.Get_dN_e_pg(matrixType))
        digest(f"{mt} ddN_e_pg", group.Get_ddN_e_pg(matrixType))
        digest(f"{mt} DiffusePart", group.Get_DiffusePart_e_pg(matrixType))
        for dof_n in [1, 2, 3]:
            digest(f"{mt} ReactionPart {dof_n}", group.Get_ReactionPart_e_pg(matrixType, dof_n))
            digest(f"{mt} SourcePart {dof_n}", group.Get_SourcePart_e_pg(matrixType, dof_n))
        print(f"{mt} types", type(group.Get_dN_e_pg(matrixType)).__name__,
              type(group.Get_weightedJacobian_e_pg(matrixType)).__name__,
              type(group.Get_GaussCoordinates_e_pg(matrixType)).__name__)

        if group.dim in [2, 3]:
            B_e_pg = group.Get_B_e_pg(matrixType)
            digest(f"{mt} B_e_pg", B_e_pg)
            digest(f"{mt} leftDispPart", group.Get_leftDispPart_e_pg(matrixType))
            print(f"{mt} B type/writeable", type(B_e_pg).__name__, B_e_pg.flags.writeable)

        if group.dim in [1, 2]:
            digest(f"{mt} normals", group.Get_normals_e_pg(matrixType))
            digest(f"{mt} normals disp", group.Get_normals_e_pg(matrixType, displacement))
            digest(
                f"{mt} normals raw",
                group.Get_normals_e_pg(matrixType, displacement, normalize=False),
            )
            raised(
                f"{mt} normals bad disp",
                lambda: group.Get_normals_e_pg(matrixType, displacement[:-1]),
            )

        # integration
        digest(f"{mt} Integrate 1", group.Integrate_e(matrixType=matrixType))
        digest(
            f"{mt} Integrate f",
            group.Integrate_e(lambda x, y, z: x**2 + 2 * y - x * z + 0.5, matrixType),
        )
        digest(f"{mt} Integrate cst", group.Integrate_e(lambda x, y, z: 2.5, matrixType))

        # gradient
        for dof_n in range(1, 4):
            u = np.cos(0.3 * np.arange(Ncoords * dof_n, dtype=float)) * 1e-2
            label = f"{mt} Gradient dof={dof_n}"
            try:
                grad = group.Get_Gradient_e_pg(u, matrixType)
            except Exception as err:  # noqa: BLE001
                print(f"{label:<58s} raises {type(err).__name__}")
                continue
            digest(label, grad)
            print(f"{label} type", type(grad).__name__)
        raised(f"{mt} Gradient bad size", lambda: group.Get_Gradient_e_pg(np.ones(Ncoords * 3 + 1)))
        raised(f"{mt} Gradient list", lambda: group.Get_Gradient_e_pg([0.0] * Ncoords))

    digest(f"{tag} center", group.center)
    print(f"{tag} length/area/volume",
          None if group.length is None else f"{group.length:.11e}",
          None if group.area is None else f"{group.area:.11e}",
          None if group.volume is None else f"{group.volume:.11e}")
    digest(f"{tag} length_e", group.length_e)
    digest(f"{tag} area_e", group.area_e)
    digest(f"{tag} volume_e", group.volume_e)

    # point location helpers
    coord = group.coord
    connect = group._global_to_local_nodes[group.connect]
    bary_e = coord[connect].mean(axis=1)
    extra = bary_e[: min(6, group.Ne)] + 1e-3
    points = np.concatenate([coord, bary_e, extra, coord.mean(0)[None] + 50.0])
    for elem in sorted({0, group.Ne // 2, group.Ne - 1}):
        digest(f"{tag} pointsInElem {elem}", group.Get_pointsInElem(points, elem))
    digest(f"{tag} pointsInElem empty", group.Get_pointsInElem(np.zeros((0, 3)), 0))
    digest(f"{tag} nearby nodes", group._Get_nearby_nodes(bary_e))
    digest(f"{tag} nearby elements", group._Get_nearby_elements(bary_e[:5]))

    inside = np.concatenate([bary_e, coord[connect[:, 0]] * 0.3 + 0.7 * bary_e])
    for need in [False, True]:
        nodes, elements, connect_e_n, xi = group.Get_Mapping(inside, needCoordinates=need)
        digest(f"{tag} mapping nodes need={need}", nodes)
        digest(f"{tag} mapping elements need={need}", elements)
        digest(f"{tag} mapping connect need={need}", connect_e_n)
        digest(f"{tag} mapping xi need={need}", xi)
    nodes, elements, connect_e_n, xi = group.Get_Mapping(
        inside, np.arange(min(4, group.Ne)), needCoordinates=True
    )
    digest(f"{tag} mapping subset nodes", nodes)
    digest(f"{tag} mapping subset xi", np.where(np.isfinite(xi), xi, 0.0))

    # the cached matrices follow the coordinates
    matrixType = MatrixType.mass
    before = np.asarray(group.Get_jacobian_e_pg(matrixType)).copy()
    newCoord = np.zeros((Ncoords, 3))
    newCoord[group.nodes] = group.coord * np.array([1.5, 0.5, 2.0])
    saved = np.zeros((Ncoords, 3))
    saved[group.nodes] = group.coord
    group.coord = newCoord
    digest(f"{tag} jacobian after coord change", group.Get_jacobian_e_pg(matrixType))
    digest(f"{tag} gaussCoord after coord change", group.Get_GaussCoordinates_e_pg(matrixType))
    digest(f"{tag} Integrate after coord change", group.Integrate_e(lambda x, y, z: x + 1, matrixType))
    group.coord = saved
    assert np.allclose(before, np.asarray(group.Get_jacobian_e_pg(matrixType)), rtol=1e-13)


def check_empty_group() -> None:
    for elemType in [ElemType.TRI3, ElemType.HEXA8, ElemType.SEG3]:
        nPe = GroupElemFactory.DICT_ELEMTYPE[elemType][1]
        group = GroupElemFactory.Create(
            elemType, np.zeros((0, nPe), dtype=int), np.zeros((4, 3))
        )
        for dof_n in [1, 3]:
            digest(f"empty {elemType} assembly_e {dof_n}", group.Get_assembly_e(dof_n))
            digest(f"empty {elemType} rows_e {dof_n}", group.Get_rows_e(dof_n))
            digest(f"empty {elemType} columns_e {dof_n}", group.Get_columns_e(dof_n))
        digest(f"empty {elemType} gaussCoord", group.Get_GaussCoordinates_e_pg(MatrixType.mass))


if __name__ == "__main__":
    check_gauss()
    check_empty_group()
    rng = np.random.default_rng(0)
    for name, mesh in build_meshes():
        for group in mesh.dict_groupElem.values():
            check_group(name, group, rng)
