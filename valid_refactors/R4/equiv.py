"""Behaviour digest for EasyFEA/FEM/_linalg.py, _field.py, _forms.py and Operators/{Bilinear,Linear}.py.

Run as: cd WORKTREE && PYTHONPATH=WORKTREE /venv/bin/python equiv.py
Prints one line per probe: type, shape, dtype, norm and a weighted sum (12 significant digits).
"""

import warnings

import numpy as np

warnings.filterwarnings("ignore")

from EasyFEA import ElemType, MatrixType, Models, Simulations, Mesher  # noqa: E402
from EasyFEA.Geoms import Domain, Point, Line  # noqa: E402
from EasyFEA.FEM import (  # noqa: E402
    FeArray,
    Field,
    BiLinearForm,
    LinearForm,
    Sym_Grad,
    Trace,
    Det,
    Inv,
    Transpose,
    TensorProd,
    Norm,
    Operators,
)
from EasyFEA.FEM._linalg import Normalize  # noqa: E402


_LINES: list[str] = []
_builtin_print = print


def print(*args, **kwargs):  # noqa: A001 - every printed line also feeds the final digest
    _LINES.append(" ".join(str(a) for a in args))
    _builtin_print(*args, **kwargs)


def fmt(x: float) -> str:
    x = float(x)
    if abs(x) < 1e-300:
        x = 0.0
    return f"{x:.11e}"


def digest(label: str, value) -> None:
    if isinstance(value, (tuple, list)):
        print(f"{label}: {type(value).__name__} of {len(value)}")
        for i, item in enumerate(value):
            digest(f"{label}[{i}]", item)
        return
    if hasattr(value, "toarray"):
        print(f"{label}: sparse {type(value).__name__} nnz={value.nnz}")
        value = value.toarray()
    if isinstance(value, np.ndarray):
        kind = type(value).__name__
        arr = np.asarray(value)
        if arr.dtype == bool:
            arr = arr.astype(int)
        if arr.dtype.kind in "iufc":
            flat = np.asarray(arr, dtype=complex if arr.dtype.kind == "c" else float)
            flat = flat.ravel()
            weights = np.cos(np.arange(flat.size) * 0.7 + 0.3)
            norm = np.linalg.norm(flat) if flat.size else 0.0
            wsum = np.abs(np.sum(flat * weights)) if flat.size else 0.0
            print(
                f"{label}: {kind} {arr.shape} {value.dtype} "
                f"norm={fmt(norm)} wsum={fmt(wsum)}"
            )
        else:
            print(f"{label}: {kind} {arr.shape} {value.dtype}")
    else:
        if isinstance(value, (float, np.floating)):
            print(f"{label}: {type(value).__name__} {fmt(value)}")
        else:
            print(f"{label}: {type(value).__name__} {value!r}")


def raises(label: str, func) -> None:
    try:
        res = func()
    except Exception as err:  # noqa: BLE001
        print(f"{label}: raises {type(err).__name__}: {err}")
    else:
        digest(label, res)


# ----------------------------------------------------------------------------------------
# FeArray
# ----------------------------------------------------------------------------------------


def probe_fearray():
    rng = np.random.default_rng(0)
    Ne, nPg = 5, 3
    s = FeArray.asfearray(rng.random((Ne, nPg)) + 0.5)
    v = FeArray.asfearray(rng.random((Ne, nPg, 3)))
    w = FeArray.asfearray(rng.random((Ne, nPg, 3)))
    m = FeArray.asfearray(rng.random((Ne, nPg, 3, 3)) + np.eye(3))
    n = FeArray.asfearray(rng.random((Ne, nPg, 3, 3)))
    t3 = FeArray.asfearray(rng.random((Ne, nPg, 2, 3, 4)))
    t4 = FeArray.asfearray(rng.random((Ne, nPg, 3, 3, 3, 3)))
    sq = FeArray.asfearray(rng.random((3, 3)))  # (Ne, nPg) == tensor dims
    c1 = rng.random(3)
    c2 = rng.random((3, 3))
    c4 = rng.random((3, 3, 3, 3))

    raises("new", lambda: FeArray(np.arange(6.0).reshape(2, 3)))
    raises("new bcast", lambda: FeArray(c2, broadcastFeArrays=True))
    raises("new bcast scalar", lambda: FeArray(2.0, broadcastFeArrays=True))
    raises("new 1d", lambda: FeArray(c1))
    raises("asfearray 1d", lambda: FeArray.asfearray(c1))
    raises("asfearray list", lambda: FeArray.asfearray([1.0, 2.0]))
    raises("asfearray list2", lambda: FeArray.asfearray([[1.0, 2.0], [3.0, 4.0]]))
    raises("asfearray bcast", lambda: FeArray.asfearray(c1, broadcastFeArrays=True))
    raises("_asfearrays", lambda: FeArray._asfearrays(np.asarray(s), np.asarray(v)))
    raises("_asfearrays b", lambda: FeArray._asfearrays(c1, c2, broadcastFeArrays=True))

    # shapes and ranks
    for name, arr in [("s", s), ("v", v), ("m", m), ("t3", t3), ("t4", t4)]:
        print(f"rank {name}: _shape={arr._shape} _ndim={arr._ndim}")
    raises("fe[0]._ndim", lambda: v[0, 0]._ndim)
    raises("fe[0]._shape", lambda: v[0, 0]._shape)
    raises("fe[0].T", lambda: s[0].T)
    raises("fe[0]", lambda: v[0])
    raises("fe[0,0]", lambda: v[0, 0])

    # arithmetic / ufuncs
    raises("s*s", lambda: s * s)
    raises("s*v", lambda: s * v)
    raises("v*s", lambda: v * s)
    raises("s*m", lambda: s * m)
    raises("m/s", lambda: m / s)
    raises("s+t4", lambda: s + t4)
    raises("v+w", lambda: v + w)
    raises("v-c1", lambda: v - c1)
    raises("c1-v", lambda: c1 - v)
    raises("c2*m", lambda: c2 * m)
    raises("m*c2", lambda: m * c2)
    raises("2*v", lambda: 2 * v)
    raises("v**2", lambda: v**2)
    raises("-v", lambda: -v)
    raises("abs", lambda: abs(v - 0.5))
    raises("sq*v(3)", lambda: sq * FeArray.asfearray(rng.random((3, 3, 3))))
    raises("sq*c2", lambda: sq * c2)
    raises("v>0.5", lambda: v > 0.5)
    raises("v==w", lambda: v == w)
    raises("exp", lambda: np.exp(v))
    raises("sqrt", lambda: np.sqrt(m))
    raises("maximum", lambda: np.maximum(v, 0.5))
    raises("maximum s", lambda: np.maximum(s, v))
    raises("divmod", lambda: np.divmod(v, 0.3))
    raises("modf", lambda: np.modf(m))
    out = np.zeros((Ne, nPg, 3))
    raises("add out", lambda: np.add(v, w, out=out))
    raises("add out arr", lambda: out)
    outfe = FeArray.zeros(Ne, nPg, 3)
    raises("mul out fe", lambda: np.multiply(v, s[..., None], out=outfe))
    raises("where kw", lambda: np.add(v, w, where=np.asarray(v) > 0.5, out=np.ones((Ne, nPg, 3))))
    raises("where kw fe", lambda: np.add(v, 1.0, where=v > 0.5, out=FeArray.ones(Ne, nPg, 3)))
    raises("add.reduce", lambda: np.add.reduce(v, axis=-1))
    raises("add.reduce0", lambda: np.add.reduce(v, axis=0))
    raises("add.reduce1", lambda: np.add.reduce(v, axis=1))
    raises("add.accumulate", lambda: np.add.accumulate(v, axis=-1))
    raises("multiply.outer", lambda: np.multiply.outer(c1, v))
    raises("add.at", lambda: (lambda a: (np.add.at(a, (0, 0), 1.0), a)[1])(v.copy()))
    raises("matmul ufunc", lambda: np.matmul(m, n))
    raises("matmul ufunc c", lambda: np.matmul(m, c2))
    raises("matmul ufunc vec", lambda: np.matmul(m, c1))
    vi = v.copy()
    vi += w
    vi *= s[..., None]
    vi -= c1
    raises("inplace", lambda: vi)
    raises("dtype", lambda: (v * 3).astype(int) + 1)
    raises("float16", lambda: v.astype(np.float32) * v)
    raises("bad broadcast", lambda: v * FeArray.asfearray(rng.random((Ne, nPg, 4))))
    raises("bad fe broadcast", lambda: v * FeArray.asfearray(rng.random((4, nPg, 3))))
    raises("1x1 fe", lambda: FeArray.asfearray(rng.random((1, 1, 3))) * v)
    raises("1xnPg fe", lambda: FeArray.asfearray(rng.random((1, nPg, 1))) * s)

    # np functions
    raises("einsum", lambda: np.einsum("...ij,...j->...i", m, v))
    raises("einsum opt", lambda: np.einsum("...ij,...jk,...k->...i", m, n, v, optimize=True))
    raises("einsum sum e", lambda: np.einsum("epi->pi", v))
    raises("einsum scalar", lambda: np.einsum("epi->", v))
    raises("where", lambda: np.where(v > 0.5, v, w))
    raises("where c", lambda: np.where(np.asarray(v) > 0.5, 1.0, w))
    raises("solve", lambda: np.linalg.solve(m, v[..., None]))
    raises("inv", lambda: np.linalg.inv(m))
    raises("det", lambda: np.linalg.det(m))
    raises("eigh", lambda: np.linalg.eigh(m + Transpose(m)))
    raises("eigvalsh", lambda: np.linalg.eigvalsh(m + m.T))
    raises("norm", lambda: np.linalg.norm(v, axis=-1))
    raises("norm all", lambda: np.linalg.norm(v))
    raises("concatenate -1", lambda: np.concatenate([v, w], axis=-1))
    raises("concatenate 0", lambda: np.concatenate([v, w], axis=0))
    raises("concatenate 1", lambda: np.concatenate((v, w), axis=1))
    raises("stack -1", lambda: np.stack([v, w], axis=-1))
    raises("stack 0", lambda: np.stack([v, w], axis=0))
    raises("zeros_like", lambda: np.zeros_like(v))
    raises("ones_like", lambda: np.ones_like(s))
    raises("copy", lambda: np.copy(v))
    raises("swapaxes", lambda: np.swapaxes(m, -1, -2))
    raises("swapaxes01", lambda: np.swapaxes(v, 0, 1))
    raises("transpose", lambda: np.transpose(v, (1, 0, 2)))
    raises("moveaxis", lambda: np.moveaxis(m, -1, 2))
    raises("clip", lambda: np.clip(v, 0.2, 0.8))
    raises("cross", lambda: np.cross(v, w))
    raises("trace", lambda: np.trace(m, axis1=-2, axis2=-1))
    raises("tile", lambda: np.tile(v, (1, 1, 2)))
    raises("repeat", lambda: np.repeat(v, 2, axis=-1))
    raises("take", lambda: np.take(v, [0, 2], axis=-1))
    raises("expand_dims", lambda: np.expand_dims(v, -1))
    raises("squeeze", lambda: np.squeeze(v[..., None], axis=-1))
    raises("broadcast_to", lambda: np.broadcast_to(s[..., None], (Ne, nPg, 3)))
    raises("array_equal", lambda: np.array_equal(v, v))
    raises("allclose", lambda: np.allclose(v, v + 1e-15))
    raises("isclose", lambda: np.isclose(v, w))
    raises("tensordot", lambda: np.tensordot(v, c2, axes=1))
    raises("dot c", lambda: np.dot(v, c2))
    raises("outer", lambda: np.outer(c1, c1) * m)
    raises("asarray", lambda: np.asarray(v))
    raises("array", lambda: np.array(v))
    raises("np.reshape keep", lambda: np.reshape(m, (Ne, nPg, 9)))
    raises("np.reshape lose", lambda: np.reshape(m, (Ne * nPg, 3, 3)))
    raises("np.ravel", lambda: np.ravel(v))
    raises("cumsum", lambda: np.cumsum(v, axis=-1))
    raises("sort", lambda: np.sort(v, axis=-1))
    raises("argsort", lambda: np.argsort(v, axis=-1))
    raises("diagonal", lambda: np.diagonal(m, axis1=-2, axis2=-1))
    raises("linspace like", lambda: np.full_like(v, 2.5))
    raises("kw only fe", lambda: np.full((Ne, nPg), fill_value=s))

    # reductions through numpy and through methods
    for name in (
        "sum",
        "prod",
        "mean",
        "std",
        "var",
        "max",
        "min",
        "argmax",
        "argmin",
        "all",
        "any",
    ):
        func = getattr(np, name)
        for axis in (None, 0, 1, 2, -1, (2, 3), (0, 1), (1, 2), -3, -2):
            kw = {} if axis is None else {"axis": axis}
            raises(f"np.{name}(m, {axis})", lambda: func(m, **kw))
            raises(f"m.{name}({axis})", lambda: getattr(m, name)(**kw))
        raises(f"m.{name}(pos -1)", lambda: getattr(m, name)(-1))
        raises(f"np.{name}(m, pos 2)", lambda: func(m, 2))
        raises(f"np.{name}(s, -1)", lambda: func(s, -1))
        raises(f"s.{name}(1)", lambda: getattr(s, name)(1))
    raises("np.median", lambda: np.median(m, axis=-1))
    raises("np.median0", lambda: np.median(m, axis=0))
    raises("np.average", lambda: np.average(m, axis=2))
    raises("np.average w", lambda: np.average(m, axis=-1, weights=c1))
    raises("np.amax", lambda: np.amax(m, axis=(2, 3)))
    raises("np.amin", lambda: np.amin(m, axis=1))
    raises("sum keepdims", lambda: m.sum(axis=-1, keepdims=True))
    raises("sum keepdims 0", lambda: m.sum(axis=0, keepdims=True))
    raises("mean keepdims", lambda: np.mean(m, axis=(0, 1), keepdims=True))
    raises("ravel", lambda: m.ravel())
    raises("ravel F", lambda: v.ravel("F"))
    raises("flatten", lambda: v.flatten())
    raises("reshape keep", lambda: m.reshape(Ne, nPg, 9))
    raises("reshape keep tuple", lambda: m.reshape((Ne, nPg, -1)))
    raises("reshape lose", lambda: m.reshape(Ne * nPg, 3, 3))
    raises("reshape -1", lambda: m.reshape(-1))
    raises("integrate s", lambda: s.integrate())
    raises("integrate m", lambda: m.integrate())
    raises("integrate s*m", lambda: (s * m).integrate())

    # transposes
    for name, arr in [("s", s), ("v", v), ("m", m), ("t3", t3), ("t4", t4)]:
        raises(f"{name}.T", lambda: arr.T)
    raises("Transpose fe", lambda: Transpose(m))
    raises("Transpose nd", lambda: Transpose(c2))
    raises("Transpose t4", lambda: Transpose(t4))

    # products
    raises("v@w", lambda: v @ w)
    raises("m@n", lambda: m @ n)
    raises("v@m", lambda: v @ m)
    raises("m@v", lambda: m @ v)
    raises("m@c2", lambda: m @ c2)
    raises("m@c1", lambda: m @ c1)
    raises("v@c2", lambda: v @ c2)
    raises("v@c1", lambda: v @ c1)
    raises("t4@m", lambda: t4 @ m)
    raises("m@t4", lambda: m @ t4)
    raises("t4@v", lambda: t4 @ v)
    raises("t4@t4", lambda: t4 @ t4)
    raises("c2@m", lambda: c2 @ m)
    raises("c1@m", lambda: c1 @ m)
    raises("c2@v", lambda: c2 @ v)
    raises("c1@v", lambda: c1 @ v)
    raises("c4@m", lambda: c4 @ m)
    raises("c2@t4", lambda: c2 @ t4)
    raises("list@v", lambda: [[1.0, 2.0, 3.0], [0.0, 1.0, 0.5]] @ v)
    raises("s@v", lambda: s @ v)
    raises("v@s", lambda: v @ s)
    raises("c1@s", lambda: c1 @ s)
    raises("2@v", lambda: np.float64(2.0).__rmatmul__(v) if False else v.__rmatmul__(2.0))
    raises("v@list", lambda: v @ [1.0, 2.0, 3.0])
    raises("v@2", lambda: v @ 2.0)
    raises("t3@v", lambda: t3 @ v)
    raises("v.dot(w)", lambda: v.dot(w))
    raises("m.dot(v)", lambda: m.dot(v))
    raises("v.dot(m)", lambda: v.dot(m))
    raises("m.dot(n)", lambda: m.dot(n))
    raises("m.dot(c2)", lambda: m.dot(c2))
    raises("t4.dot(m)", lambda: t4.dot(m))
    raises("m.dot(t4)", lambda: m.dot(t4))
    raises("v.dot(t4)", lambda: v.dot(t4))
    raises("s.dot(v)", lambda: s.dot(v))
    raises("v.dot(s)", lambda: v.dot(s))
    raises("v.dot(list)", lambda: v.dot([1, 2, 3]))
    raises("v.dot(0d)", lambda: v.dot(np.asarray(2.0)))
    raises("t3.dot", lambda: t3.dot(v))
    raises("m.ddot(n)", lambda: m.ddot(n))
    raises("t4.ddot(m)", lambda: t4.ddot(m))
    raises("m.ddot(t4)", lambda: m.ddot(t4))
    raises("t4.ddot(t4)", lambda: t4.ddot(t4))
    raises("m.ddot(c2)", lambda: m.ddot(c2))
    raises("t4.ddot(c4)", lambda: t4.ddot(c4))
    raises("v.ddot(m)", lambda: v.ddot(m))
    raises("m.ddot(v)", lambda: m.ddot(v))
    raises("m.ddot(list)", lambda: m.ddot([[1, 2], [3, 4]]))
    raises("m.ddot(c1)", lambda: m.ddot(c1))
    print("subscripts:", FeArray._dot_subscript(2, 4), FeArray._ddot_subscript(4, 2))

    # _align
    aligned = FeArray._align((s, v, m, c1, 2.0))
    raises("_align mixed", lambda: aligned)
    same = (v, w)
    print("_align same is identity:", FeArray._align(same) is same)
    raises("_align plain first", lambda: FeArray._align((c2, s)))

    # indexing helpers
    big = FeArray.zeros(Ne, nPg, 4, 5)
    idx = big._get_idx(np.array([0, 2]), np.array([1, 3, 4]))
    print("_get_idx shapes:", [i.shape for i in idx], [int(i.sum()) for i in idx])
    big._assemble(np.array([0, 2]), np.array([1, 3, 4]), value=rng.random((Ne, nPg, 2, 3)))
    raises("_assemble", lambda: big)
    big2 = FeArray.zeros((Ne, nPg, 6), dtype=int)
    big2._assemble(np.array([5, 1]), value=np.arange(Ne * nPg * 2).reshape(Ne, nPg, 2))
    raises("_assemble int", lambda: big2)
    idx0 = s._get_idx()
    print("_get_idx none:", [i.shape for i in idx0])

    # constructors
    raises("zeros", lambda: FeArray.zeros(2, 3, 4))
    raises("zeros tuple", lambda: FeArray.zeros((2, 3, 4), dtype=int))
    raises("zeros list", lambda: FeArray.zeros([2, 3]))
    raises("ones", lambda: FeArray.ones(2, 3, 4, dtype=complex))
    raises("ones tuple", lambda: FeArray.ones((2, 3)))
    raises("zeros 1d", lambda: FeArray.zeros(3))
    raises("ones 1d", lambda: FeArray.ones((3,)))

    # broadcast
    for name, val in [
        ("int", 3),
        ("float", 2.5),
        ("npfloat", np.float64(1.5)),
        ("npint", np.int64(4)),
        ("0d", np.asarray(2.0)),
        ("Ne", rng.random(Ne)),
        ("nPg", rng.random(nPg)),
        ("NenPg", rng.random((Ne, nPg))),
        ("NenPgK", rng.random((Ne, nPg, 2))),
        ("fe", s),
        ("other1d", rng.random(4)),
        ("2d", rng.random((2, 2))),
        ("list", [1.0, 2.0, 3.0]),
        ("bool", True),
    ]:
        raises(f"broadcast {name}", lambda: FeArray.broadcast(val, Ne, nPg))
    raises("broadcast NeNe", lambda: FeArray.broadcast(np.arange(3.0), 3, 3))
    for name, val in [
        ("tensor", c2),
        ("Ne tensor", rng.random((Ne, 3, 3))),
        ("NenPg tensor", rng.random((Ne, nPg, 3, 3))),
        ("fe tensor", m),
    ]:
        raises(f"broadcast2 {name}", lambda: FeArray.broadcast(val, Ne, nPg, tensor_ndim=2))
    raises("broadcast1 vec", lambda: FeArray.broadcast(c1, Ne, nPg, tensor_ndim=1))
    raises("broadcast1 Ne vec", lambda: FeArray.broadcast(rng.random((Ne, 2)), Ne, nPg, tensor_ndim=1))
    raises("broadcast2 scalar", lambda: FeArray.broadcast(2, Ne, nPg, tensor_ndim=2))
    raises("broadcast2 bad", lambda: FeArray.broadcast(rng.random((nPg, 3, 3)), Ne, nPg, 2))
    raises("broadcast2 bad2", lambda: FeArray.broadcast(rng.random((Ne, 2, 3, 3)), Ne, nPg, 2))
    res = FeArray.broadcast(rng.random(Ne), Ne, nPg)
    print("broadcast writeable:", res.flags.writeable, res.strides[1])

    # module functions
    for dim in (1, 2, 3, 4):
        a = FeArray.asfearray(rng.random((Ne, nPg, dim, dim)) + 2 * np.eye(dim))
        raises(f"Trace {dim}", lambda: Trace(a))
        raises(f"Det {dim}", lambda: Det(a))
        raises(f"Inv {dim}", lambda: Inv(a))
        raises(f"Trace nd {dim}", lambda: Trace(np.asarray(a)))
        raises(f"Det nd {dim}", lambda: Det(np.asarray(a)[0, 0]))
        raises(f"Inv nd {dim}", lambda: Inv(np.asarray(a)[0]))
        raises(f"Inv@a {dim}", lambda: Inv(a) @ a if dim > 1 else Inv(a) * a)
    raises("Inv int", lambda: Inv(np.array([[2, 1], [1, 3]])))
    raises("Inv int3", lambda: Inv(np.array([[2, 1, 0], [1, 3, 1], [0, 1, 4]])))
    raises("Det int", lambda: Det(np.array([[2, 1], [1, 3]])))
    raises("Trace bad", lambda: Trace(v))
    raises("Det bad", lambda: Det(np.ones((2, 3))))
    raises("Inv list", lambda: Inv([[1.0, 0.0], [0.0, 1.0]]))
    raises("Transpose 1d", lambda: Transpose(c1))
    raises("Det empty", lambda: Det(np.ones((2, 0, 0))))

    raises("TensorProd v", lambda: TensorProd(v, w))
    raises("TensorProd m", lambda: TensorProd(m, n))
    raises("TensorProd m sym", lambda: TensorProd(m, n, symmetric=True))
    raises("TensorProd nd v", lambda: TensorProd(c1, c1))
    raises("TensorProd nd m", lambda: TensorProd(c2, c2.T, symmetric=True))
    raises("TensorProd nd m ndim", lambda: TensorProd(rng.random((4, 3, 3)), rng.random((4, 3, 3)), ndim=2))
    raises("TensorProd ndim1", lambda: TensorProd(v, w, ndim=1))
    raises("TensorProd rank", lambda: TensorProd(v, m))
    raises("TensorProd s", lambda: TensorProd(s, s))
    raises("TensorProd list", lambda: TensorProd([1.0], c1))
    raises("TensorProd size", lambda: TensorProd(c1, rng.random(4)))
    raises("TensorProd fe/nd", lambda: TensorProd(v, c1))
    raises("TensorProd nd/fe", lambda: TensorProd(c1, v))
    raises("TensorProd t3", lambda: TensorProd(t3, t3))

    raises("Norm", lambda: Norm(v, axis=-1))
    raises("Norm all", lambda: Norm(np.asarray(v)))
    raises("Norm mat", lambda: Norm(m, axis=(-2, -1)))
    raises("Norm fe all", lambda: Norm(v))
    vz = v.copy()
    vz[0, 0] = 0.0
    raises("Normalize", lambda: Normalize(vz))
    raises("Normalize nd", lambda: Normalize(np.asarray(vz), axis=0))
    raises("Normalize list", lambda: Normalize([[3.0, 4.0], [0.0, 0.0]]))
    raises("Normalize ax2", lambda: Normalize(m, axis=2))


# ----------------------------------------------------------------------------------------
# Field / forms
# ----------------------------------------------------------------------------------------


def meshes():
    yield "TRI3", Domain((0, 0), (1, 1), 0.5).Mesh_2D([], ElemType.TRI3, isOrganised=True)
    yield "TRI6", Domain((0, 0), (1, 1), 0.5).Mesh_2D([], ElemType.TRI6)
    yield "QUAD4", Domain((0, 0), (1, 2), 0.5).Mesh_2D([], ElemType.QUAD4, isOrganised=True)
    yield "TETRA4", Domain((0, 0), (1, 1), 1.0).Mesh_Extrude(
        [], [0, 0, 1], [1], ElemType.TETRA4, isOrganised=True
    )
    yield "HEXA8", Domain((0, 0), (1, 1), 0.5).Mesh_Extrude(
        [], [0, 0, 1], [2], ElemType.HEXA8, isOrganised=True
    )


def probe_field(name, mesh):
    groupElem = mesh.groupElem
    dim = mesh.dim
    rng = np.random.default_rng(1)

    raises(f"{name} Field dof_n=0", lambda: Field(groupElem, 0))
    raises(f"{name} Field dof_n big", lambda: Field(groupElem, groupElem.inDim + 1))
    raises(f"{name} Field not groupElem", lambda: Field(mesh, 1))

    for dof_n, matrixType in [(1, MatrixType.mass), (1, MatrixType.rigi), (dim, MatrixType.rigi)]:
        tag = f"{name} dof_n={dof_n} {matrixType}"
        field = Field(groupElem, dof_n, matrixType)
        print(f"{tag}: dof_n={field.dof_n} matrixType={field.matrixType}", field.groupElem is groupElem)
        raises(f"{tag} coords", lambda: field.Get_coords())
        raises(f"{tag} coords cat", lambda: field.Get_coords(concatenate=True))
        raises(f"{tag} dofsValues", lambda: field._Get_dofsValues())
        raises(f"{tag} set dofs bad", lambda: field._Set_dofsValues(np.zeros(3)))
        raises(f"{tag} set node bad", lambda: field._Set_current_active_node(groupElem.nPe))
        raises(f"{tag} set dof bad", lambda: field._Set_current_active_dof(dof_n))
        last = groupElem.nPe - 1
        field._Set_current_active_node(last)
        field._Set_current_active_dof(dof_n - 1)
        print(f"{tag} active:", field._Get_current_active_node(), field._Get_current_active_dof())
        raises(f"{tag} call", lambda: field())
        raises(f"{tag} grad", lambda: field.grad)
        if dof_n > 1:
            raises(f"{tag} symgrad", lambda: Sym_Grad(field))
            raises(f"{tag} trace", lambda: Trace(field.grad))
        x, y, z = field.Get_coords()
        raises(f"{tag} mul", lambda: field * x)
        raises(f"{tag} rmul", lambda: 2.0 * field)
        raises(f"{tag} rmul fe", lambda: x * field)
        raises(f"{tag} add", lambda: field + 1.0)
        raises(f"{tag} radd", lambda: y + field)
        raises(f"{tag} sub", lambda: field - x)
        raises(f"{tag} rsub", lambda: 1.0 - field)
        raises(f"{tag} div", lambda: field / (1 + x))
        raises(f"{tag} rdiv", lambda: 1.0 / (field + 2.0))
        raises(f"{tag} dot", lambda: field.dot(field))
        raises(f"{tag} matmul", lambda: field @ field)
        raises(f"{tag} rmatmul", lambda: np.array([2.0]) @ field)
        raises(f"{tag} fe.dot(field)", lambda: field().dot(field))
        raises(f"{tag} fe@field", lambda: field() @ field)
        raises(f"{tag} fe*field", lambda: x * field)
        raises(f"{tag} grad.dot", lambda: field.grad.dot(field.grad) if dof_n == 1 else field.grad.ddot(field.grad))
        if dof_n > 1:
            raises(f"{tag} ddot field", lambda: field.grad.ddot(Sym_Grad(field)))
            raises(f"{tag} field.ddot", lambda: field.ddot(field))
        cp = field.copy()
        print(f"{tag} copy:", cp._Get_current_active_node(), cp._Get_current_active_dof(), cp is field, cp.groupElem is groupElem)
        field._Set_current_active_node(0)
        print(f"{tag} copy independent:", cp._Get_current_active_node(), field._Get_current_active_node())

        dofs = rng.random(groupElem.Ncoords * dof_n)
        raises(f"{tag} Interpolate", lambda: field.Interpolate(dofs))
        raises(f"{tag} Interpolate 2col", lambda: field.Interpolate(rng.random((groupElem.Ncoords, 2))))
        raises(f"{tag} Interpolate bad", lambda: field.Interpolate(np.zeros(groupElem.Ncoords + 1)))

        if dof_n == 1:
            func = lambda u: u.grad  # noqa: E731
        else:
            func = lambda u: Sym_Grad(u)  # noqa: E731
        raises(f"{tag} Evaluate_e", lambda: field.Evaluate_e(func, dofs))
        raises(f"{tag} Evaluate_e list", lambda: field.Evaluate_e(func, list(dofs), returnMeanValues=False))
        raises(f"{tag} Evaluate_e 2d", lambda: field.Evaluate_e(func, dofs.reshape(-1, dof_n)))
        raises(f"{tag} dofsValues after", lambda: field._Get_dofsValues())
        print(f"{tag} dofs is float ravel:", field._Get_dofsValues().dtype, field._Get_dofsValues().shape)
        raises(f"{tag} grad after eval", lambda: field.grad)
        raises(f"{tag} Evaluate_e notfe", lambda: field.Evaluate_e(lambda u: np.asarray(u.grad), dofs))
        raises(f"{tag} grad after failed eval", lambda: field.grad)
        field = Field(groupElem, dof_n, matrixType)
        raises(f"{tag} Evaluate_e bad", lambda: field.Evaluate_e(func, dofs[:-1]))
        if dim == mesh.inDim:
            raises(f"{tag} Evaluate_n", lambda: field.Evaluate_n(func, dofs))
            raises(f"{tag} Evaluate_n again", lambda: field.Evaluate_n(lambda u: Trace(u.grad) if dof_n > 1 else u.grad, dofs))
            cp2 = field.copy()
            raises(f"{tag} Evaluate_n copy", lambda: cp2.Evaluate_n(func, dofs))


def probe_forms(name, mesh):
    groupElem = mesh.groupElem
    dim = mesh.dim
    lmbda, mu = 1.3, 0.7

    @BiLinearForm
    def diffusion(u: Field, v: Field):
        return u.grad.dot(v.grad)

    @BiLinearForm
    def mass(u: Field, v: Field):
        x, y, z = u.Get_coords()
        return (1 + x) * u.dot(v)

    @BiLinearForm
    def elastic(u: Field, v: Field):
        Eps = Sym_Grad(u)
        Sig = 2 * mu * Eps + lmbda * Trace(Eps) * np.eye(dim)
        return Sig.ddot(Sym_Grad(v))

    @LinearForm
    def source(v: Field):
        x, y, z = v.Get_coords()
        return (x + 2 * y) * v

    @LinearForm
    def vec_source(v: Field):
        return v.grad[..., 0, 0] + 1.0

    @LinearForm
    def vec_source2(v: Field):
        return v.grad[..., 0, :1] + 1.0

    scalar = Field(groupElem, 1, MatrixType.mass)
    raises(f"{name} diffusion e", lambda: diffusion.Integrate_e(scalar))
    raises(f"{name} diffusion A", lambda: diffusion.Assemble(scalar))
    raises(f"{name} mass e", lambda: mass.Integrate_e(scalar))
    raises(f"{name} mass A", lambda: mass.Assemble(scalar))
    print(f"{name} active after:", scalar._Get_current_active_node(), scalar._Get_current_active_dof())
    raises(f"{name} source e", lambda: source.Integrate_e(scalar))
    raises(f"{name} source A", lambda: source.Assemble(scalar))
    print(f"{name} active after lin:", scalar._Get_current_active_node(), scalar._Get_current_active_dof())
    raises(f"{name} call form", lambda: diffusion(scalar, scalar.copy()))
    raises(f"{name} call lin", lambda: source(scalar))

    vector = Field(groupElem, dim, MatrixType.rigi)
    raises(f"{name} elastic e", lambda: elastic.Integrate_e(vector))
    K = elastic.Assemble(vector)
    raises(f"{name} elastic A", lambda: K)
    raises(f"{name} elastic sym", lambda: abs(K - K.T).max() < 1e-12)
    print(f"{name} active after vec:", vector._Get_current_active_node(), vector._Get_current_active_dof())
    raises(f"{name} vec_source e", lambda: vec_source.Integrate_e(vector))
    raises(f"{name} vec_source A", lambda: vec_source.Assemble(vector))

    raises(f"{name} vec_source2 e", lambda: vec_source2.Integrate_e(vector))
    raises(f"{name} vec_source2 A", lambda: vec_source2.Assemble(vector))
    raises(f"{name} vec_source2 A mass", lambda: vec_source2.Assemble(Field(groupElem, dim)))

    @BiLinearForm
    def bad(u, v):
        return u * v  # (Ne, nPg, 1): cannot be stored in (Ne,)

    if groupElem.Ne > 1:
        raises(f"{name} bad form", lambda: bad.Integrate_e(scalar))


# ----------------------------------------------------------------------------------------
# Operators
# ----------------------------------------------------------------------------------------


def probe_operators(name, mesh):
    groupElem = mesh.groupElem
    dim = mesh.dim
    rng = np.random.default_rng(2)
    Bilinear, Linear = Operators.Bilinear, Operators.Linear
    Ne = groupElem.Ne
    nPg_r = groupElem.Get_gauss(MatrixType.rigi).nPg
    nPg_m = groupElem.Get_gauss(MatrixType.mass).nPg

    raises(f"{name} GradUGradV", lambda: Bilinear.GradUGradV(groupElem))
    raises(f"{name} GradUGradV 2", lambda: Bilinear.GradUGradV(groupElem, 2))
    raises(f"{name} GradUGradV Ne", lambda: Bilinear.GradUGradV(groupElem, rng.random(Ne)))
    raises(f"{name} GradUGradV nPg", lambda: Bilinear.GradUGradV(groupElem, rng.random(nPg_r)))
    raises(f"{name} GradUGradV NenPg", lambda: Bilinear.GradUGradV(groupElem, rng.random((Ne, nPg_r))))
    raises(f"{name} GradUGradV mass", lambda: Bilinear.GradUGradV(groupElem, 1.5, MatrixType.mass))
    raises(f"{name} UV", lambda: Bilinear.UV(groupElem))
    raises(f"{name} UV dim", lambda: Bilinear.UV(groupElem, 2.0, dof_n=dim))
    raises(f"{name} UV Ne", lambda: Bilinear.UV(groupElem, rng.random(Ne), dof_n=dim))
    raises(f"{name} UV NenPg", lambda: Bilinear.UV(groupElem, rng.random((Ne, nPg_m))))
    raises(f"{name} UV rigi", lambda: Bilinear.UV(groupElem, rng.random(nPg_r), 1, MatrixType.rigi))

    material = Models.Elastic.Isotropic(dim=dim, E=210.0, v=0.3, planeStress=False)
    C = material.C
    raises(f"{name} LinElas", lambda: Bilinear.LinearizedElasticity(groupElem, C))
    raises(f"{name} LinElas Ne", lambda: Bilinear.LinearizedElasticity(groupElem, rng.random((Ne, 1, 1)) * C))
    digest(
        f"{name} LinElas NenPg",
        Bilinear.LinearizedElasticity(groupElem, rng.random((Ne, nPg_r, 1, 1)) * C),
    )
    raises(f"{name} LinElas mass", lambda: Bilinear.LinearizedElasticity(groupElem, C, MatrixType.mass))
    raises(f"{name} LinElas bad", lambda: Bilinear.LinearizedElasticity(groupElem, rng.random((Ne + 1, 3, 3))))

    A = rng.random((dim, dim)) + np.eye(dim)
    raises(f"{name} GradU_A_GradV", lambda: Bilinear.GradU_A_GradV(groupElem, A))
    raises(f"{name} GradU_A_GradV coef", lambda: Bilinear.GradU_A_GradV(groupElem, A, rng.random(Ne)))
    digest(
        f"{name} GradU_A_GradV Ne",
        Bilinear.GradU_A_GradV(groupElem, rng.random((Ne, 1, 1)) * A, rng.random((Ne, nPg_r))),
    )
    digest(
        f"{name} GradU_A_GradV NenPg",
        Bilinear.GradU_A_GradV(groupElem, rng.random((Ne, nPg_m, 1, 1)) * A, 3, MatrixType.mass),
    )

    raises(f"{name} V", lambda: Linear.V(groupElem))
    raises(f"{name} V dim", lambda: Linear.V(groupElem, 2.0, dof_n=dim))
    raises(f"{name} V Ne", lambda: Linear.V(groupElem, rng.random(Ne), dof_n=dim))
    raises(f"{name} V NenPg", lambda: Linear.V(groupElem, rng.random((Ne, nPg_m))))
    raises(f"{name} V rigi", lambda: Linear.V(groupElem, rng.random(nPg_r), 1, MatrixType.rigi))
    nstrain = C.shape[0]
    sig = rng.random((Ne, nPg_r, nstrain))
    raises(f"{name} InternalForce", lambda: Linear.InternalForce(groupElem, sig))
    raises(f"{name} InternalForce fe", lambda: Linear.InternalForce(groupElem, FeArray.asfearray(sig)))
    digest(
        f"{name} InternalForce mass",
        Linear.InternalForce(groupElem, rng.random((Ne, nPg_m, nstrain)), MatrixType.mass),
    )
    raises(f"{name} InternalForce bad", lambda: Linear.InternalForce(groupElem, sig[0, 0]))

    if dim == 3:
        for surf in mesh.Get_list_groupElem(2):
            tag = f"{name} {surf.elemType}"
            raises(f"{tag} MassAlongNormal", lambda: Bilinear.MassAlongNormal(surf))
            raises(f"{tag} MassAlongNormal Ne", lambda: Bilinear.MassAlongNormal(surf, rng.random(surf.Ne)))
            raises(f"{tag} MassAlongNormal rigi", lambda: Bilinear.MassAlongNormal(surf, 2.0, MatrixType.rigi))
        raises(f"{name} MassAlongNormal 3D", lambda: Bilinear.MassAlongNormal(groupElem))
    else:
        for line in mesh.Get_list_groupElem(1):
            tag = f"{name} {line.elemType}"
            raises(f"{tag} MassAlongNormal", lambda: Bilinear.MassAlongNormal(line, 1.5))


def probe_beams():
    Bilinear = Operators.Bilinear
    L, nL, b, h = 10.0, 4, 0.1, 0.2
    for beamDim in (1, 2, 3):
        for elemType in (ElemType.SEG2, ElemType.SEG3):
            for timo in (False, True):
                mesher = Mesher()
                section = mesher.Mesh_2D(Domain(Point(-b / 2, -h / 2), Point(b / 2, h / 2)))
                line = Line(Point(), Point(x=L, y=1.0 if beamDim > 1 else 0.0), L / nL)
                beam = Models.Beam.Isotropic(beamDim, line, section, 210000.0, 0.3)
                mesh = mesher.Mesh_Beams([beam], elemType=elemType)
                structure = Models.Beam.BeamStructure([beam])
                simu = Simulations.Beam(mesh, structure, useTimoshenko=timo, verbosity=False)
                groupElem = simu.mesh.groupElem
                tag = f"beam{beamDim} {elemType} timo={timo}"
                Kb = Bilinear.BeamBending(groupElem, structure)
                Ks = Bilinear.BeamShear(groupElem, structure)
                K = Bilinear.BeamStiffness(groupElem, structure)
                raises(f"{tag} bending", lambda: Kb)
                raises(f"{tag} shear", lambda: Ks)
                raises(f"{tag} stiffness", lambda: K)
                raises(f"{tag} K-(Kb+Ks)", lambda: float(np.abs(K - (Kb + Ks)).max() < 1e-9 * np.abs(K).max()))
                raises(f"{tag} mass", lambda: Bilinear.BeamMass(groupElem, structure))
                raises(f"{tag} mass rho", lambda: Bilinear.BeamMass(groupElem, structure, 7800.0))
                digest(
                    f"{tag} mass Ne",
                    Bilinear.BeamMass(groupElem, structure, np.linspace(1, 2, groupElem.Ne)),
                )
                D = structure.Calc_D_e_pg(groupElem, MatrixType.beam)
                raises(f"{tag} D untouched", lambda: D)


if __name__ == "__main__":
    np.set_printoptions(precision=12)
    probe_fearray()
    for name, mesh in meshes():
        probe_field(name, mesh)
        probe_forms(name, mesh)
        probe_operators(name, mesh)
    probe_beams()
    import hashlib

    md5 = hashlib.md5("\n".join(_LINES).encode()).hexdigest()
    _builtin_print(f"TOTAL lines={len(_LINES)} md5={md5}")
