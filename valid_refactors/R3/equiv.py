"""Equivalence digest for the refactoring of
EasyFEA/Simulations/Solvers.py, EasyFEA/FEM/_boundary_conditions.py,
EasyFEA/Simulations/_elastic.py, _thermal.py and _beam.py.

Run as: cd WORKTREE && PYTHONPATH=WORKTREE /venv/bin/python equiv.py
The printed digest must be identical before and after the refactoring.
"""

import io
import contextlib

import numpy as np

from EasyFEA import Models, Simulations, Mesher, ElemType, SolverType
from EasyFEA.Geoms import Domain, Circle, Point, Line
from EasyFEA.FEM import BoundaryCondition, LagrangeCondition
from EasyFEA.Simulations._problem_type import ProblemType

LINES: list[str] = []


def digest(label: str, value) -> None:
    """Adds `label: shape, sum, sum of abs, euclidean norm` to the digest."""
    if value is None:
        LINES.append(f"{label}: None")
        return
    if isinstance(value, (list, tuple)) and (
        len(value) == 0 or isinstance(value[0], str)
    ):
        LINES.append(f"{label}: {list(value)}")
        return
    arr = np.asarray(value)
    if arr.dtype.kind in "iub":
        LINES.append(
            f"{label}: shape={arr.shape} dtype={arr.dtype.kind} sum={int(arr.sum())} "
            f"wsum={int((arr.ravel() * np.arange(1, arr.size + 1)).sum())}"
        )
        return
    arr = arr.astype(float)
    weights = np.cos(np.arange(arr.size))  # position-dependent check
    LINES.append(
        f"{label}: shape={arr.shape} sum={arr.sum():.11e} abs={np.abs(arr).sum():.11e} "
        f"norm={np.linalg.norm(arr.ravel()):.11e} w={float(arr.ravel() @ weights):.11e}"
    )


# ----------------------------------------------------------------------------
# boundary conditions
# ----------------------------------------------------------------------------
def check_boundary_conditions():
    pA, pB = ProblemType("elastic"), ProblemType("thermal")
    unknowns = ["x", "y", "z"]

    bcs = []
    for i, (pb, nodes, dirs) in enumerate(
        [
            (pA, [0, 3, 5], ["x", "y"]),
            (pB, [1, 2], ["x"]),
            (pA, np.array([[7, 8], [9, 4]]), ["z", "x", "y"]),
            (pA, [], ["y"]),
            (pB, [6], ["y", "z"]),
        ]
    ):
        dofs = BoundaryCondition.Get_dofs_nodes(unknowns, nodes, dirs)
        values = np.linspace(-1.0, 2.0, dofs.size) * (i + 1)
        bcs.append(BoundaryCondition(pb, nodes, dofs, dirs, values, f"bc{i}"))
        digest(f"bc{i}.dofs", bcs[-1].dofs)
        digest(f"bc{i}.nodes", bcs[-1].nodes)
        digest(f"bc{i}.dofsValues", bcs[-1].dofsValues)
    lag = LagrangeCondition(pA, [1, 2], [3, 6], ["x"], [0.0], [1.0, -1.0], "lag")
    bcs.append(lag)
    digest("lag.coefs", lag.lagrangeCoefs)

    for pb in (pA, pB, ProblemType("beam")):
        LINES.append(f"nBc[{pb}] = {BoundaryCondition.Get_nBc(pb, bcs)}")
        digest(f"Get_dofs[{pb}]", BoundaryCondition.Get_dofs(pb, bcs))
        digest(f"Get_values[{pb}]", BoundaryCondition.Get_values(pb, bcs))
    LINES.append(f"nBc[empty] = {BoundaryCondition.Get_nBc(pA, [])}")
    digest("Get_dofs[empty]", BoundaryCondition.Get_dofs(pA, []))
    digest("Get_values[empty]", BoundaryCondition.Get_values(pA, []))

    # unknown direction: an error is printed and the column is left to 0
    with contextlib.redirect_stdout(io.StringIO()) as out:
        dofs = BoundaryCondition.Get_dofs_nodes(["x", "y"], [2, 4, 1], ["y", "rz", "x"])
    digest("Get_dofs_nodes[unavailable]", dofs)
    LINES.append(f"Get_dofs_nodes printed error: {'rz' in out.getvalue()}")
    digest("Get_dofs_nodes[2d nodes]", BoundaryCondition.Get_dofs_nodes(
        ["x", "y", "z", "rx", "ry", "rz"], [[0, 5], [2, 9]], ["rz", "x"]))

    for bad in (([1, 2], [1, 2, 3]), ([], [1])):
        try:
            BoundaryCondition(pA, bad[0], bad[1], ["x"], [0.0], "bad")
            LINES.append("bad bc: no error")
        except AssertionError as err:
            LINES.append(f"bad bc: AssertionError({err})")


# ----------------------------------------------------------------------------
# elastic
# ----------------------------------------------------------------------------
def check_elastic():
    a = 1.0
    domain = Domain(Point(0, 0), Point(a, a), a / 6)
    inclusions = [Circle(Point(a / 2, a / 2), a / 3, a / 6)]

    meshes = {
        "TRI3": domain.Mesh_2D(inclusions, ElemType.TRI3),
        "QUAD8": domain.Mesh_2D(inclusions, ElemType.QUAD8),
        "TETRA4": domain.Mesh_Extrude(inclusions, [0, 0, -a], [2], ElemType.TETRA4),
        "HEXA8": domain.Mesh_Extrude([], [0, 0, -a], [2], ElemType.HEXA8),
    }

    for name, mesh in meshes.items():
        dim = mesh.dim
        material = Models.Elastic.Isotropic(dim, E=210000.0, v=0.3, thickness=0.7)
        simu = Simulations.Elastic(mesh, material)
        simu.solver = SolverType.scipy
        simu.rho = 7.8e-3

        LINES.append(f"[{name}] fields = {simu.Results_nodeFields_elementFields()}")
        LINES.append(
            f"[{name}] fields(details) = {simu.Results_nodeFields_elementFields(True)}"
        )
        digest(f"[{name}] x0 (before)", simu.Get_x0())

        nodes0 = mesh.Nodes_Conditions(lambda x, y, z: x == 0)
        nodesL = mesh.Nodes_Conditions(lambda x, y, z: x == a)
        simu.add_dirichlet(nodes0, [0] * dim, simu.Get_unknowns())
        simu.add_dirichlet(nodes0, [0.001], ["y"])  # a dof entered twice
        simu.add_surfLoad(nodesL, [-800 / a / a, lambda x, y, z: 100 * y], ["y", "x"])

        for K in simu.Get_K_C_M_F()[:3]:
            digest(f"[{name}] K_C_M", K.data)

        simu.Solve()
        simu.Save_Iter()
        digest(f"[{name}] x0 (after)", simu.Get_x0())

        for result in simu.Results_Available():
            for nodeValues in (True, False):
                digest(
                    f"[{name}] {result} n={nodeValues}",
                    simu.Result(result, nodeValues),
                )
        digest(f"[{name}] Psi smoothed", simu._Calc_Psi_Elas(False, True))
        digest(f"[{name}] ZZ1", simu._Calc_ZZ1()[1])
        LINES.append(f"[{name}] energy = { {k: f'{v:.11e}' for k, v in simu.Results_dict_Energy().items()} }")
        LINES.append(f"[{name}] summary = {simu.Results_Get_Iteration_Summary()!r}")

        # iterative solvers
        if name == "TRI3":
            for solver in ("cg", "bicg", SolverType.gmres, "lgmres", SolverType.lgmres):
                simu.solver = solver
                try:
                    digest(f"[{name}] solve {str(solver)}", simu.Solve())
                except Exception as err:  # same exception before/after
                    LINES.append(
                        f"[{name}] solve {str(solver)} -> {type(err).__name__}: {err}"
                    )
            simu.solver = SolverType.scipy

        # dynamic
        simu.Set_Rayleigh_Damping_Coefs(1e-3, 1e-4)
        simu.Solver_Set_Hyperbolic_Algorithm(dt=0.1)
        for _ in range(2):
            simu.Solve()
            simu.Save_Iter()
        LINES.append(f"[{name}] fields(dyn) = {simu.Results_nodeFields_elementFields()}")
        for result in ["displacement", "speed", "accel", "speed_norm", "accel_norm",
                       "vx", "vy", "ax", "ay", "Svm", "Wdef"] + (
            ["uz", "vz", "az"] if dim == 3 else []
        ):
            digest(f"[{name}] dyn {result}", simu.Result(result))
        simu.Set_Iter(0)
        digest(f"[{name}] Set_Iter(0) ux", simu.Result("ux"))
        digest(f"[{name}] Set_Iter(0) speed", simu.speed)
        digest(f"[{name}] Result(iter=1) accel_norm", simu.Result("accel_norm", iter=1))


# ----------------------------------------------------------------------------
# thermal
# ----------------------------------------------------------------------------
def check_thermal():
    a = 1.0
    domain = Domain(Point(0, 0), Point(a, a), a / 6)
    inclusions = [Circle(Point(a / 2, a / 2), a / 3, a / 6)]
    meshes = {
        "TRI6": domain.Mesh_2D(inclusions, ElemType.TRI6),
        "QUAD4": domain.Mesh_2D(inclusions, ElemType.QUAD4),
        "PRISM6": domain.Mesh_Extrude(inclusions, [0, 0, -a], [2], ElemType.PRISM6),
    }
    for name, mesh in meshes.items():
        model = Models.Thermal(k=1.3, c=0.8, thickness=0.6)
        simu = Simulations.Thermal(mesh, model)
        simu.rho = 2.5
        LINES.append(f"[th {name}] available = {simu.Results_Available()}")
        LINES.append(f"[th {name}] fields = {simu.Results_nodeFields_elementFields()}")
        digest(f"[th {name}] x0 (before)", simu.Get_x0())

        nodes0 = mesh.Nodes_Conditions(lambda x, y, z: x == 0)
        nodesL = mesh.Nodes_Conditions(lambda x, y, z: x == a)
        simu.add_dirichlet(nodes0, [0], ["t"])
        simu.add_dirichlet(nodesL, [40], ["t"])
        if mesh.dim == 2:
            simu.add_surfLoad(mesh.nodes, [lambda x, y, z: 3 * x * y], ["t"])
        else:
            simu.add_volumeLoad(mesh.nodes, [2.0], ["t"])

        local = simu.Construct_local_matrix_system(simu.problemType)
        for groupElem, (K_e, C_e, M_e, F_e) in local.items():
            digest(f"[th {name}] K_e {groupElem.elemType}", K_e)
            digest(f"[th {name}] C_e {groupElem.elemType}", C_e)
            LINES.append(f"[th {name}] M_e, F_e = {M_e}, {F_e}")

        simu.Solve()
        simu.Save_Iter()
        digest(f"[th {name}] x0 (after)", simu.Get_x0())
        for result in simu.Results_Available():
            digest(f"[th {name}] {result}", simu.Result(result))
            digest(f"[th {name}] {result} e", simu.Result(result, False))

        simu.Solver_Set_Parabolic_Algorithm(dt=0.05, alpha=0.5)
        for _ in range(3):
            simu.Solve()
            simu.Save_Iter()
        digest(f"[th {name}] transient thermal", simu.thermal)
        digest(f"[th {name}] transient thermalDot", simu.thermalDot)
        simu.Set_Iter(1)
        digest(f"[th {name}] Set_Iter(1) thermalDot", simu.Result("thermalDot"))


# ----------------------------------------------------------------------------
# beam
# ----------------------------------------------------------------------------
def check_beam():
    L, nL = 120.0, 6
    b, h = 13.0, 9.0
    E, v = 210000.0, 0.3

    mesher = Mesher()
    section = mesher.Mesh_2D(Domain(Point(-b / 2, -h / 2), Point(b / 2, h / 2)))

    # cantilevers
    for beamDim in (1, 2, 3):
        for elemType in (ElemType.SEG2, ElemType.SEG3):
            for useTimoshenko in (False, True):
                tag = f"[beam{beamDim} {elemType} T={useTimoshenko}]"
                p1, p2 = Point(), Point(x=L)
                line = Line(p1, p2, L / nL)
                beam = Models.Beam.Isotropic(beamDim, line, section, E, v)
                mesh = mesher.Mesh_Beams([beam], elemType=elemType)
                with contextlib.redirect_stdout(io.StringIO()):
                    simu = Simulations.Beam(
                        mesh, beam, useTimoshenko=useTimoshenko, verbosity=False
                    )
                simu.rho = 7.8e-3
                mesh = simu.mesh

                LINES.append(f"{tag} mass = {simu.mass:.11e}")
                digest(f"{tag} center", simu.center)
                digest(f"{tag} x0 (before)", simu.Get_x0())

                simu.add_dirichlet(
                    mesh.Nodes_Point(p1), [0] * simu.Get_dof_n(), simu.Get_unknowns()
                )
                simu.add_neumann(mesh.Nodes_Point(p2), [500.0], ["x"])
                nodes = mesh.Nodes_Line(line)
                if beamDim == 1:
                    simu.add_lineLoad(nodes, [lambda x, y, z: 0.1 * x], ["x"])
                else:
                    nodalValues = np.sin(mesh.coord[nodes, 0] / L)
                    simu.add_lineLoad(
                        nodes,
                        [-3.0, lambda x, y, z: 0.01 * x],
                        ["y", "x"],
                    )
                    simu.add_lineLoad(nodes, [nodalValues], ["y"])
                    simu.add_lineLoad(nodes, [2], ["rz"])
                    if beamDim == 3:
                        simu.add_lineLoad(nodes, [1.5, 0.2], ["z", "rx"])
                        simu.add_neumann(mesh.Nodes_Point(p2), [30.0], ["rx"])

                digest(f"{tag} Neumann dofs", simu.Bc_dofs_Neumann(simu.problemType))
                digest(f"{tag} Neumann values", simu.Bc_values_Neumann(simu.problemType))

                simu.Solve()
                simu.Save_Iter()
                digest(f"{tag} x0 (after)", simu.Get_x0())

                for result in simu.Results_Available():
                    if result in ("Ty", "Tz", "N", "Mx", "My", "Mz"):
                        variants = (False,)
                    else:
                        variants = (True, False)
                    for nodeValues in variants:
                        try:
                            values = simu.Result(result, nodeValues)
                        except Exception as err:  # same exception before/after
                            LINES.append(f"{tag} {result} -> {type(err).__name__}: {err}")
                            continue
                        digest(f"{tag} {result} n={nodeValues}", values)
                LINES.append(f"{tag} summary = {simu.Results_Get_Iteration_Summary()!r}")
                eps = simu._Calc_Epsilon_e_pg(simu.displacement)
                digest(f"{tag} Sigma_e_pg", simu._Calc_Sigma_e_pg(eps))
                digest(f"{tag} forces_e_pg", simu._Calc_InternalForces_e_pg(eps))

    # frames with connections (Lagrange multipliers)
    Lf = 10.0
    sectionF = mesher.Mesh_2D(Domain(Point(-0.25, -0.25), Point(0.25, 0.25)))
    for elemType in (ElemType.SEG2, ElemType.SEG3):
        for useTimoshenko in (False, True):
            for hinged in (False, True):
                tag = f"[frame {elemType} T={useTimoshenko} hinged={hinged}]"
                line1 = Line(Point(0, 0), Point(Lf, 0), Lf / 5)
                line2 = Line(Point(Lf, 0), Point(Lf, Lf), Lf / 5)
                beam1 = Models.Beam.Isotropic(2, line1, sectionF, 210e9, 0.3)
                beam2 = Models.Beam.Isotropic(2, line2, sectionF, 100e9, 0.25)
                mesh = mesher.Mesh_Beams([beam1, beam2], elemType=elemType)
                structure = Models.Beam.BeamStructure([beam1, beam2])
                with contextlib.redirect_stdout(io.StringIO()):
                    simu = Simulations.Beam(
                        mesh, structure, useTimoshenko=useTimoshenko, verbosity=False
                    )
                simu.rho = np.linspace(1.0, 2.0, simu.mesh.Ne)
                clamp = simu.mesh.Nodes_Point(Point(0, 0))
                corner = simu.mesh.Nodes_Point(Point(Lf, 0))
                tip = simu.mesh.Nodes_Point(Point(Lf, Lf))
                simu.add_dirichlet(clamp, [0, 0, 0], ["x", "y", "rz"])
                simu.add_dirichlet(clamp, [0.001], ["y"])  # a dof entered twice
                if hinged:
                    simu.add_connection_hinged(corner)
                    simu.add_dirichlet(tip, [0], ["x"])
                else:
                    simu.add_connection_fixed(corner)
                simu.add_neumann(tip, [1000.0, -300.0], ["x", "y"])
                simu.add_lineLoad(simu.mesh.Nodes_Line(line1), [-50.0], ["y"])

                LINES.append(f"{tag} nLagrange = {len(simu.Bc_Lagrange)}")
                LINES.append(f"{tag} mass = {simu.mass:.11e}")
                digest(f"{tag} center", simu.center)
                digest(f"{tag} u", simu.Solve())
                simu.Save_Iter()
                for result in simu.Results_Available():
                    try:
                        values = simu.Result(result, False)
                    except Exception as err:
                        LINES.append(f"{tag} {result} -> {type(err).__name__}: {err}")
                        continue
                    digest(f"{tag} {result}", values)
                digest(f"{tag} displacement_matrix", simu.Results_displacement_matrix())

                # the direct solver is kept with Lagrange conditions
                simu.solver = "cg"
                digest(f"{tag} u (solver=cg)", simu.Solve())


if __name__ == "__main__":
    import EasyFEA

    check_boundary_conditions()
    check_elastic()
    check_thermal()
    check_beam()

    print("\n".join(LINES))
    print(f"# {len(LINES)} lines, EasyFEA from {EasyFEA.__file__}")
