"""Deterministic behaviour dump for the R8 refactoring.

Exercises EasyFEA/FEM/_linalg.py, _field.py, _forms.py and Operators/Bilinear.py (plus
Operators/Linear.py and a few simulations built on top of them) and prints every number with
repr(), so that the output is byte-identical before and after the refactoring.

usage: PYTHONPATH=/tmp/wt_R8 MPLBACKEND=Agg /venv/bin/python equiv.py > out.txt
"""

import pickle
import warnings
from fractions import Fraction

import numpy as np

warnings.filterwarnings("ignore")

from EasyFEA import ElemType, MatrixType, Models, Simulations, SolverType, Mesher
from EasyFEA.Geoms import Domain, Point, Line
from EasyFEA.FEM import (
    FeArray,
    Field,
    Sym_Grad,
    BiLinearForm,
    LinearForm,
    Transpose,
    Trace,
    Det,
    Inv,
    TensorProd,
    Norm,
    Normalize,
    Operators,
)
from EasyFEA.FEM import _linalg

Bilinear = Operators.Bilinear
Linear = Operators.Linear

# ----------------------------------------------------------------------------------------------
# printing
# ----------------------------------------------------------------------------------------------


def _num(v) -> str:
    if isinstance(v, (list, tuple)):
        return "[" + ", ".join(_num(w) for w in v) + "]"
    return repr(v)


def show(label: str, x) -> None:
    """Prints the type, dtype, shape and every value of x."""
    if isinstance(x, (tuple, list)) and not isinstance(x, np.ndarray):
        print(f"{label}: {type(x).__name__} of {len(x)}")
        for i, item in enumerate(x):
            show(f"{label}[{i}]", item)
        return
    if hasattr(x, "toarray") and hasattr(x, "nnz"):
        # scipy sparse matrix
        coo = x.tocoo()
        order = np.lexsort((coo.col, coo.row))
        print(f"{label}: sparse {type(x).__name__} shape={x.shape} nnz={x.nnz}")
        print("  rows", _num(coo.row[order].tolist()))
        print("  cols", _num(coo.col[order].tolist()))
        print("  data", _num(coo.data[order].tolist()))
        return
    if isinstance(x, np.ndarray):
        flags = "W" if x.flags.writeable else "R"
        print(
            f"{label}: {type(x).__name__} dtype={x.dtype} shape={x.shape} "
            f"strides={x.strides} flags={flags}"
        )
        print("  " + _num(x.tolist()))
        return
    print(f"{label}: {type(x).__name__} {x!r}")


def attempt(label: str, function, *args, **kwargs) -> None:
    """Runs function and prints its result, or the exception it raises."""
    try:
        res = function(*args, **kwargs)
    except Exception as error:  # noqa: BLE001
        print(f"{label}: raises {type(error).__name__}: {error}")
    else:
        show(label, res)


rng = np.random.default_rng(20240817)


def rand(*shape) -> np.ndarray:
    return rng.standard_normal(shape)


def fe(*shape) -> FeArray:
    return FeArray.asfearray(rand(*shape))


# ----------------------------------------------------------------------------------------------
# 1. _linalg
# ----------------------------------------------------------------------------------------------


class _FakeField:
    """Duck-typed field, as _linalg sees one."""

    _isFeField = True

    def __init__(self, array):
        self.array = array

    def __call__(self):
        return self.array


def section_linalg() -> None:
    print("=" * 30, "linalg")
    Ne, nPg = 3, 2

    s = fe(Ne, nPg)
    v = fe(Ne, nPg, 3)
    w = fe(Ne, nPg, 3)
    m = fe(Ne, nPg, 3, 3)
    n = fe(Ne, nPg, 3, 3)
    t4 = fe(Ne, nPg, 3, 3, 3, 3)
    t3 = fe(Ne, nPg, 3, 3, 3)
    v1 = fe(1, nPg, 3)
    cv = rand(3)
    cm = rand(3, 3)
    c4 = rand(3, 3, 3, 3)
    fieldV = _FakeField(w)
    fieldM = _FakeField(n)
    fieldS = _FakeField(s)

    # ---- constructor
    attempt("new 2d", FeArray, rand(2, 2))
    attempt("new 1d", FeArray, rand(4))
    attempt("new 1d broadcast", FeArray, rand(4), True)
    attempt("new scalar broadcast", FeArray, 2.5, broadcastFeArrays=True)
    attempt("new list", FeArray, [[1, 2], [3, 4]])
    attempt("asfearray 1d", FeArray.asfearray, rand(4))
    attempt("asfearray 1d broadcast", FeArray.asfearray, rand(4), True)
    attempt("asfearray list", FeArray.asfearray, [[1.0, 2.0], [3.0, 4.0]])
    attempt("asfearray scalar", FeArray.asfearray, 1.0)
    attempt("_asfearrays", FeArray._asfearrays, rand(2, 2), rand(2, 2, 3))
    attempt(
        "_asfearrays broadcast", FeArray._asfearrays, rand(2), 3.0, broadcastFeArrays=True
    )
    attempt("zeros args", FeArray.zeros, 2, 3, 2)
    attempt("zeros tuple", FeArray.zeros, (2, 3, 2), dtype=int)
    attempt("ones list", FeArray.ones, [2, 3])
    attempt("ones 1d", FeArray.ones, 4)
    attempt("zeros dtype", FeArray.zeros, 2, 2, dtype=complex)

    # ---- shapes
    for name, array in [("s", s), ("v", v), ("m", m), ("t4", t4)]:
        print(name, "_shape", array._shape, "_ndim", array._ndim)
    attempt("lost axes _ndim", lambda: s[0]._ndim)
    attempt("lost axes _shape", lambda: s[0]._shape)
    attempt("lost axes T", lambda: v[0, 0].T)

    # ---- elementwise arithmetic, mixed ranks
    ops = {
        "s+s": lambda: s + s,
        "s*v": lambda: s * v,
        "v*s": lambda: v * s,
        "s*m": lambda: s * m,
        "m/s": lambda: m / s,
        "s*t4": lambda: s * t4,
        "v+v1": lambda: v + v1,
        "v-w": lambda: v - w,
        "v*cv": lambda: v * cv,
        "cv*v": lambda: cv * v,
        "m+cm": lambda: m + cm,
        "cm-m": lambda: cm - m,
        "s*cm": lambda: s * cm,
        "s*c4": lambda: s * c4,
        "2*m": lambda: 2 * m,
        "m**2": lambda: m**2,
        "-m": lambda: -m,
        "abs": lambda: abs(m),
        "m*field": lambda: m * fieldS,
        "s*fieldV": lambda: s * fieldV,
        "v<w": lambda: v < w,
        "exp": lambda: np.exp(s),
        "sqrt abs": lambda: np.sqrt(np.abs(v)),
        "maximum": lambda: np.maximum(v, 0.0),
        "maximum s v": lambda: np.maximum(s, v),
        "where": lambda: np.where(v > 0, v, w),
        "add out": lambda: np.add(v, w, out=np.zeros((Ne, nPg, 3))),
        "add out fe": lambda: np.add(v, w, out=FeArray.zeros(Ne, nPg, 3)),
        "add where": lambda: np.add(v, w, out=FeArray.zeros(Ne, nPg, 3), where=v > 0),
        "add.reduce": lambda: np.add.reduce(v, axis=-1),
        "add.reduce 0": lambda: np.add.reduce(v, axis=0),
        "add.outer": lambda: np.add.outer(s, s),
        "multiply.accumulate": lambda: np.multiply.accumulate(v, axis=2),
        "modf": lambda: np.modf(v),
        "divmod": lambda: np.divmod(v, 0.3),
        "iadd": lambda: _iadd(v.copy(), w),
        "imul rank": lambda: _imul(m.copy(), s),
        "matmul ufunc": lambda: np.matmul(m, n),
        "mismatch": lambda: v + fe(Ne + 1, nPg, 3),
        "s + plain (Ne,nPg)": lambda: s + rand(Ne, nPg),
        "v + plain (Ne,nPg,3)": lambda: v + rand(Ne, nPg, 3),
    }
    for name, op in ops.items():
        attempt(f"ufunc {name}", op)

    # ---- array functions
    funcs = {
        "einsum": lambda: np.einsum("...i,...i->...", v, w),
        "einsum opt": lambda: np.einsum("epi,epij,epj->ep", v, m, w, optimize=True),
        "einsum sum e": lambda: np.einsum("epi->pi", v),
        "concatenate": lambda: np.concatenate([v, w], axis=-1),
        "concatenate 0": lambda: np.concatenate([v, w], axis=0),
        "stack": lambda: np.stack([v, w], axis=-1),
        "linalg.solve": lambda: np.linalg.solve(m, v[..., None]),
        "linalg.inv": lambda: np.linalg.inv(m),
        "linalg.det": lambda: np.linalg.det(m),
        "linalg.eigvalsh": lambda: np.linalg.eigvalsh(m + m.T),
        "np.sum": lambda: np.sum(v),
        "np.sum -1": lambda: np.sum(v, axis=-1),
        "np.sum pos": lambda: np.sum(v, 2),
        "np.sum 1": lambda: np.sum(v, axis=1),
        "np.sum (2,3)": lambda: np.sum(m, axis=(2, 3)),
        "np.sum (1,2)": lambda: np.sum(m, axis=(1, 2)),
        "np.mean": lambda: np.mean(m, axis=-2),
        "np.std": lambda: np.std(m, axis=-1),
        "np.var 0": lambda: np.var(m, axis=0),
        "np.median": lambda: np.median(v, axis=-1),
        "np.average": lambda: np.average(v, axis=-1),
        "np.max": lambda: np.max(v, axis=-1),
        "np.argmin": lambda: np.argmin(v, axis=-1),
        "np.any": lambda: np.any(v > 0, axis=-1),
        "np.all": lambda: np.all(v > 0),
        "np.reshape": lambda: np.reshape(m, (Ne, nPg, 9)),
        "np.reshape lost": lambda: np.reshape(m, (Ne * nPg, 9)),
        "np.transpose": lambda: np.transpose(m, (0, 1, 3, 2)),
        "np.swapaxes": lambda: np.swapaxes(v, 0, 1),
        "np.zeros_like": lambda: np.zeros_like(m, dtype=float),
        "np.linalg.norm": lambda: np.linalg.norm(v, axis=-1),
        "np.cross": lambda: np.cross(v, w),
        "np.tensordot": lambda: np.tensordot(v, cm, axes=1),
        "np.trace": lambda: np.trace(m, axis1=-2, axis2=-1),
        "np.clip": lambda: np.clip(v, -0.5, 0.5),
        "np.broadcast_to": lambda: np.broadcast_to(v1, (Ne, nPg, 3)),
        "np.array_equal": lambda: np.array_equal(v, v),
    }
    for name, func in funcs.items():
        attempt(f"func {name}", func)

    # ---- reducer methods
    for name in (
        "sum",
        "prod",
        "mean",
        "std",
        "var",
        "max",
        "min",
        "argmax",
        "argmin",
        "all",
        "any",
        "ravel",
    ):
        method = getattr(m, name)
        print(name, method.__name__, method.__qualname__, method.__doc__)
        attempt(f"method {name}()", method)
        if name != "ravel":
            attempt(f"method {name}(-1)", method, -1)
            attempt(f"method {name}(axis=2)", method, axis=2)
            attempt(f"method {name}(axis=1)", method, axis=1)
            attempt(f"method {name}(axis=0)", method, axis=0)
            attempt(f"method {name}(axis=-4)", method, axis=-4)
            if not name.startswith("arg"):
                attempt(f"method {name}((2,3))", method, axis=(2, 3))
                attempt(f"method {name}((1,3))", method, axis=(1, 3))
                attempt(f"method {name}(keepdims)", method, axis=-1, keepdims=True)
    attempt("method mean(1) s", s.mean, 1)
    attempt("reshape keep", m.reshape, Ne, nPg, 9)
    attempt("reshape tuple", m.reshape, (Ne, nPg, 9))
    attempt("reshape lost", m.reshape, Ne * nPg, 3, 3)
    attempt("reshape -1", m.reshape, -1)
    attempt("integrate s", s.integrate)
    attempt("integrate m", m.integrate)

    # ---- T
    for name, array in [("s", s), ("v", v), ("m", m), ("t3", t3), ("t4", t4)]:
        attempt(f"T {name}", lambda a=array: a.T)

    # ---- matmul / dot / ddot
    operands = {
        "s": s,
        "v": v,
        "m": m,
        "t3": t3,
        "t4": t4,
        "cv": cv,
        "cm": cm,
        "c4": c4,
        "c0": np.asarray(2.0),
        "fieldV": fieldV,
        "fieldM": fieldM,
        "fieldS": fieldS,
        "list": [1.0, 2.0, 3.0],
        "float": 2.0,
        "plain_e_pg_v": rand(Ne, nPg, 3),
    }
    for nameL, left in [("s", s), ("v", v), ("m", m), ("t4", t4), ("t3", t3)]:
        for nameR, right in operands.items():
            attempt(f"matmul {nameL}@{nameR}", lambda: left @ right)
            attempt(f"dot {nameL}.{nameR}", left.dot, right)
            attempt(f"ddot {nameL}:{nameR}", left.ddot, right)
    for nameL, left in [
        ("cv", cv),
        ("cm", cm),
        ("c4", c4),
        ("c0", np.asarray(2.0)),
        ("c3", rand(3, 3, 3)),
        ("list", [1.0, 2.0, 3.0]),
    ]:
        for nameR, right in [("s", s), ("v", v), ("m", m), ("t4", t4), ("t3", t3)]:
            attempt(f"rmatmul {nameL}@{nameR}", right.__rmatmul__, left)
    attempt("rmatmul op cm@v", lambda: cm @ v)
    attempt("rmatmul op cv@m", lambda: cv @ m)

    for ndim1 in range(0, 6):
        for ndim2 in range(0, 6):
            attempt(f"_dot_subscript {ndim1} {ndim2}", FeArray._dot_subscript, ndim1, ndim2)
            attempt(
                f"_ddot_subscript {ndim1} {ndim2}", FeArray._ddot_subscript, ndim1, ndim2
            )
    print("cache", FeArray._dot_subscript.cache_info().maxsize)
    print("cache", FeArray._ddot_subscript.cache_info().maxsize)

    # ---- _get_idx / _assemble
    big = FeArray.zeros(Ne, nPg, 4, 5)
    attempt("_get_idx", big._get_idx, np.array([0, 2]), np.array([1, 3, 4]))
    big._assemble(np.array([0, 2]), np.array([1, 3, 4]), value=fe(Ne, nPg, 2, 3))
    show("_assemble", big)

    # ---- broadcast
    Nb, nb = 4, 3
    values = {
        "int": 3,
        "float": 2.5,
        "np.float32": np.float32(1.5),
        "np.int64": np.int64(4),
        "bool": True,
        "0d": np.asarray(1.5),
        "(Ne,)": rand(Nb),
        "(nPg,)": rand(nb),
        "(5,)": rand(5),
        "(Ne,nPg)": rand(Nb, nb),
        "(Ne,nPg,2)": rand(Nb, nb, 2),
        "(3,3)": rand(3, 3),
        "(Ne,3,3)": rand(Nb, 3, 3),
        "(nPg,nPg)": rand(nb, nb),
        "fe": fe(Nb, nb),
        "list": [1.0, 2.0, 3.0],
        "complex": 1 + 2j,
    }
    for name, value in values.items():
        for tensor_ndim in (0, 1, 2):
            attempt(
                f"broadcast {name} tensor_ndim={tensor_ndim}",
                FeArray.broadcast,
                value,
                Nb,
                nb,
                tensor_ndim,
            )
    attempt("broadcast nPg==Ne", FeArray.broadcast, rand(3), 3, 3)

    # ---- Transpose / Trace / Det / Inv
    for dim in (1, 2, 3, 4):
        mats = {
            "fe": fe(Ne, nPg, dim, dim),
            "plain": rand(Ne, dim, dim),
            "single": rand(dim, dim),
            "fe_e": FeArray.asfearray(rand(Ne, dim, dim)),
            "int": rng.integers(-5, 6, size=(2, 2, dim, dim)),
            "float32": rand(2, dim, dim).astype(np.float32),
            "complex": rand(2, dim, dim) + 1j * rand(2, dim, dim),
        }
        if dim < 4:
            frac = np.empty((2, dim, dim), dtype=object)
            ints = rng.integers(1, 9, size=(2, dim, dim, 2))
            for idx in np.ndindex(2, dim, dim):
                frac[idx] = Fraction(int(ints[idx][0]), int(ints[idx][1]))
            frac = frac + np.eye(dim, dtype=int) * 10
            mats["fraction"] = frac
            mats["fraction fe"] = FeArray.asfearray(frac[np.newaxis])
        for name, mat in mats.items():
            attempt(f"Transpose {dim} {name}", Transpose, mat)
            attempt(f"Trace {dim} {name}", Trace, mat)
            attempt(f"Det {dim} {name}", Det, mat)
            attempt(f"Inv {dim} {name}", Inv, mat)
    # non contiguous / read-only operands
    base = rand(Ne, nPg, 3, 3)
    attempt("Det swapped", Det, np.swapaxes(base, -1, -2))
    attempt("Inv swapped", Inv, FeArray.asfearray(np.swapaxes(base, -1, -2)))
    attempt("Inv broadcast view", Inv, FeArray.broadcast(rand(3, 3), 2, 2, 2))
    attempt("Inv singular", Inv, np.ones((2, 2)))
    attempt("Inv singular int", Inv, np.ones((1, 3, 3), dtype=int))
    for name, bad in {
        "vector": rand(3),
        "rect": rand(2, 3),
        "list": [[1.0, 0.0], [0.0, 1.0]],
        "empty": np.zeros((0, 0)),
        "fe vector": v,
    }.items():
        for function in (Transpose, Trace, Det, Inv):
            attempt(f"{function.__name__} bad {name}", function, bad)

    # ---- TensorProd
    pv = rand(3)
    pw = rand(3)
    pm = rand(3, 3)
    pn = rand(3, 3)
    cases = {
        "fe v v": (v, w, {}),
        "fe m m": (m, n, {}),
        "fe m m sym": (m, n, {"symmetric": True}),
        "fe v v sym": (v, w, {"symmetric": True}),
        "fe v m": (v, m, {}),
        "fe s s": (s, s, {}),
        "fe t4": (t4, t4, {}),
        "fe v plain": (v, rand(Ne, nPg, 3), {}),
        "plain fe": (rand(Ne, nPg, 3), v, {}),
        "fe v ndim2": (m, n, {"ndim": 1}),
        "plain v v": (pv, pw, {}),
        "plain m m": (pm, pn, {}),
        "plain m m sym": (pm, pn, {"symmetric": True}),
        "plain batched v": (rand(4, 3), rand(4, 3), {"ndim": 1}),
        "plain batched m": (rand(4, 2, 2), rand(4, 2, 2), {"ndim": 2, "symmetric": True}),
        "plain batched noNdim": (rand(4, 2, 2), rand(4, 2, 2), {}),
        "plain size": (pv, rand(4), {}),
        "plain v m": (pv, pm, {}),
        "list": ([1.0, 2.0], pv, {}),
        "list B": (pv, [1.0, 2.0, 3.0], {}),
        "ndim 3": (pv, pw, {"ndim": 3}),
        "int": (np.arange(3), np.arange(3) + 1, {}),
        "int sym": (
            np.arange(4).reshape(2, 2),
            np.arange(4).reshape(2, 2) + 1,
            {"symmetric": True},
        ),
    }
    for name, (A, B, kwargs) in cases.items():
        attempt(f"TensorProd {name}", TensorProd, A, B, **kwargs)

    # ---- Norm / Normalize
    attempt("Norm fe", Norm, v, axis=-1)
    attempt("Norm fe all", Norm, v)
    attempt("Norm plain", Norm, rand(4, 3), axis=1, keepdims=True)
    attempt("Norm mat", Norm, m, axis=(-2, -1), ord="fro")
    z = v.copy()
    z[0, 0] = 0.0
    attempt("Normalize fe", Normalize, z)
    attempt("Normalize plain", Normalize, np.asarray(z), axis=0)
    attempt("Normalize list", Normalize, [[3.0, 4.0], [0.0, 0.0]])

    # ---- pickling and private helpers
    restored = pickle.loads(pickle.dumps(m))
    show("pickle", restored)
    attempt("_Base", _linalg._Base, (m, [v, 1.0], 2))
    attempt("_Evaluate", _linalg._Evaluate, fieldV)
    attempt("_FeShape", _linalg._FeShape, (m, [v1, 1.0], 2))
    attempt("_FeShape none", _linalg._FeShape, (1.0,))
    attempt("_KeepsFeAxes", _linalg._KeepsFeAxes, (2, -1), 4)
    attempt("_align", FeArray._align, (s, m, cv, fieldV))


def _iadd(a, b):
    a += b
    return a


def _imul(a, b):
    a *= b
    return a


# ----------------------------------------------------------------------------------------------
# 2. meshes
# ----------------------------------------------------------------------------------------------


def mesh_2d(elemType: ElemType, organised=True):
    return Domain((0, 0), (1.0, 0.7), 0.5).Mesh_2D([], elemType, isOrganised=organised)


def mesh_3d(elemType: ElemType):
    return Domain((0, 0), (1.0, 0.8), 1.0).Mesh_Extrude(
        [], [0, 0, 0.6], [1], elemType, isOrganised=True
    )


def mesh_1d(elemType: ElemType):
    from EasyFEA.Geoms import Line as _Line

    mesher = Mesher()
    section = mesher.Mesh_2D(Domain(Point(-0.5, -0.5), Point(0.5, 0.5)))
    line = _Line(Point(), Point(x=2.0), 1.0)
    beam = Models.Beam.Isotropic(1, line, section, 10.0, 0.3)
    return mesher.Mesh_Beams([beam], elemType=elemType)


# ----------------------------------------------------------------------------------------------
# 3. Field
# ----------------------------------------------------------------------------------------------


def section_field() -> None:
    print("=" * 30, "field")
    cases = [
        (mesh_2d(ElemType.TRI3), (1, 2), MatrixType.rigi),
        (mesh_2d(ElemType.TRI6), (1, 2), MatrixType.mass),
        (mesh_2d(ElemType.QUAD4), (1, 2), MatrixType.mass),
        (mesh_2d(ElemType.QUAD8), (2,), MatrixType.rigi),
        (mesh_2d(ElemType.QUAD9), (1,), MatrixType.mass),
        (mesh_3d(ElemType.TETRA4), (1, 2, 3), MatrixType.rigi),
        (mesh_3d(ElemType.HEXA8), (1, 3), MatrixType.mass),
        (mesh_3d(ElemType.PRISM6), (3,), MatrixType.rigi),
        (mesh_1d(ElemType.SEG3), (1,), MatrixType.mass),
    ]
    for mesh, list_dof_n, matrixType in cases:
        groupElem = mesh.groupElem
        for dof_n in list_dof_n:
            tag = f"field {groupElem.elemType} dof_n={dof_n} {matrixType}"
            print("-" * 10, tag)
            field = Field(groupElem, dof_n, matrixType)
            print(tag, field.dof_n, field.matrixType, field.groupElem is groupElem)
            print(tag, sorted(vars(field)))
            show(f"{tag} dofsValues", field._Get_dofsValues())
            show(f"{tag} coords", field.Get_coords())
            show(f"{tag} coords concat", field.Get_coords(concatenate=True))

            lastNode = groupElem.nPe - 1
            field._Set_current_active_node(lastNode)
            field._Set_current_active_dof(dof_n - 1)
            print(tag, field._Get_current_active_node(), field._Get_current_active_dof())
            show(f"{tag} call", field())
            show(f"{tag} grad", field.grad)
            attempt(f"{tag} symgrad", Sym_Grad, field)

            other = field.copy()
            other._Set_current_active_node(0)
            other._Set_current_active_dof(0)
            print(tag, "copy", sorted(vars(other)), other.groupElem is groupElem)
            x, y, z = field.Get_coords()
            attempt(f"{tag} f*g", lambda: field * other)
            attempt(f"{tag} 2*f", lambda: 2.0 * field)
            attempt(f"{tag} f*x", lambda: field * x)
            attempt(f"{tag} x*f", lambda: x * field)
            attempt(f"{tag} f+g", lambda: field + other)
            attempt(f"{tag} 1+f", lambda: 1 + field)
            attempt(f"{tag} f-g", lambda: field - other)
            attempt(f"{tag} 1-f", lambda: 1 - field)
            attempt(f"{tag} f/x", lambda: field / (2 + x))
            attempt(f"{tag} 1/f", lambda: 1.5 / (field + 2))
            attempt(f"{tag} f@g", lambda: field @ other)
            attempt(f"{tag} grad@grad", lambda: field.grad @ other.grad)
            attempt(f"{tag} grad.dot", lambda: field.grad.dot(other.grad))
            attempt(f"{tag} f.dot", field.dot, other)
            attempt(f"{tag} f.ddot", field.ddot, other)
            attempt(f"{tag} fe.dot(field)", lambda: field.grad.dot(other))
            attempt(f"{tag} fe@field", lambda: field.grad @ other)
            attempt(f"{tag} fe*field", lambda: field.grad * other)
            attempt(f"{tag} plain@field", lambda: np.ones(1) @ field)

            # evaluation
            Ndof = groupElem.Ncoords * dof_n
            dofsValues = np.sin(np.arange(Ndof) * 0.37) + 0.1 * np.arange(Ndof)
            attempt(f"{tag} Evaluate_e grad", field.Evaluate_e, lambda f: f.grad, dofsValues)
            attempt(
                f"{tag} Evaluate_e grad pg",
                field.Evaluate_e,
                lambda f: f.grad,
                dofsValues.reshape(-1, 1),
                False,
            )
            attempt(
                f"{tag} Evaluate_e energy",
                field.Evaluate_e,
                lambda f: (
                    f.grad.dot(f.grad) if dof_n == 1 else Sym_Grad(f).ddot(Sym_Grad(f))
                ),
                dofsValues,
            )
            attempt(f"{tag} Evaluate_n", field.Evaluate_n, lambda f: f.grad, dofsValues)
            attempt(f"{tag} Evaluate_n again", field.Evaluate_n, lambda f: f.grad, dofsValues)
            attempt(
                f"{tag} Evaluate_e plain", field.Evaluate_e, lambda f: 1.0, dofsValues
            )
            attempt(f"{tag} grad after failed evaluate", lambda: field.grad)
            attempt(f"{tag} Evaluate_e ok", field.Evaluate_e, lambda f: f.grad, dofsValues)
            attempt(f"{tag} Evaluate_e bad size", field.Evaluate_e, lambda f: f.grad, [1.0])
            attempt(f"{tag} Interpolate", field.Interpolate, dofsValues)
            attempt(
                f"{tag} Interpolate 1",
                field.Interpolate,
                np.arange(groupElem.Ncoords, dtype=float),
            )
            attempt(
                f"{tag} Interpolate int",
                field.Interpolate,
                np.arange(groupElem.Ncoords * 2).reshape(-1, 2),
            )
            attempt(f"{tag} Interpolate bad", field.Interpolate, np.arange(Ndof + 1))
            attempt(f"{tag} set node bad", field._Set_current_active_node, groupElem.nPe)
            attempt(f"{tag} set dof bad", field._Set_current_active_dof, dof_n)
            attempt(f"{tag} set values bad", field._Set_dofsValues, np.zeros((Ndof, 1)))
            attempt(f"{tag} set values bad2", field._Set_dofsValues, np.zeros(Ndof + 2))
            restored = pickle.loads(pickle.dumps(field))
            print(tag, "pickle", sorted(vars(restored)))
            attempt(f"{tag} pickle grad", lambda: restored.grad)

    attempt("field bad dof_n", Field, mesh_2d(ElemType.TRI3).groupElem, 3)
    attempt("field bad dof_n 0", Field, mesh_2d(ElemType.TRI3).groupElem, 0)
    attempt("field bad groupElem", Field, mesh_2d(ElemType.TRI3), 1)


# ----------------------------------------------------------------------------------------------
# 4. forms
# ----------------------------------------------------------------------------------------------


def section_forms() -> None:
    print("=" * 30, "forms")
    lmbda, mu = 1.3, 0.7

    cases = [
        (mesh_2d(ElemType.TRI3), MatrixType.rigi),
        (mesh_2d(ElemType.TRI6), MatrixType.mass),
        (mesh_2d(ElemType.QUAD4), MatrixType.mass),
        (mesh_2d(ElemType.TRI3, organised=False), MatrixType.mass),
        (mesh_3d(ElemType.TETRA4), MatrixType.rigi),
        (mesh_3d(ElemType.HEXA8), MatrixType.mass),
        (mesh_1d(ElemType.SEG2), MatrixType.mass),
    ]
    for mesh, matrixType in cases:
        groupElem = mesh.groupElem
        inDim = groupElem.inDim
        for dof_n in sorted({1, inDim}):
            tag = f"forms {groupElem.elemType} dof_n={dof_n} {matrixType}"
            print("-" * 10, tag)
            field = Field(groupElem, dof_n, matrixType)
            x, y, z = field.Get_coords()

            if dof_n == 1:

                @BiLinearForm
                def bilinear(u: Field, v: Field):
                    return (1 + x * x) * u.grad.dot(v.grad) + 0.5 * u.dot(v)

                @LinearForm
                def linear(v: Field):
                    return (1.0 + x - 2 * y) * v

            else:
                eye = np.eye(dof_n)

                def S(u: Field):
                    Eps = Sym_Grad(u)
                    return 2 * mu * Eps + lmbda * Trace(Eps) * eye

                @BiLinearForm
                def bilinear(u: Field, v: Field):
                    return S(u).ddot(Sym_Grad(v))

                @LinearForm
                def linear(v: Field):
                    return Trace(v.grad) * (1.0 + x)

            print(tag, isinstance(bilinear, BiLinearForm), callable(bilinear._form))
            attempt(f"{tag} K_e", bilinear.Integrate_e, field)
            print(
                tag,
                "active after",
                field._Get_current_active_node(),
                field._Get_current_active_dof(),
            )
            attempt(f"{tag} K", bilinear.Assemble, field)
            attempt(f"{tag} F_e", linear.Integrate_e, field)
            print(
                tag,
                "active after",
                field._Get_current_active_node(),
                field._Get_current_active_dof(),
            )
            attempt(f"{tag} F", linear.Assemble, field)
            # direct call of the form
            field._Set_current_active_node(0)
            field._Set_current_active_dof(0)
            attempt(f"{tag} call", linear, field)
            attempt(f"{tag} call bilinear", bilinear, field, field)

    # forms that do not return what is expected
    field = Field(mesh_2d(ElemType.TRI3).groupElem, 1)
    attempt("forms scalar", BiLinearForm(lambda u, v: 1.0).Integrate_e, field)
    attempt("forms plain", LinearForm(lambda v: np.ones((1, 1))).Integrate_e, field)
    attempt("forms vector", LinearForm(lambda v: v.grad).Integrate_e, field)
    attempt("forms vector bi", BiLinearForm(lambda u, v: u.grad).Assemble, field)
    attempt("forms raise", LinearForm(lambda v: 1 / 0).Assemble, field)
    attempt("forms abstract", Operators.__class__, "x")
    from EasyFEA.FEM import _Form

    attempt("forms abstract", _Form, lambda v: v)


# ----------------------------------------------------------------------------------------------
# 5. operators
# ----------------------------------------------------------------------------------------------


def section_operators() -> None:
    print("=" * 30, "operators")
    for mesh in [
        mesh_2d(ElemType.TRI3),
        mesh_2d(ElemType.TRI6),
        mesh_2d(ElemType.QUAD4),
        mesh_2d(ElemType.QUAD8),
        mesh_3d(ElemType.TETRA4),
        mesh_3d(ElemType.TETRA10),
        mesh_3d(ElemType.HEXA8),
        mesh_3d(ElemType.PRISM6),
    ]:
        groupElem = mesh.groupElem
        dim = groupElem.dim
        Ne = groupElem.Ne
        tag = f"op {groupElem.elemType}"
        print("-" * 10, tag)
        for matrixType in (MatrixType.rigi, MatrixType.mass):
            nPg = groupElem.Get_gauss(matrixType).nPg
            coefs = {
                "default": None,
                "int": 3,
                "float": 0.25,
                "np.float32": np.float32(0.5),
                "(Ne,)": np.linspace(1, 2, Ne),
                "(nPg,)": np.linspace(2, 3, nPg),
                "(Ne,nPg)": 1 + rng.random((Ne, nPg)),
                "fe": FeArray.asfearray(1 + rng.random((Ne, nPg))),
                "0d": np.asarray(1.5),
                "(Ne,nPg,1)": rng.random((Ne, nPg, 1)),
                "(2,)": np.ones(2) if 2 not in (Ne, nPg) else np.ones(7),
                "str": "a",
            }
            for name, coef in coefs.items():
                kw = {} if coef is None else {"coef": coef}
                t = f"{tag} {matrixType} coef={name}"
                attempt(
                    f"{t} GradUGradV", Bilinear.GradUGradV, groupElem, matrixType=matrixType, **kw
                )
                attempt(f"{t} UV", Bilinear.UV, groupElem, matrixType=matrixType, **kw)
                attempt(
                    f"{t} UV dim",
                    Bilinear.UV,
                    groupElem,
                    dof_n=dim,
                    matrixType=matrixType,
                    **kw,
                )
                kwf = {} if coef is None else {"f": coef}
                attempt(f"{t} V", Linear.V, groupElem, matrixType=matrixType, **kwf)
                attempt(
                    f"{t} V dim", Linear.V, groupElem, dof_n=dim, matrixType=matrixType, **kwf
                )

            # tensors
            A0 = rng.random((dim, dim))
            A0 = A0 + A0.T + dim * np.eye(dim)
            tensors = {
                "hom": A0,
                "(Ne,)": A0 * np.linspace(1, 2, Ne)[:, None, None],
                "(Ne,nPg)": A0 * (1 + rng.random((Ne, nPg)))[..., None, None],
                "fe": FeArray.asfearray(A0 * (1 + rng.random((Ne, nPg)))[..., None, None]),
                "(nPg,)": A0 * np.linspace(1, 2, nPg)[:, None, None],
                "vector": np.ones(dim),
                "scalar": 2.0,
            }
            for name, A in tensors.items():
                t = f"{tag} {matrixType} A={name}"
                attempt(
                    f"{t} GradU_A_GradV",
                    Bilinear.GradU_A_GradV,
                    groupElem,
                    A,
                    matrixType=matrixType,
                )
                attempt(
                    f"{t} GradU_A_GradV coef",
                    Bilinear.GradU_A_GradV,
                    groupElem,
                    A,
                    np.linspace(1, 2, Ne),
                    matrixType,
                )

            # elasticity
            for planeStress in (True, False):
                material = Models.Elastic.Isotropic(
                    dim=dim, E=3.0, v=0.3, planeStress=planeStress
                )
                C0 = material.C
                nstrain = C0.shape[0]
                Cs = {
                    "hom": C0,
                    "(Ne,)": C0 * np.linspace(1, 2, Ne)[:, None, None],
                    "(Ne,nPg)": C0 * (1 + rng.random((Ne, nPg)))[..., None, None],
                    "fe": FeArray.asfearray(
                        C0 * (1 + rng.random((Ne, nPg)))[..., None, None]
                    ),
                    "(nPg,)": C0 * np.linspace(1, 2, nPg)[:, None, None],
                    "scalar": 1.0,
                }
                for name, C in Cs.items():
                    attempt(
                        f"{tag} {matrixType} ps={planeStress} C={name} LinearizedElasticity",
                        Bilinear.LinearizedElasticity,
                        groupElem,
                        C,
                        matrixType,
                    )
                sigma = rng.standard_normal((Ne, nPg, nstrain))
                attempt(
                    f"{tag} {matrixType} InternalForce",
                    Linear.InternalForce,
                    groupElem,
                    sigma,
                    matrixType,
                )
                attempt(
                    f"{tag} {matrixType} InternalForce fe",
                    Linear.InternalForce,
                    groupElem,
                    FeArray.asfearray(sigma),
                    matrixType,
                )
                attempt(
                    f"{tag} {matrixType} InternalForce bad",
                    Linear.InternalForce,
                    groupElem,
                    sigma[0, 0],
                    matrixType,
                )

        # surface operators
        if mesh.dim == 3:
            for surfGroup in mesh.Get_list_groupElem(2):
                for matrixType in (MatrixType.mass, MatrixType.rigi):
                    Ns = surfGroup.Ne
                    nPg = surfGroup.Get_gauss(matrixType).nPg
                    t = f"{tag} surface {surfGroup.elemType} {matrixType}"
                    attempt(
                        f"{t} MassAlongNormal",
                        Bilinear.MassAlongNormal,
                        surfGroup,
                        matrixType=matrixType,
                    )
                    attempt(
                        f"{t} MassAlongNormal coef",
                        Bilinear.MassAlongNormal,
                        surfGroup,
                        2.5,
                        matrixType,
                    )
                    attempt(
                        f"{t} MassAlongNormal (Ne,)",
                        Bilinear.MassAlongNormal,
                        surfGroup,
                        np.linspace(1, 2, Ns),
                        matrixType,
                    )
                    attempt(
                        f"{t} MassAlongNormal (Ne,nPg)",
                        Bilinear.MassAlongNormal,
                        surfGroup,
                        1 + rng.random((Ns, nPg)),
                        matrixType,
                    )
            attempt(f"{tag} MassAlongNormal 3D", Bilinear.MassAlongNormal, groupElem)
        else:
            for lineGroup in mesh.Get_list_groupElem(1):
                attempt(
                    f"{tag} line {lineGroup.elemType} MassAlongNormal",
                    Bilinear.MassAlongNormal,
                    lineGroup,
                    1.5,
                )
            attempt(f"{tag} MassAlongNormal 2D", Bilinear.MassAlongNormal, groupElem)


# ----------------------------------------------------------------------------------------------
# 6. beams
# ----------------------------------------------------------------------------------------------


def section_beams() -> None:
    print("=" * 30, "beams")
    from EasyFEA.FEM.Elems._beam import (
        _Construct_Timoshenko_mesh,
        _Construct_Euler_Bernoulli_mesh,
    )

    L = 3.0
    for beamDim in (1, 2, 3):
        for elemType in (ElemType.SEG2, ElemType.SEG3, ElemType.SEG4):
            mesher = Mesher()
            section1 = mesher.Mesh_2D(Domain(Point(-0.1, -0.2), Point(0.1, 0.2)))
            section2 = mesher.Mesh_2D(Domain(Point(-0.15, -0.1), Point(0.15, 0.1)))
            p1, p2, p3 = Point(), Point(x=L / 2), Point(x=L, y=0.5 if beamDim > 1 else 0.0)
            line1 = Line(p1, p2, L / 4)
            line2 = Line(p2, p3, L / 4)
            beam1 = Models.Beam.Isotropic(beamDim, line1, section1, 210.0, 0.3)
            beam2 = Models.Beam.Isotropic(beamDim, line2, section2, 70.0, 0.25)
            beams = [beam1, beam2]
            mesh = mesher.Mesh_Beams(beams, elemType=elemType)
            structure = Models.Beam.BeamStructure(beams)
            for useTimoshenko in (False, True):
                tag = f"beam dim={beamDim} {elemType} timo={useTimoshenko}"
                print("-" * 10, tag)
                if useTimoshenko:
                    beamMesh = _Construct_Timoshenko_mesh(mesh)
                else:
                    beamMesh = _Construct_Euler_Bernoulli_mesh(mesh)
                groupElem = beamMesh.groupElem
                Ne = groupElem.Ne
                attempt(f"{tag} BeamBending", Bilinear.BeamBending, groupElem, structure)
                attempt(f"{tag} BeamShear", Bilinear.BeamShear, groupElem, structure)
                attempt(f"{tag} BeamStiffness", Bilinear.BeamStiffness, groupElem, structure)
                attempt(f"{tag} BeamMass", Bilinear.BeamMass, groupElem, structure)
                attempt(f"{tag} BeamMass rho", Bilinear.BeamMass, groupElem, structure, 7.8)
                attempt(
                    f"{tag} BeamMass (Ne,)",
                    Bilinear.BeamMass,
                    groupElem,
                    structure,
                    np.linspace(1, 2, Ne),
                )
                nPg = groupElem.Get_gauss(MatrixType.beam).nPg
                attempt(
                    f"{tag} BeamMass (Ne,nPg)",
                    Bilinear.BeamMass,
                    groupElem,
                    structure,
                    1 + rng.random((Ne, nPg)),
                )
                # the operators must not have modified the cached D
                show(f"{tag} D", structure.Calc_D_e_pg(groupElem, MatrixType.beam))

                # simulation
                simu = Simulations.Beam(
                    mesh, structure, verbosity=False, useTimoshenko=useTimoshenko
                )
                simu.rho = 2.0
                simu.add_dirichlet(
                    mesh.Nodes_Point(p1), [0] * simu.Get_dof_n(), simu.Get_unknowns()
                )
                if beamDim == 1:
                    simu.add_neumann(mesh.Nodes_Point(p3), [1.5], ["x"])
                else:
                    simu.add_neumann(mesh.Nodes_Point(p3), [-0.2], ["y"])
                    simu.add_lineLoad(mesh.nodes, [-0.05], ["y"])
                simu.Solve()
                show(f"{tag} u", simu.displacement)
                show(f"{tag} mass", simu.mass)
                for result in ("ux", "N") + (("uy", "rz", "Mz") if beamDim > 1 else ()):
                    attempt(f"{tag} {result}", simu.Result, result, nodeValues=False)


# ----------------------------------------------------------------------------------------------
# 7. simulations
# ----------------------------------------------------------------------------------------------


def section_simulations() -> None:
    print("=" * 30, "simulations")

    # ---- weak forms vs thermal / elastic
    for elemType in (ElemType.TRI3, ElemType.QUAD8):
        mesh = Domain((0, 0), (1, 1), 0.5).Mesh_2D([], elemType, isOrganised=True)
        nodesX0 = mesh.Nodes_Conditions(lambda x, y, z: x == 0)
        nodesX1 = mesh.Nodes_Conditions(lambda x, y, z: x == 1)
        tag = f"simu {elemType}"

        thermal = Simulations.Thermal(mesh, Models.Thermal(k=1.7, c=2.0))
        thermal.solver = SolverType.scipy
        thermal.rho = 1.3
        thermal.add_dirichlet(nodesX0, [0], ["t"])
        thermal.add_dirichlet(nodesX1, [1], ["t"])
        thermal.add_volumeLoad(mesh.nodes, [lambda x, y, z: x * y], ["t"])
        thermal.Solve()
        show(f"{tag} thermal", thermal.thermal)
        show(f"{tag} thermal K", thermal.Get_K_C_M_F()[0])
        show(f"{tag} thermal C", thermal.Get_K_C_M_F()[1])

        field = Field(mesh.groupElem, 1)
        x, y, z = field.Get_coords()

        @BiLinearForm
        def bilinear(u: Field, v: Field):
            return 1.7 * u.grad.dot(v.grad)

        @LinearForm
        def linear(v: Field):
            return x * y * v

        weakForms = Models.WeakForms(field, bilinear, computeF=linear)
        simu = Simulations.WeakForms(mesh, weakForms)
        simu.solver = SolverType.scipy
        simu.add_dirichlet(nodesX0, [0], ["u"])
        simu.add_dirichlet(nodesX1, [1], ["u"])
        simu.Solve()
        show(f"{tag} weakforms thermal", simu.u)

        material = Models.Elastic.Isotropic(dim=2, E=210.0, v=0.3, planeStress=False)
        lmbda, mu = material.get_lambda(), material.get_mu()
        elastic = Simulations.Elastic(mesh, material)
        elastic.solver = SolverType.scipy
        elastic.rho = 0.5
        elastic.add_dirichlet(nodesX0, [0, 0], ["x", "y"])
        elastic.add_dirichlet(nodesX1, [0.1], ["x"])
        elastic.add_surfLoad(nodesX1, [-0.3], ["y"])
        elastic.Solve()
        show(f"{tag} elastic", elastic.displacement)
        show(f"{tag} elastic K", elastic.Get_K_C_M_F()[0])
        show(f"{tag} elastic M", elastic.Get_K_C_M_F()[2])
        for result in ("Svm", "Sxx", "Exy", "Wdef"):
            attempt(f"{tag} elastic {result}", elastic.Result, result, nodeValues=False)

        field2 = Field(mesh.groupElem, 2)

        @BiLinearForm
        def ComputeK(u: Field, v: Field):
            Eps = Sym_Grad(u)
            Sig = 2 * mu * Eps + lmbda * Trace(Eps) * np.eye(2)
            return Sig.ddot(Sym_Grad(v))

        simu2 = Simulations.WeakForms(mesh, Models.WeakForms(field2, ComputeK))
        simu2.solver = SolverType.scipy
        simu2.add_dirichlet(nodesX0, [0, 0], ["x", "y"])
        simu2.add_dirichlet(nodesX1, [0.1], ["x"])
        simu2.Solve()
        show(f"{tag} weakforms elastic", simu2.u)

    # ---- heterogeneous 3D elasticity
    mesh = mesh_3d(ElemType.HEXA8)
    material = Models.Elastic.Isotropic(dim=3, E=np.linspace(1, 2, mesh.Ne), v=0.3)
    elastic = Simulations.Elastic(mesh, material)
    elastic.solver = SolverType.scipy
    nodesX0 = mesh.Nodes_Conditions(lambda x, y, z: x == 0)
    nodesX1 = mesh.Nodes_Conditions(lambda x, y, z: x == 1)
    elastic.add_dirichlet(nodesX0, [0, 0, 0], ["x", "y", "z"])
    elastic.add_surfLoad(nodesX1, [0.1], ["x"])
    elastic.Solve()
    show("simu 3d heterogeneous", elastic.displacement)

    # ---- phase field (GradU_A_GradV, UV, V, LinearizedElasticity with (Ne, nPg) tensors)
    mesh = Domain((0, 0), (1, 1), 0.5).Mesh_2D([], ElemType.TRI3, isOrganised=True)
    material = Models.Elastic.Isotropic(dim=2, E=210.0, v=0.3, planeStress=False)
    for split, regu, A in (
        ("Bourdin", "AT2", None),
        ("Miehe", "AT1", None),
        ("AnisotStress", "AT2", np.array([[2.0, 0.3], [0.3, 1.0]])),
    ):
        try:
            kwargs = {} if A is None else {"A": A}
            pfm = Models.PhaseField(material, split, regu, Gc=0.1, l0=0.3, **kwargs)
            simu = Simulations.PhaseField(mesh, pfm)
            simu.solver = SolverType.scipy
            nodes0 = mesh.Nodes_Conditions(lambda x, y, z: y == 0)
            nodes1 = mesh.Nodes_Conditions(lambda x, y, z: y == 1)
            for ud in (0.01, 0.03):
                simu.Bc_Init()
                simu.add_dirichlet(nodes0, [0, 0], ["x", "y"])
                simu.add_dirichlet(nodes1, [ud], ["y"])
                u, d, convergence = simu.Solve(1e-2, 20)
                show(f"phasefield {split} {regu} ud={ud} u", u)
                show(f"phasefield {split} {regu} ud={ud} d", d)
                show(f"phasefield {split} {regu} ud={ud} Ku", simu.Get_K_C_M_F("elastic")[0])
                show(f"phasefield {split} {regu} ud={ud} Kd", simu.Get_K_C_M_F("damage")[0])
                show(f"phasefield {split} {regu} ud={ud} Fd", simu.Get_K_C_M_F("damage")[3])
                print("convergence", convergence)
        except Exception as error:  # noqa: BLE001
            print(f"phasefield {split} {regu}: raises {type(error).__name__}: {error}")

    # ---- hyperelasticity uses Det / Inv / TensorProd through the non linear operators
    try:
        mesh = mesh_3d(ElemType.TETRA4)
        mat = Models.HyperElastic.NeoHookean(3, K=2.0)
        simu = Simulations.HyperElastic(mesh, mat)
        simu.solver = SolverType.scipy
        nodesX0 = mesh.Nodes_Conditions(lambda x, y, z: x == 0)
        nodesX1 = mesh.Nodes_Conditions(lambda x, y, z: x == 1)
        simu.add_dirichlet(nodesX0, [0, 0, 0], ["x", "y", "z"])
        simu.add_dirichlet(nodesX1, [0.05], ["x"])
        simu.Solve()
        show("hyperelastic u", simu.displacement)
    except Exception as error:  # noqa: BLE001
        print(f"hyperelastic: raises {type(error).__name__}: {error}")


if __name__ == "__main__":
    section_linalg()
    section_field()
    section_forms()
    section_operators()
    section_beams()
    section_simulations()
    print("done")
