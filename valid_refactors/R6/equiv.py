"""Behaviour digest for the refactoring of the elastic laws, the model utilities,
the parameter descriptors, the cache decorator, the mesh transformations and the
mesh partitioner.

Run as: cd WORKTREE && PYTHONPATH=WORKTREE /venv/bin/python equiv.py
The printed digest must be identical before and after the refactoring.
"""

import functools

import numpy as np

from EasyFEA import Mesher, ElemType, Mesh, Models
from EasyFEA.Geoms import Domain, Point, Circle
from EasyFEA.FEM._linalg import FeArray
from EasyFEA.Models import _utils as mu
from EasyFEA.Utilities import _params, _cache
from EasyFEA.Utilities._observers import _IObserver

np.random.seed(1234)

SECTION = [""]


def section(name):
    SECTION[0] = name
    print(f"--- {name}")


def fmt(x):
    return f"{float(x):.12e}"


def digest(label, value):
    """Prints shape, dtype kind, sum, norm and a weighted sum of an array-like."""
    if isinstance(value, (tuple, list)) and not isinstance(value, np.ndarray):
        for i, v in enumerate(value):
            digest(f"{label}[{i}]", v)
        return
    arr = np.asarray(value)
    if arr.dtype == object:
        arr = arr.astype(float)
    kind = arr.dtype.kind
    arr = arr.astype(float)
    weights = np.cos(np.arange(arr.size) * 0.37 + 0.11).reshape(arr.shape)
    print(
        f"{label}: type={type(value).__name__} shape={arr.shape} kind={kind} "
        f"sum={fmt(arr.sum())} norm={fmt(np.linalg.norm(arr.ravel()))} "
        f"wsum={fmt((arr * weights).sum())}"
    )


def raises(label, func, *args, **kwargs):
    try:
        func(*args, **kwargs)
    except BaseException as err:  # noqa: BLE001
        text = str(err).splitlines()[0] if str(err) else ""
        print(f"{label}: raised {type(err).__name__}: {text[:90]}")
    else:
        print(f"{label}: no exception")


# ----------------------------------------------------------------------------
# Elastic laws
# ----------------------------------------------------------------------------


def law_digest(label, mat, walpole=True):
    digest(f"{label}.C", mat.C)
    digest(f"{label}.S", mat.S)
    print(f"{label}.isHeterogeneous={mat.isHeterogeneous} simpl={mat.simplification}")
    digest(f"{label}.sqrtCS", mat.Get_sqrt_C_S())
    if walpole:
        try:
            ci, Ei = mat.Walpole_Decomposition()
        except BaseException as err:  # noqa: BLE001
            print(f"{label}.walpole: raised {type(err).__name__}: {str(err)[:80]}")
            return
        digest(f"{label}.ci", ci if ci.dtype != object else np.concatenate(
            [np.ravel(c) for c in ci]))
        digest(f"{label}.Ei", Ei)


def check_laws():
    section("Isotropic")
    Ne, nPg = 4, 3
    E_e = np.linspace(1.0, 2.0, Ne) * 210000
    v_e_pg = 0.2 + 0.1 * np.random.rand(Ne, nPg)
    for dim in (2, 3):
        for ps in (True, False):
            mat = Models.Elastic.Isotropic(dim, 210000.0, 0.3, ps, 0.7)
            law_digest(f"iso{dim}{ps}", mat)
            digest(f"iso{dim}{ps}.lmb", [mat.get_lambda(), mat.get_mu(), mat.get_bulk()])
            print(str(mat).replace("\n", " | "))
            # update through the descriptors
            mat.E = 100.0
            mat.v = 0.25
            law_digest(f"iso{dim}{ps}.upd", mat, walpole=False)
            digest(f"iso{dim}{ps}._Behavior3", mat._Behavior(3))
            digest(f"iso{dim}{ps}._BehaviorNone", mat._Behavior())
        mat = Models.Elastic.Isotropic(dim, E_e, 0.3, True)
        law_digest(f"iso{dim}.E_e", mat)
        mat = Models.Elastic.Isotropic(dim, E_e, v_e_pg[:, 0], False)
        law_digest(f"iso{dim}.Ev_e", mat)
        mat = Models.Elastic.Isotropic(dim, 3.0, v_e_pg, False)
        law_digest(f"iso{dim}.v_e_pg", mat)
        mat = Models.Elastic.Isotropic(dim, np.outer(E_e, np.ones(nPg)), v_e_pg, True)
        law_digest(f"iso{dim}.Ev_e_pg", mat)
    raises("iso.dim4", Models.Elastic.Isotropic, 4)
    raises("iso.v", Models.Elastic.Isotropic, 2, 1.0, 0.5)
    raises("iso.E", Models.Elastic.Isotropic, 2, -1.0, 0.3)
    raises("iso.behav", Models.Elastic.Isotropic(2)._Behavior, 4)
    mat = Models.Elastic.Isotropic(2)
    raises("iso.setC.type", setattr, mat, "C", [[1, 2, 3]])
    raises("iso.setC.shape", setattr, mat, "C", np.eye(6))
    raises("iso.setS.type", setattr, mat, "S", 3.0)
    raises("iso.setS.shape", setattr, mat, "S", np.eye(2))
    mat.C = np.eye(3) * 2.0
    mat.Need_Update(False)
    digest("iso.setC.sqrt", mat.Get_sqrt_C_S())

    section("TransverselyIsotropic")
    axis_l = np.array([1.0, 2.0, 0.5])
    axis_t = np.cross(axis_l, [0.3, -1.0, 2.0])
    El_e = np.linspace(11580, 13000, Ne)
    for dim in (2, 3):
        for ps in (True, False):
            for k, (al, at) in enumerate([((1, 0, 0), (0, 1, 0)), (axis_l, axis_t)]):
                mat = Models.Elastic.TransverselyIsotropic(
                    dim, 11580.0, 500.0, 450.0, 0.02, 0.44, al, at, ps, 1.3
                )
                label = f"ti{dim}{ps}{k}"
                law_digest(label, mat)
                digest(f"{label}.Gt_kt", [mat.Gt, mat.kt])
                digest(f"{label}.axes", [mat.axis_l, mat.axis_t])
                digest(f"{label}._Behavior3", mat._Behavior(3))
                print(str(mat).replace("\n", " | "))
        mat = Models.Elastic.TransverselyIsotropic(
            dim, El_e, 500.0, 450.0, 0.02, 0.44, axis_l, axis_t, True
        )
        law_digest(f"ti{dim}.El_e", mat)
        mat = Models.Elastic.TransverselyIsotropic(
            dim, np.outer(El_e, np.ones(nPg)), 500.0, 450.0, 0.02, 0.44, axis_l, axis_t,
            False,
        )
        law_digest(f"ti{dim}.El_e_pg", mat)
    raises("ti.axes", Models.Elastic.TransverselyIsotropic, 2, 1.0, 1.0, 1.0, 0.1, 0.1,
           (1, 0, 0), (1, 1, 0))

    section("Orthotropic")
    E1_e = np.linspace(8000, 9000, Ne)
    args = (9000.0, 700.0, 600.0, 300.0, 400.0, 450.0, 0.1, 0.05, 0.02)
    for dim in (2, 3):
        for ps in (True, False):
            for k, (a1, a2) in enumerate([((1, 0, 0), (0, 1, 0)), (axis_l, axis_t)]):
                mat = Models.Elastic.Orthotropic(dim, *args, a1, a2, ps, 0.4)
                label = f"or{dim}{ps}{k}"
                law_digest(label, mat)
                digest(
                    f"{label}.cij",
                    [mat._c11, mat._c22, mat._c33, mat._c44, mat._c55, mat._c66,
                     mat._c23, mat._c13, mat._c12],
                )
                digest(f"{label}.axes", [mat.axis_1, mat.axis_2])
                digest(f"{label}._Behavior3", mat._Behavior(3))
                print(str(mat).replace("\n", " | "))
        mat = Models.Elastic.Orthotropic(dim, E1_e, *args[1:], axis_l, axis_t, True)
        law_digest(f"or{dim}.E1_e", mat)
        mat = Models.Elastic.Orthotropic(
            dim, np.outer(E1_e, np.ones(nPg)), *args[1:], axis_l, axis_t, False
        )
        law_digest(f"or{dim}.E1_e_pg", mat)
    raises("or.v", Models.Elastic.Orthotropic(2, 1.0, 100.0, 1.0, 1.0, 1.0, 1.0, 0.1, 0.1,
                                              0.4)._Behavior)

    section("Anisotropic")
    C3 = Models.Elastic.Isotropic(2, 10.0, 0.3, False).C + np.diag([1.0, 2.0, 3.0])
    C3[0, 2] = C3[2, 0] = 0.4
    C6 = Models.Elastic.TransverselyIsotropic(3, 11580.0, 500.0, 450.0, 0.02, 0.44).C
    C6[1, 4] = C6[4, 1] = 12.0
    scale_e = np.linspace(1, 2, Ne)
    scale_e_pg = 1 + np.random.rand(Ne, nPg)
    for voigt in (True, False):
        for k, (a1, a2) in enumerate([((1, 0, 0), (0, 1, 0)), (axis_l, axis_t)]):
            for name, C, dim in [
                ("C3", C3, 2),
                ("C3_e", scale_e[:, None, None] * C3, 2),
                ("C3_e_pg", scale_e_pg[:, :, None, None] * C3, 2),
                ("C6", C6, 3),
                ("C6_e", scale_e[:, None, None] * C6, 3),
                ("C6_e_pg", scale_e_pg[:, :, None, None] * C6, 3),
                ("C6dim2", C6, 2),
                ("C6_e_dim2", scale_e[:, None, None] * C6, 2),
                ("C6_e_pg_dim2", scale_e_pg[:, :, None, None] * C6, 2),
                ("C3int", np.array([[4, 1, 0], [1, 5, 0], [0, 0, 2]]), 2),
            ]:
                mat = Models.Elastic.Anisotropic(dim, C, voigt, a1, a2, 0.9)
                label = f"an.{name}.{voigt}.{k}"
                law_digest(label, mat)
                digest(f"{label}.axes", [mat.axis1, mat.axis2])
                digest(f"{label}._Behavior", mat._Behavior(C, not voigt))
                mat.Set_C(2 * C, voigt, update_S=False)
                digest(f"{label}.Set_C", [mat.C, mat.S])
    print(str(Models.Elastic.Anisotropic(2, C3, False)).replace("\n", " | "))
    raises("an.C3dim3", Models.Elastic.Anisotropic, 3, C3, False)
    raises("an.nonsym", Models.Elastic.Anisotropic, 2, C3 + np.triu(np.ones((3, 3)), 1),
           False)
    raises("an.shape", Models.Elastic.Anisotropic, 2, np.eye(4), False)
    raises("an.5d", Models.Elastic.Anisotropic, 2, np.ones((2, 2, 2, 1, 1)) * C3, False)
    raises("an.1d", Models.Elastic.Anisotropic, 2, np.ones(3), False)
    raises("an.axes", Models.Elastic.Anisotropic, 2, C3, False, (1, 0, 0), (1, 1, 0))

    section("Strain/stress")
    mesh = Mesher().Mesh_2D(Domain(Point(), Point(2, 1), 0.5), [], ElemType.QUAD4,
                            isOrganised=True)
    groupElem = mesh.groupElem
    u = np.sin(np.arange(mesh.Nn * 2) * 0.3)
    for mat in [
        Models.Elastic.Isotropic(2, 10.0, 0.3),
        Models.Elastic.Isotropic(2, np.linspace(1, 2, mesh.Ne), 0.3),
        Models.Elastic.Orthotropic(2, *args, axis_l, axis_t),
    ]:
        eps = mat.Calc_Epsilon_e_pg(u, groupElem)
        sig = mat.Calc_Sigma_e_pg(eps)
        psi = mat.Calc_Psi_e_pg(eps)
        digest("eps/sig/psi", [eps, sig, psi, mat.Calc_Psi_e_pg(eps, 2 * sig)])


# ----------------------------------------------------------------------------
# Models._utils
# ----------------------------------------------------------------------------


class FakeGroup:
    def __init__(self, field):
        self.field = field


def check_utils():
    section("Heterogeneous_Array")
    Ne, nPg = 5, 3
    a_e = np.linspace(1, 2, Ne)
    a_e_pg = np.random.rand(Ne, nPg)
    digest("het.float", mu.Heterogeneous_Array(np.arange(6.0).reshape(2, 3)))
    digest("het.int", mu.Heterogeneous_Array(np.arange(6).reshape(3, 2)))
    obj = np.array([[a_e, 1, 2.5], [0, a_e * 2, np.float64(3)]], dtype=object)
    digest("het.e", mu.Heterogeneous_Array(obj))
    obj = np.array([[a_e_pg, 1], [np.int64(3), a_e_pg * 2]], dtype=object)
    digest("het.e_pg", mu.Heterogeneous_Array(obj))
    obj = np.empty((2, 2), dtype=object)
    obj[0, 0], obj[0, 1], obj[1, 0], obj[1, 1] = np.ones(3), np.random.rand(3, 3), 2, 1.5
    digest("het.mixed", mu.Heterogeneous_Array(obj))
    obj = np.empty((1, 2), dtype=object)
    obj[0, 0], obj[0, 1] = np.ones(4), np.random.rand(3, 2)
    raises("het.mismatch", mu.Heterogeneous_Array, obj)
    obj[0, 0], obj[0, 1] = 1.0, np.random.rand(2, 2, 2)
    raises("het.3d", mu.Heterogeneous_Array, obj)
    raises("het.1d", mu.Heterogeneous_Array, np.ones(3))
    digest("het.empty", mu.Heterogeneous_Array(np.zeros((0, 3))))

    section("KelvinMandel_Matrix")
    for dim, n in [(2, 3), (3, 6)]:
        M = np.random.rand(n, n)
        digest(f"km{dim}", mu.KelvinMandel_Matrix(dim, M))
        digest(f"km{dim}.e", mu.KelvinMandel_Matrix(dim, np.random.rand(4, n, n)))
        digest(f"km{dim}.int", mu.KelvinMandel_Matrix(dim, np.arange(n * n).reshape(n, n)))
        print("km exact:", repr(mu.KelvinMandel_Matrix(dim, np.ones((n, n))).tolist()))
    raises("km.dim", mu.KelvinMandel_Matrix, 1, np.eye(3))
    raises("km.shape", mu.KelvinMandel_Matrix, 2, np.eye(6))

    section("Project")
    for n in (3, 6):
        vec = np.random.rand(Ne, nPg, n)
        digest(f"v2m{n}", mu.Project_vector_to_matrix(vec))
        digest(f"v2m{n}.fe", mu.Project_vector_to_matrix(FeArray.asfearray(vec), 2.0))
        mat = mu.Project_vector_to_matrix(vec)
        digest(f"m2v{n}", mu.Project_matrix_to_vector(mat + np.random.rand(*mat.shape)))
        digest(f"m2v{n}.fe", mu.Project_matrix_to_vector(FeArray.asfearray(mat), 1.0))
    raises("v2m.shape", mu.Project_vector_to_matrix, np.ones((2, 2, 4)))
    raises("v2m.type", mu.Project_vector_to_matrix, [[[1, 2, 3]]])
    raises("m2v.shape", mu.Project_matrix_to_vector, np.ones((2, 2, 4, 4)))

    section("Project_Kelvin")
    A2 = np.random.rand(3, 3)
    A4 = np.random.rand(3, 3, 3, 3)
    digest("pk2", mu.Project_Kelvin(A2))
    digest("pk2.order", mu.Project_Kelvin(np.random.rand(4, 2, 3, 3), 2))
    digest("pk4", mu.Project_Kelvin(A4))
    digest("pk4.order", mu.Project_Kelvin(np.random.rand(2, 3, 3, 3, 3), 4))
    digest("pk4.int", mu.Project_Kelvin(np.arange(81).reshape(3, 3, 3, 3)))
    digest("pk2.fe", mu.Project_Kelvin(FeArray.asfearray(np.random.rand(4, 2, 3, 3)), 2))
    digest("pk4.fe", mu.Project_Kelvin(FeArray.asfearray(np.random.rand(4, 2, 3, 3, 3, 3)), 4))
    raises("pk2.fe.None", mu.Project_Kelvin, FeArray.asfearray(np.random.rand(4, 2, 3, 3)))
    raises("pk.order3", mu.Project_Kelvin, np.random.rand(3, 3, 3))
    raises("pk.std", mu.Project_Kelvin, np.random.rand(2, 3))
    raises("pk2.shape", mu.Project_Kelvin, np.random.rand(2, 2))
    raises("pk4.shape", mu.Project_Kelvin, np.random.rand(2, 2, 2, 2))
    raises("pk.order", mu.Project_Kelvin, A2, 3)

    section("Result_strain_or_stress_field_e")
    for n in (3, 6):
        fields = [np.random.rand(ne, npg, n) for ne, npg in [(4, 3), (2, 1)]]
        groups = [FakeGroup(FeArray.asfearray(f.copy())) for f in fields]
        results = ["xx", "yy", "zz", "yz", "xz", "xy", "vm", "Strain", "Stress",
                   "Green-Lagrange", "Piola-Kirchhoff", "Sxx", "Exy", "Svm", "Eyz",
                   "other", "xxyy", "zzxy"]
        for result in results:
            for coef in (np.sqrt(2), 1.0, 2.0):
                label = f"res{n}.{result}.{coef:.3f}"
                try:
                    res = mu.Result_strain_or_stress_field_e(
                        lambda g: g.field, groups, result, coef
                    )
                    digest(label, res)
                except BaseException as err:  # noqa: BLE001
                    print(f"{label}: raised {type(err).__name__}: {str(err)[:100]}")
        # the fields are rescaled in place by every call
        digest(f"res{n}.fields", [np.asarray(g.field) for g in groups])
    raises("res.type", mu.Result_strain_or_stress_field_e, lambda g: np.ones((2, 2, 3)),
           [1], "xx")
    raises("res.ndim", mu.Result_strain_or_stress_field_e,
           lambda g: FeArray.asfearray(np.ones((2, 2, 3, 3))), [1], "xx")
    raises("res.shape", mu.Result_strain_or_stress_field_e,
           lambda g: FeArray.asfearray(np.ones((2, 2, 4))), [1], "xx")

    section("Get_Pmat / Apply_Pmat")
    a1 = np.array([1.0, 2.0, 0.5])
    a2 = np.cross(a1, [0.3, -1.0, 2.0])
    a1_e = a1 + np.random.rand(Ne, 3)
    a2_e = np.cross(a1_e, [0.3, -1.0, 2.0])
    a1_e_pg = a1 + np.random.rand(Ne, nPg, 3)
    a2_e_pg = np.cross(a1_e_pg, [0.3, -1.0, 2.0])
    M6 = np.random.rand(6, 6)
    M6 = M6 + M6.T
    for label, x1, x2 in [("v", a1, a2), ("e", a1_e, a2_e), ("ep", a1_e_pg, a2_e_pg)]:
        P = mu.Get_Pmat(x1, x2)
        digest(f"P3.{label}", P)
        digest(f"PsPe3.{label}", mu.Get_Pmat(x1, x2, False))
        print(f"P3.{label}.flags C={P.flags.c_contiguous} F={P.flags.f_contiguous}")
        digest(f"apply3.{label}", mu.Apply_Pmat(P, M6))
        digest(f"apply3.{label}.inv", mu.Apply_Pmat(P, M6, False))
        digest(f"apply3.{label}.Mep", mu.Apply_Pmat(P, np.random.rand(Ne, nPg, 6, 6)))
    th = 0.3
    b1 = np.array([np.cos(th), np.sin(th)])
    b2 = np.array([-np.sin(th), np.cos(th)])
    th_e = np.linspace(0, 1, Ne)
    b1_e = np.stack([np.cos(th_e), np.sin(th_e)], -1) * 3
    b2_e = np.stack([-np.sin(th_e), np.cos(th_e)], -1) * 0.5
    th_ep = np.random.rand(Ne, nPg)
    b1_ep = np.stack([np.cos(th_ep), np.sin(th_ep)], -1)
    b2_ep = np.stack([-np.sin(th_ep), np.cos(th_ep)], -1) * 2
    M3 = np.random.rand(3, 3)
    for label, x1, x2 in [("v", b1, b2), ("e", b1_e, b2_e), ("ep", b1_ep, b2_ep)]:
        P = mu.Get_Pmat(x1, x2)
        digest(f"P2.{label}", P)
        digest(f"PsPe2.{label}", mu.Get_Pmat(x1, x2, False))
        digest(f"apply2.{label}", mu.Apply_Pmat(P, M3))
    digest("P.lists", mu.Get_Pmat([1, 0, 0], [0, 2, 0]))
    raises("P.perp", mu.Get_Pmat, a1, a1 + 1)
    raises("P.dim", mu.Get_Pmat, np.ones(4), np.ones(4))
    raises("P.shape", mu.Get_Pmat, a1_e, a2)
    raises("P.4d", mu.Get_Pmat, np.ones((2, 2, 2, 3)), np.ones((2, 2, 2, 3)))
    raises("apply.type", mu.Apply_Pmat, np.eye(6), [[1]])
    raises("apply.shape", mu.Apply_Pmat, np.eye(6), np.eye(3))

    section("Reshape_variable")
    digest("resh.scalar", mu.Reshape_variable(2.5, 3, 2))
    digest("resh.e", mu.Reshape_variable(np.arange(3.0), 3, 2))
    digest("resh.mat", mu.Reshape_variable(np.random.rand(3, 4, 4), 3, 2))


# ----------------------------------------------------------------------------
# Utilities._params and Utilities._cache
# ----------------------------------------------------------------------------


class Holder(_params.Updatable):
    def Need_Update(self, value=True):
        super().Need_Update(value)
        self.calls = getattr(self, "calls", 0) + 1

    def _check_even(self, value, scale=1):
        assert (value * scale) % 2 == 0, "must be even"

    b = _params.BoolParameter()
    s = _params.StringParameter()
    x = _params.ScalarParameter()
    f = _params.ScalarOrFieldParameter()
    p = _params.PositiveParameter()
    ps = _params.PositiveScalarParameter()
    n = _params.NegativeParameter()
    iv = _params.ParameterInValues(["a", "b"])
    cc = _params.IntervalccParameter(-1, 1)
    oo = _params.IntervalooParameter(-1, 1)
    vec = _params.VectorParameter()
    inst = _params.InstanceParameter(
        [_params._CheckIsScalar, functools.partialmethod(_check_even, scale=3)]
    )
    inst0 = _params.InstanceParameter()


def check_params():
    section("_params")
    h = Holder()
    print("needUpdate:", h.needUpdate)
    tries = {
        "b": [True, 1, "a"],
        "s": ["txt", 1],
        "x": [1, 2.5, np.float64(3), np.ones(2), "a"],
        "f": [1, np.ones(3), np.ones((2, 2)), np.ones((2, 2, 2)), [1, 2]],
        "p": [0, 3.0, np.array([1.0, 0.0]), np.array([1.0, -1.0]), -1, "a", None],
        "ps": [0, 2.0, np.ones(2), -1.0],
        "n": [0, -3.0, np.array([-1.0, 0.0]), np.array([1.0, -1.0]), 1, None],
        "iv": ["a", "c", 1],
        "cc": [0, -1, 1, 0.5, np.array([0.0, 0.9]), np.array([0.0, 1.0]), [0.1, 0.2],
               None],
        "oo": [0, -1, 1, 1.5, np.array([0.0, 1.0]), np.array([0.0, 1.1]), [-1, 1], None],
        "vec": [np.ones(3), np.ones((4, 3)), np.ones(2), [1, 2, 3]],
        "inst": [2, 4.0, 3, "a", np.ones(2)],
        "inst0": [object, None],
    }
    for name, values in tries.items():
        for value in values:
            label = f"{name}<-{value!r}".replace("\n", "")
            try:
                setattr(h, name, value)
                got = getattr(h, name)
                same = got is value
                print(f"{label}: ok get={got!r} same={same} calls={h.calls}".replace("\n", ""))
            except BaseException as err:  # noqa: BLE001
                print(f"{label}: raised {type(err).__name__}: {str(err)[:80]} calls={h.calls}")
    raises("inst.ctor", _params.InstanceParameter, [1])
    raises("inst.ctor2", _params.InstanceParameter, 3)
    raises("interval", _params._CheckIsInIntervalcc, 0, 1, 0)
    raises("base.checker", _params._Parameter()._checker, 1)
    h.Need_Update(False)
    print("needUpdate:", h.needUpdate)


class Cached:
    def __init__(self):
        self.count = 0

    @_cache.cache_computed_values
    def value(self, a, b=2):
        """doc"""
        self.count += 1
        return np.arange(4.0) * a + b

    @_cache.cache_computed_values
    def scalar(self, a):
        self.count += 1
        return a * 2

    @_cache.cache_computed_values
    def view(self, a):
        self.count += 1
        base = np.arange(6.0)
        base.flags.writeable = False
        return base


def check_cache():
    section("_cache")
    obj = Cached()
    r1 = obj.value(1)
    r2 = obj.value(1)
    r3 = obj.value(1, b=2)
    r4 = obj.value(1, 2)
    print("same:", r1 is r2, r1 is r3, r3 is r4, "count:", obj.count)
    print("writeable:", r1.flags.writeable, obj.view(1).flags.writeable)
    print("scalar:", obj.scalar(3), obj.scalar(3), obj.count)
    print("name/doc:", Cached.value.__name__, Cached.value.__doc__)
    print("cache attr:", _cache.CACH_NAME, hasattr(obj, _cache.CACH_NAME),
          sorted(str(k) for k in getattr(obj, _cache.CACH_NAME)))
    raises("unhashable", obj.value, [1, 2])
    other = Cached()
    _cache.clear_cached_computed_values(other)
    print("other has cache:", hasattr(other, _cache.CACH_NAME))
    _cache.clear_cached_computed_values(obj)
    print("cleared:", len(getattr(obj, _cache.CACH_NAME)))
    r5 = obj.value(1)
    print("recomputed:", r5 is r1, obj.count)
    digest("value", r5)


# ----------------------------------------------------------------------------
# Mesh
# ----------------------------------------------------------------------------


class Watcher(_IObserver):
    def __init__(self):
        self.events = []

    def _Update(self, observable, event):
        self.events.append(event)


def mesh_digest(label, mesh: Mesh):
    digest(f"{label}.coord", mesh.coord)
    for elemType, groupElem in mesh.dict_groupElem.items():
        digest(f"{label}.{elemType}.connect", groupElem.connect)
        digest(f"{label}.{elemType}.coord", groupElem.coord)
    print(f"{label}: Nn={mesh.Nn} Ne={mesh.Ne} dim={mesh.dim} inDim={mesh.inDim} "
          f"area={fmt(mesh.area)} center={[fmt(c) for c in mesh.center]}")


def check_mesh():
    section("Mesh transformations")
    mesher = Mesher()
    contour = Domain(Point(), Point(2, 1), 0.4)
    hole = Circle(Point(1, 0.5), 0.4, 0.2)
    meshes = {
        "tri3": mesher.Mesh_2D(contour, [hole], ElemType.TRI3),
        "quad8": mesher.Mesh_2D(contour, [], ElemType.QUAD8, isOrganised=True),
        "tetra4": mesher.Mesh_Extrude(contour, [], [0, 0, 1], [2], ElemType.TETRA4),
    }
    for name, mesh in meshes.items():
        watcher = Watcher()
        mesh._Add_observer(watcher)
        mesh_digest(f"{name}.0", mesh)
        mesh.Translate(0.5, -1.25, 2.0)
        mesh_digest(f"{name}.T", mesh)
        mesh.Translate()
        mesh.Rotate(33.0, (0.2, 0.1, 0.0), (1, 2, 3))
        mesh_digest(f"{name}.R", mesh)
        mesh.Rotate(-12.0)
        mesh.Symmetry((0.3, 0.2, 0.1), (1, -1, 0.5))
        mesh_digest(f"{name}.S", mesh)
        mesh.Symmetry()
        mesh_digest(f"{name}.S2", mesh)
        print(f"{name}.events:", watcher.events)

    section("Mesh.Merge")
    m1 = mesher.Mesh_2D(Domain(Point(), Point(1, 1), 0.5), [], ElemType.QUAD4,
                        isOrganised=True)
    m2 = mesher.Mesh_2D(Domain(Point(1, 0), Point(2, 1), 0.5), [], ElemType.QUAD4,
                        isOrganised=True)
    m3 = mesher.Mesh_2D(Domain(Point(0, 1), Point(2, 2), 0.5), [], ElemType.TRI3)
    for kwargs in [
        {},
        {"mergePoints": False},
        {"constructUniqueElements": False},
        {"mergePointsTol": 0.6},
    ]:
        for k, lst in enumerate([[m1, m2], [m1, m2, m3], [m1, m1.copy(), m2], [m3]]):
            merged, mapping = Mesh.Merge(lst, return_mapping=True, **kwargs)
            label = f"merge{k}.{sorted(kwargs.items())}"
            mesh_digest(label, merged)
            digest(f"{label}.map", mapping)
            print(f"{label}: same type without mapping:",
                  type(Mesh.Merge(lst, **kwargs)).__name__)
    raises("merge.empty", Mesh.Merge, [])

    section("Evaluate_dofsValues_at_coordinates")
    mixed = Mesh.Merge([m1, m2, m3])
    cases = {
        "quad4": m1,
        "tri3": meshes["tri3"].copy(),
        "quad8": mesher.Mesh_2D(contour, [], ElemType.QUAD8, isOrganised=True),
        "tri6": mesher.Mesh_2D(contour, [hole], ElemType.TRI6),
        "mixed": mixed,
        "tetra4": mesher.Mesh_Extrude(contour, [], [0, 0, 1], [2], ElemType.TETRA4),
        "hexa8": mesher.Mesh_Extrude(contour, [], [0, 0, 1], [2], ElemType.HEXA8,
                                     isOrganised=True),
    }
    for name, mesh in cases.items():
        coord = mesh.coord
        lo, hi = coord.min(0), coord.max(0)
        # random points, the mesh nodes (shared by several elements) and outside points
        pts = lo + (hi - lo) * np.random.rand(40, 3)
        pts = np.concatenate([pts, coord[:: max(1, mesh.Nn // 15)], hi + 1.0 + pts[:3]])
        if mesh.inDim < 3:
            pts[:, 2] = 0
        for dof_n in (1, 2, 3):
            dofs = np.sin(np.arange(mesh.Nn * dof_n) * 0.21) + np.repeat(
                coord[:, 0] ** 2 + coord[:, 1], dof_n
            )
            values = mesh.Evaluate_dofsValues_at_coordinates(pts, dofs)
            digest(f"eval.{name}.{dof_n}", values)
        if name != "mixed":
            elements = np.arange(0, mesh.groupElem.Ne, 2)
            values = mesh.Evaluate_dofsValues_at_coordinates(pts, dofs, elements)
            digest(f"eval.{name}.elements", values)
        values = mesh.Evaluate_dofsValues_at_coordinates(hi + 5.0 + pts[:4], dofs)
        digest(f"eval.{name}.outside", values)
    raises("eval.size", m1.Evaluate_dofsValues_at_coordinates, m1.coord, np.ones(7))
    raises("eval.vec", m1.Evaluate_dofsValues_at_coordinates, np.ones((3, 2)),
           np.ones(m1.Nn))


# ----------------------------------------------------------------------------
# Mesher: partitions
# ----------------------------------------------------------------------------


def get_partitions(Nproc, elemType, dim=2, meshSize=1.0, filled=False):
    mesher = Mesher()
    domain = Domain(Point(), Point(10, 6), meshSize)
    mesher._Init_gmsh("occ")
    factory = mesher._factory
    if dim == 2:
        inclusions = [Circle(Point(5, 3), 2.0, meshSize, isFilled=filled)]
        mesher._Surfaces(domain, inclusions)
        mesher._Organise_Surfaces(elemType, False, meshSize)
        mesher._Set_PhysicalGroups()
        mesher._Mesh_Generate(2, elemType)
    else:
        mesher._Surfaces(domain, [])
        mesher._Organise_Surfaces(elemType, False, meshSize)
        surfaces = [entity[1] for entity in factory.getEntities(2)]
        mesher._Extrude(surfaces=surfaces, extrude=[0, 0, 3], elemType=elemType, layers=[3])
        mesher._Set_PhysicalGroups()
        mesher._Mesh_Generate(3, elemType)
    return mesher._Mesh_Get_Meshes(Nproc)


def check_partitions():
    section("Partitions")
    for elemType, dim, filled in [
        (ElemType.TRI3, 2, False), (ElemType.TRI3, 2, True), (ElemType.QUAD4, 2, True),
        (ElemType.TRI6, 2, False), (ElemType.TETRA4, 3, False), (ElemType.PRISM6, 3, False),
    ]:
        for Nproc in (1, 2, 3, 5):
            try:
                parts = get_partitions(Nproc, elemType, dim, filled=filled)
            except BaseException as err:  # noqa: BLE001
                print(f"part.{elemType}.{filled}.{Nproc}: raised {type(err).__name__}: {err}")
                continue
            for rank, mesh in enumerate(parts):
                label = f"part.{elemType}.{filled}.{Nproc}.{rank}"
                print(f"{label}: Nn={mesh.Nn} Ne={mesh.Ne} "
                      f"types={[str(t) for t in mesh.dict_groupElem]}")
                for gType, groupElem in mesh.dict_groupElem.items():
                    digest(f"{label}.{gType}.connect", groupElem.connect)
                    digest(f"{label}.{gType}.coord", groupElem.coord)
                    digest(f"{label}.{gType}.nodes", groupElem.nodes)
                    data = groupElem._Get_partitioned_data()
                    print(f"{label}.{gType}.rank={data[0]}")
                    digest(f"{label}.{gType}.data", list(data[1:]))
                    tags = sorted(groupElem.nodeTags)
                    print(f"{label}.{gType}.tags={len(tags)}",
                          sum(int(groupElem.Get_Nodes_Tag(t).sum()) for t in tags))
                digest(f"{label}.owned", mesh._Get_mpi_owned_nodes())


if __name__ == "__main__":
    check_laws()
    check_utils()
    check_params()
    check_cache()
    check_mesh()
    check_partitions()
