"""Behaviour digest for the phase-field / hyperelastic refactoring.

Run as:  cd WORKTREE && PYTHONPATH=WORKTREE /venv/bin/python equiv.py

Prints norms / absolute sums (12 significant digits) of everything the refactored
code produces: hyperelastic kinematics and invariants, constitutive laws, the
non-linear operators, the phase-field splits and two small simulations.
The output must be identical before and after the refactoring.
"""

import contextlib
import io
import warnings

import numpy as np

from EasyFEA import AlgoType, ElemType, MatrixType, Models, Simulations, SolverType
from EasyFEA.FEM import FeArray, Operators
from EasyFEA.Geoms import Domain
from EasyFEA.Models.HyperElastic._state import HyperElasticState

warnings.filterwarnings("ignore")


def dig(name, value):
    """Prints a digest of `value` (array, scalar, list/tuple of arrays or None)."""
    if value is None:
        print(f"{name}: None")
    elif isinstance(value, (list, tuple)):
        print(f"{name}: {type(value).__name__}[{len(value)}]")
        for i, val in enumerate(value):
            dig(f"  {name}[{i}]", val)
    elif isinstance(value, str):
        print(f"{name}: {value!r}")
    else:
        arr = np.asarray(value)
        if arr.dtype == bool or np.issubdtype(arr.dtype, np.integer):
            print(f"{name}: {arr.dtype.kind}{arr.shape} sum={int(arr.sum())}")
        else:
            arr = arr.astype(float)
            nNan = int(np.isnan(arr).sum())
            if nNan > 0:
                name = f"{name} (nan x{nNan})"
                arr = np.nan_to_num(arr, nan=0.0)
            w = np.cos(np.arange(arr.size) * 0.7 + 0.3).reshape(arr.shape)
            print(
                f"{name}: {type(value).__name__}{arr.shape} "
                f"norm={np.linalg.norm(arr.ravel()):.11e} "
                f"abs={np.abs(arr).sum():.11e} "
                f"wsum={np.abs((arr * w).sum()):.11e}"
            )


def mesh_of(dim, elemType, n=2):
    size = 1.0 / n
    if dim == 2:
        return Domain((0, 0), (1, 1), size).Mesh_2D([], elemType, isOrganised=True)
    return Domain((0, 0), (1, 1), size).Mesh_Extrude(
        [], [0, 0, 1], [n], elemType, isOrganised=True
    )


# ------------------------------------------------------------------------------
# 1. hyperelastic state + laws + operators
# ------------------------------------------------------------------------------


def laws(dim, groupElem):
    nPg = groupElem.Get_gauss(MatrixType.rigi).nPg
    T1 = np.zeros((groupElem.Ne, nPg, 3))
    T1[..., 0], T1[..., 1] = 1.0, 0.4
    T2 = np.array([-0.3, 1.0, 0.2 if dim == 3 else 0.0])
    HE = Models.HyperElastic
    return {
        "NeoHookean": HE.NeoHookean(dim, K=2.0, thickness=1.3),
        "MooneyRivlin": HE.MooneyRivlin(dim, K1=0.5, K2=0.3, K=1.0, thickness=0.7),
        "CiarletGeymonat": HE.CiarletGeymonat(dim, K1=0.5, K2=0.3, K=1.1),
        "SaintVenantKirchhoff": HE.SaintVenantKirchhoff(
            dim, lmbda=1.2, mu=0.8, K=0.2, thickness=1.7
        ),
        "HolzapfelOgden": HE.HolzapfelOgden(
            dim,
            0.1,
            0.2,
            0.3,
            0.4,
            0.5,
            0.6,
            0.7,
            0.8,
            1.5,
            0.9,
            0.35,
            FeArray.asfearray(T1),
            T2,
            ks=10,
            thickness=0.9,
        ),
    }


def run_hyperelastic_kernels():
    print("=" * 30, "hyperelastic kernels")
    rng = np.random.default_rng(11)
    for dim, elemType in [
        (2, ElemType.QUAD4),
        (2, ElemType.TRI6),
        (3, ElemType.HEXA8),
        (3, ElemType.TETRA4),
    ]:
        mesh = mesh_of(dim, elemType)
        ge = mesh.groupElem
        tag = f"{dim}D/{elemType.name}"
        u_n = rng.standard_normal(mesh.Nn * dim) * 0.03
        u_np1 = u_n + rng.standard_normal(mesh.Nn * dim) * 0.03
        vel = rng.standard_normal(mesh.Nn * dim) * 0.5
        st = HyperElasticState(ge, u_np1, MatrixType.rigi)

        for name in [
            "Compute_F",
            "Compute_J",
            "Compute_C",
            "_Compute_C",
            "Compute_GreenLagrange",
            "Compute_Epsilon",
            "Compute_De",
            "Compute_I1",
            "Compute_dI1dC",
            "Compute_d2I1dC",
            "Compute_I2",
            "Compute_dI2dC",
            "Compute_d2I2dC",
            "Compute_I3",
            "Compute_dI3dC",
            "Compute_d2I3dC",
            "Compute_d2I4dC",
            "Compute_d2I6dC",
            "Compute_d2I8dC",
        ]:
            dig(f"{tag} state.{name}", getattr(st, name)())
        dig(f"{tag} state._GetDims", np.array(st._GetDims()))
        dig(f"{tag} state.Compute_Deta", st.Compute_Deta(vel))
        dig(f"{tag} state.Compute_Edot_vec", st.Compute_Edot_vec(vel))
        T1 = np.array([1.0, 0.5, 0.25]) / np.linalg.norm([1.0, 0.5, 0.25])
        T2 = np.array([0.0, 0.6, -0.8])
        dig(f"{tag} state.Compute_I4", st.Compute_I4(T1))
        dig(f"{tag} state.Compute_dI4dC", st.Compute_dI4dC(T1))
        dig(f"{tag} state.Compute_I6", st.Compute_I6(T2))
        dig(f"{tag} state.Compute_dI6dC", st.Compute_dI6dC(T2))
        dig(f"{tag} state.Compute_I8", st.Compute_I8(T1, T2))
        dig(f"{tag} state.Compute_dI8dC", st.Compute_dI8dC(T1, T2))
        vec6 = FeArray.asfearray(rng.standard_normal((ge.Ne, 2, 6)))
        mat66 = FeArray.asfearray(rng.standard_normal((ge.Ne, 2, 6, 6)))
        dig(f"{tag} state._Slice_Vector", st._Slice_Vector(vec6))
        dig(f"{tag} state._Slice_Matrix", st._Slice_Matrix(mat66))

        for lawName, mat in laws(dim, ge).items():
            ltag = f"{tag} {lawName}"
            s_n = HyperElasticState(ge, u_n, MatrixType.rigi)
            s_mid = HyperElasticState(ge, (u_n + u_np1) / 2, MatrixType.rigi)
            s_np1 = HyperElasticState(ge, u_np1, MatrixType.rigi)
            dig(f"{ltag} W", mat.Compute_W(s_np1))
            dig(f"{ltag} dWde", mat.Compute_dWde(s_np1))
            dig(f"{ltag} d2Wde", mat.Compute_d2Wde(s_np1))

            NL = Operators.NonLinear
            dig(f"{ltag} SPK", NL.SecondPiolaKirchhoffStressTensor(mat, s_np1))
            dig(f"{ltag} Gonzalez", NL.GonzalezStressTensor(mat, s_n, s_mid, s_np1))
            dig(
                f"{ltag} Gonzalez(noTangent)",
                NL.GonzalezStressTensor(mat, s_n, s_mid, s_np1, False),
            )
            if lawName in ["NeoHookean", "SaintVenantKirchhoff", "HolzapfelOgden"]:
                for nPoints in [1, 2, 3, 4, 5, 8, 9]:
                    dig(
                        f"{ltag} TimeQuad(n={nPoints})",
                        NL.TimeQuadratureStressTensor(
                            mat, s_n, s_mid, s_np1, 0.5, nPoints
                        ),
                    )
                dig(
                    f"{ltag} TimeQuad(hht)",
                    NL.TimeQuadratureStressTensor(mat, s_n, s_np1, s_np1, 0.9, 3),
                )
                # (the per-Gauss fibre field of HolzapfelOgden is not sliced by the adaptive path)
                adaptive = [(1e-2, 33), (1e-9, 33), (1e-12, 6)]
                for tol, maxPoints in adaptive if lawName != "HolzapfelOgden" else []:
                    dig(
                        f"{ltag} TimeQuad(tol={tol},max={maxPoints})",
                        NL.TimeQuadratureStressTensor(
                            mat, s_n, s_mid, s_np1, 0.5, 3, tol, maxPoints
                        ),
                    )

            # Kelvin-Voigt viscosity
            dig(f"{ltag} KV(eta=0)", NL.KelvinVoigtDamping(mat, s_np1, vel))
            mat.eta = 3.0
            dig(f"{ltag} KV(no velocity)", NL.KelvinVoigtDamping(mat, s_np1, None))
            dig(f"{ltag} KV", NL.KelvinVoigtDamping(mat, s_np1, vel))
            mat.eta = 0.0

            # active stress
            dig(f"{ltag} Active(off)", NL.ActiveStressTensor(mat, s_np1))
            nPg = ge.Get_gauss(MatrixType.rigi).nPg
            fibers = rng.standard_normal((ge.Ne, nPg, 3))
            mat.Set_active_stress_vec(FeArray.asfearray(fibers))
            for tau in [0.5, np.linspace(0.0, 2.0, ge.Ne), np.ones((ge.Ne, nPg)) * 0.3]:
                mat.active_stress = tau
                dig(f"{ltag} active_stress", mat.Compute_active_stress(s_np1))
                dig(f"{ltag} Active", NL.ActiveStressTensor(mat, s_np1))
            mat.active_stress = 0.0


def run_clenshaw_curtis():
    print("=" * 30, "clenshaw curtis")
    rule = getattr(Operators.NonLinear, "__clenshaw_curtis")
    for nPoints in [1, 2, 3, 4, 5, 6, 7, 8, 9, 12, 17, 33]:
        nodes, weights = rule(nPoints)
        dig(f"cc({nPoints}) nodes", np.array(nodes))
        dig(f"cc({nPoints}) weights", np.array(weights))


def run_surface_operators():
    print("=" * 30, "surface operators")
    rng = np.random.default_rng(5)
    NL = Operators.NonLinear
    mesh = mesh_of(3, ElemType.HEXA8)
    surf = mesh.Get_list_groupElem(2)[0]
    u = rng.standard_normal(mesh.Nn * 3) * 0.05
    dig("FollowingPressure", NL.FollowingPressure(surf, u, 2.5))
    dig("FollowingPressure(p=0)", NL.FollowingPressure(surf, u, 0.0))
    dig(
        "FollowingPressure(elements)",
        NL.FollowingPressure(surf, u, 1.5, elements=np.array([0, 3, 4])),
    )
    dig(
        "FollowingPressure(no elements)",
        NL.FollowingPressure(surf, u, 1.5, elements=np.array([], dtype=int)),
    )
    elements = np.array([1, 2, 5])
    nPg = surf.Get_gauss(MatrixType.mass).nPg
    gap = FeArray.asfearray(rng.standard_normal((elements.size, nPg)) * 0.1)
    normal = rng.standard_normal((elements.size, nPg, 3))
    normal = FeArray.asfearray(normal / np.linalg.norm(normal, axis=-1, keepdims=True))
    dig("PenaltyContact", NL.PenaltyContact(surf, 1e3, gap, normal, elements))
    dig("PenaltyContact(eps=0)", NL.PenaltyContact(surf, 0.0, gap, normal, elements))


# ------------------------------------------------------------------------------
# 2. phase-field model
# ------------------------------------------------------------------------------


def strain_field(dim, rng, Ne=7, nPg=3):
    """Random strains + degenerate points (zero strain, repeated eigenvalues)."""
    nComp = 3 if dim == 2 else 6
    eps = rng.standard_normal((Ne, nPg, nComp)) * 1e-3
    eps[0, 0] = 0.0  # zero strain
    eps[1, 0] = 0.0
    eps[1, 0, :dim] = 2e-4  # spherical tensor
    if dim == 3:
        eps[2, 0] = [3e-4, 3e-4, -1e-4, 0, 0, 0]  # two equal eigenvalues
        eps[3, 0] = [-2e-4, 5e-4, 5e-4, 0, 0, 0]
    else:
        eps[2, 0] = [3e-4, -1e-4, 0]
    eps[4] *= -1.0
    return FeArray.asfearray(eps)


def run_phasefield_model():
    print("=" * 30, "phase-field model")
    rng = np.random.default_rng(3)
    PF = Models.PhaseField
    El = Models.Elastic
    c = np.sqrt(2) / 2
    materials = {
        "Isot2D_PS": El.Isotropic(2, E=210e9, v=0.3, planeStress=True, thickness=0.5),
        "Isot2D_PE": El.Isotropic(2, E=210e9, v=0.3, planeStress=False),
        "Isot3D": El.Isotropic(3, E=210e9, v=0.3),
        "TransIsot3D": El.TransverselyIsotropic(
            3,
            El=11580,
            Et=500,
            Gl=450,
            vl=0.02,
            vt=0.44,
            axis_l=[c, c, 0],
            axis_t=[c, -c, 0],
        ),
        "TransIsot2D": El.TransverselyIsotropic(
            2, El=11580, Et=500, Gl=450, vl=0.02, vt=0.44, planeStress=True
        ),
    }
    isotSplits = [PF.SplitType.Amor, PF.SplitType.Miehe, PF.SplitType.Stress]
    for matName, mat in materials.items():
        Eps = strain_field(mat.dim, rng)
        EpsReg = FeArray.asfearray(rng.standard_normal(Eps.shape) * 1e-3)
        for split in PF.Get_splits():
            if not isinstance(mat, El.Isotropic) and split in isotSplits:
                try:
                    PF(mat, split, "AT1", 1.0, 0.1)
                except AssertionError as err:
                    print(f"{matName} {split}: AssertionError {err}")
                continue
            for regu in PF.Get_regularizations():
                pfm = PF(mat, split, regu, 2700.0, 0.05)
                tag = f"{matName} {split} {regu}"
                dig(f"{tag} Calc_C", pfm.Calc_C(Eps.copy()))
                # the verifications divide by the norms, so they get a regular field
                dig(f"{tag} Calc_C(verif)", pfm.Calc_C(EpsReg.copy(), verif=True))
                dig(f"{tag} Calc_Sigma", pfm.Calc_Sigma_e_pg(Eps.copy()))
                psiP, psiM = pfm.Calc_psi_e_pg(Eps.copy())
                dig(f"{tag} psi", (psiP, psiM))
                dig(f"{tag} r", pfm.Get_r_e_pg(psiP))
                dig(f"{tag} f", pfm.Get_f_e_pg(psiP))
                print(f"{tag} k={pfm.k:.11e} c_w={pfm.c_w:.11e}")
        pfm = PF(mat, "Bourdin", "AT2", 2700.0, 0.05)
        for field, verif in [(Eps, False), (EpsReg, True)]:
            vals, list_m, list_M = pfm._Eigen_values_vectors_projectors(
                field.copy(), verif
            )
            dig(f"{matName} eig values (verif={verif})", vals)
            dig(f"{matName} eig m (verif={verif})", list_m)
            dig(f"{matName} eig M (verif={verif})", list_M)

    # heterogeneous critical energy release rate
    mat = materials["Isot2D_PS"]
    Eps = strain_field(2, rng)
    Gc = np.linspace(1000.0, 3000.0, Eps.shape[0])
    for split in ["Bourdin", "Zhang", "AnisotStress", "He", "Miehe"]:
        for regu in ["AT1", "AT2"]:
            pfm = PF(mat, split, regu, Gc, 0.05)
            tag = f"heterogeneous {split} {regu}"
            dig(f"{tag} Calc_C", pfm.Calc_C(Eps.copy()))
            psiP, psiM = pfm.Calc_psi_e_pg(Eps.copy())
            dig(f"{tag} r", pfm.Get_r_e_pg(psiP))
            dig(f"{tag} f", pfm.Get_f_e_pg(psiP))
            dig(f"{tag} k", pfm.k)


# ------------------------------------------------------------------------------
# 3. simulations
# ------------------------------------------------------------------------------


def run_phasefield_simulation():
    print("=" * 30, "phase-field simulation")
    a = 1.0
    l0 = a / 8
    mesh2D = Domain((0, 0), (a, a), l0 / 2).Mesh_2D([], ElemType.TRI3, isOrganised=True)
    mesh3D = Domain((0, 0), (a, a), a / 3).Mesh_Extrude(
        [], [0, 0, a / 3], [1], ElemType.HEXA8, isOrganised=True
    )
    PF = Models.PhaseField
    configs = [
        (2, "Bourdin", "AT1", PF.SolverType.History, 0),
        (2, "Amor", "AT2", PF.SolverType.HistoryDamage, 1),
        (2, "Miehe", "AT2", PF.SolverType.History, 2),
        (2, "He", "AT1", PF.SolverType.BoundConstrain, 2),
        (2, "AnisotStress", "AT2", PF.SolverType.History, 3),
        (3, "Zhang", "AT2", PF.SolverType.HistoryDamage, 2),
        (3, "Miehe", "AT1", PF.SolverType.History, 0),
    ]
    for dim, split, regu, solver, convOption in configs:
        mesh = mesh2D if dim == 2 else mesh3D
        tag = f"{dim}D {split} {regu} {solver} conv{convOption}"
        material = Models.Elastic.Isotropic(
            dim, E=210000, v=0.3, planeStress=True, thickness=0.8
        )
        pfm = PF(material, split, regu, 2.7, l0, solver)
        simu = Simulations.PhaseField(mesh, pfm)
        simu.solver = SolverType.scipy
        nodes_0 = mesh.Nodes_Conditions(lambda x, y, z: x == 0)
        nodes_a = mesh.Nodes_Conditions(lambda x, y, z: x == a)
        unknowns = simu.Get_unknowns()
        for ud in np.linspace(0, 1.8e-2, 4):
            simu.Bc_Init()
            simu.add_dirichlet(nodes_0, [0] * dim, unknowns)
            simu.add_dirichlet(nodes_a, [ud], ["x"])
            u, d, converged = simu.Solve(
                tolConv=1e-1, maxIter=20, convOption=convOption
            )
            simu.Save_Iter()
            dig(f"{tag} ud={ud:.1e} u", u)
            dig(f"{tag} ud={ud:.1e} d", d)
            print(f"{tag} ud={ud:.1e} converged={bool(converged)}")
        dig(f"{tag} lb_ub(damage)", simu.Get_lb_ub(simu.ProblemTypes.damage))
        dig(f"{tag} lb_ub(elastic)", simu.Get_lb_ub(simu.ProblemTypes.elastic))
        dig(f"{tag} x0(damage)", simu.Get_x0(simu.ProblemTypes.damage))
        dig(f"{tag} x0(elastic)", simu.Get_x0())
        print(
            f"{tag} Psi_Elas={simu._Calc_Psi_Elas():.11e} Psi_Crack={simu._Calc_Psi_Crack():.11e} "
            f"Psi_Ext={simu._Calc_Psi_Ext(np.ones_like(simu.displacement)):.11e}"
        )
        for key, val in simu.Results_dict_Energy().items():
            print(f"{tag} energy {key} = {val:.11e}")
        results = [
            "damage",
            "psiP",
            "Psi_Crack",
            "Wdef",
            "Svm",
            "Evm",
            "Stress",
            "Strain",
            "displacement",
            "displacement_norm",
            "displacement_matrix",
            "ux",
            "uy",
            "Sxx",
            "Sxy",
            "Eyy",
        ]
        if dim == 3:
            results += ["uz", "Szz", "Eyz"]
        for result in results:
            dig(f"{tag} Result({result})", simu.Result(result))
            if result not in ["Psi_Crack", "Wdef"]:
                dig(
                    f"{tag} Result({result}, elem)",
                    simu.Result(result, nodeValues=False),
                )
        iterations, labels = simu.Results_Iter_Summary()
        print(f"{tag} iterations={iterations}")
        for label, values in labels:
            if label != "time":
                dig(f"{tag} summary {label}", values)
        simu.Set_Iter(1, resetAll=True)
        dig(f"{tag} Set_Iter(1) psiP", simu.Result("psiP", nodeValues=False))
        dig(f"{tag} Set_Iter(1) damage", simu.damage)
        print(f"{tag} nodeFields={simu.Results_nodeFields_elementFields(True)}")
        print(f"{tag} unknowns d={simu.Get_unknowns(simu.ProblemTypes.damage)}")


def run_hyperelastic_simulation():
    print("=" * 30, "hyperelastic simulation")
    L, h = 40.0, 10.0
    HE = Simulations.HyperElastic
    for dim in [2, 3]:
        if dim == 2:
            mesh = Domain((0, 0), (L, h), h / 2).Mesh_2D(
                [], ElemType.QUAD4, isOrganised=True
            )
        else:
            mesh = Domain((0, 0), (L, h), h).Mesh_Extrude(
                [], [0, 0, h], [1], ElemType.HEXA8, isOrganised=True
            )
        n0 = mesh.Nodes_Conditions(lambda x, y, z: x == 0)
        nL = mesh.Nodes_Conditions(lambda x, y, z: x == L)
        configs = [
            ("pointwise", AlgoType.newmark, {}, 0.0, 0.0),
            ("pointwise", AlgoType.midpoint, {}, 50.0, 30.0),
            ("gonzalez", AlgoType.midpoint, {}, 0.0, 0.0),
            ("gonzalez", AlgoType.midpoint, {"useConsistentTangent": False}, 0.0, 0.0),
            ("quadrature", AlgoType.midpoint, {"nPoints": 3}, 0.0, 0.0),
            ("quadrature", AlgoType.hht, {"nPoints": 4}, 20.0, 0.0),
            ("quadrature", AlgoType.midpoint, {"energyTol": 1e-6}, 0.0, 10.0),
        ]
        for stress, algo, kwargs, eta, tau in configs:
            tag = f"{dim}D {stress} {algo} {kwargs} eta={eta} tau={tau}"
            mat = Models.HyperElastic.NeoHookean(dim, K=5.0e4, thickness=1.5)
            simu = HE(mesh, mat, absTol=1e-4, verbosity=False)
            simu.solver = SolverType.scipy
            simu.rho = 2.0
            unknowns = simu.Get_unknowns()
            simu.add_dirichlet(n0, [0] * dim, unknowns)
            simu.add_dirichlet(nL, [-h / 4], ["y"])
            # the Newton log prints round-off sized residual norms: keep it out of the digest
            with contextlib.redirect_stdout(io.StringIO()):
                simu.Solve()
                simu.Save_Iter()
            dig(f"{tag} static u", simu.displacement)
            print(f"{tag} static W={simu._Calc_W():.11e}")

            simu.Bc_Init()
            simu.Solver_Set_Hyperbolic_Algorithm(0.05, algo=algo)
            simu.Solver_Set_Stress(stress, **kwargs)
            print(f"{tag} stressType={simu.stressType}")
            mat.eta = eta
            if tau != 0.0:
                ge = mesh.groupElem
                nPg = ge.Get_gauss(MatrixType.rigi).nPg
                fibers = np.zeros((ge.Ne, nPg, 3))
                fibers[..., 0], fibers[..., 1] = 1.0, 0.2
                mat.Set_active_stress_vec(FeArray.asfearray(fibers))
                mat.active_stress = tau
            simu.add_dirichlet(n0, [0] * dim, unknowns)
            with contextlib.redirect_stdout(io.StringIO()):
                for _ in range(3):
                    simu.Solve()
                    simu.Save_Iter()
            dig(f"{tag} u", simu.displacement)
            dig(f"{tag} v", simu.speed)
            dig(f"{tag} a", simu.accel)
            dig(f"{tag} K_C_M_F", [m.toarray() for m in simu.Get_K_C_M_F()])
            results = simu.Get_results(-1)
            dig(f"{tag} nPts_e", results.get("nPts_e"))
            names = [
                "W",
                "W_e",
                "Svm",
                "Evm",
                "Piola-Kirchhoff",
                "Green-Lagrange",
                "displacement",
                "displacement_norm",
                "displacement_matrix",
                "speed",
                "speed_norm",
                "accel",
                "accel_norm",
                "ux",
                "uy",
                "vx",
                "vy",
                "ax",
                "ay",
                "Sxx",
                "Sxy",
                "Exx",
                "Eyy",
            ]
            if dim == 3:
                names += ["uz", "vz", "az", "Szz", "Eyz"]
            for name in names:
                dig(f"{tag} Result({name})", simu.Result(name))
                if name not in ["W"]:
                    dig(
                        f"{tag} Result({name}, elem)",
                        simu.Result(name, nodeValues=False),
                    )
            dig(f"{tag} GreenLagrange", simu._Calc_GreenLagrange())
            dig(f"{tag} PK2", simu._Calc_SecondPiolaKirchhoff())
            print(f"{tag} available={simu.Results_Available()}")
            print(f"{tag} fields={simu.Results_nodeFields_elementFields(True)}")
            simu.Set_Iter(0)
            dig(f"{tag} Set_Iter(0) u", simu.displacement)
            dig(f"{tag} Set_Iter(0) v", simu.speed)

        # invalid configurations keep raising the same errors
        mat = Models.HyperElastic.NeoHookean(dim, K=5.0e4)
        simu = HE(mesh, mat)
        for call in [
            lambda: simu.Solver_Set_Stress("gonzalez"),
            lambda: simu.Solver_Set_Stress("quadrature", nPoints=0),
            lambda: simu.Results_Iter_Summary(),
        ]:
            try:
                call()
                print(f"{dim}D no error")
            except Exception as err:
                print(f"{dim}D {type(err).__name__}: {str(err)[:60]}")
        simu.Solver_Set_Stress("quadrature")
        simu.add_dirichlet(n0, [0] * dim, simu.Get_unknowns())
        try:
            with contextlib.redirect_stdout(io.StringIO()):
                simu.Solve()
        except AssertionError as err:
            print(f"{dim}D AssertionError: {str(err)[:60]}")


if __name__ == "__main__":
    np.set_printoptions(precision=11)
    run_clenshaw_curtis()
    run_hyperelastic_kernels()
    run_surface_operators()
    run_phasefield_model()
    run_phasefield_simulation()
    run_hyperelastic_simulation()
