"""Behaviour digest for the `_simu.py` refactoring.

Run as `cd WORKTREE && PYTHONPATH=WORKTREE /venv/bin/python equiv.py`.
Prints norms / sums (12 significant digits) of assembled matrices, boundary-condition vectors,
time-scheme states, stored iterations and mesh bookkeeping. The output must be the same before
and after the refactoring (up to 1e-12 relative).
"""

import os
import shutil
import tempfile

import numpy as np
from scipy import sparse

from EasyFEA import Models, Simulations, Mesher, ElemType
from EasyFEA.Geoms import Domain, Point, Line
from EasyFEA import AlgoType
from EasyFEA.Simulations.Solvers import SolverType


def fmt(x) -> str:
    if x is None:
        return "None"
    if sparse.issparse(x):
        x = x.toarray()
    x = np.asarray(x)
    if x.dtype == bool:
        x = x.astype(int)
    if x.size == 0:
        return f"empty{x.shape}"
    if x.ndim == 0:
        return f"{float(x):.12g}"
    xf = x.astype(float).ravel()
    w = np.cos(np.arange(xf.size) * 0.37 + 0.11)  # position-sensitive weight
    return f"shape={x.shape} sum={xf.sum():.12g} l2={np.linalg.norm(xf):.12g} w={xf @ w:.12g}"


def show(label: str, x) -> None:
    print(f"{label:<44s} {fmt(x)}")


def show_bc(simu, tag: str, problemType=None) -> None:
    show(f"{tag} dofs_D", simu.Bc_dofs_Dirichlet(problemType))
    show(f"{tag} vals_D", simu.Bc_values_Dirichlet(problemType))
    show(f"{tag} dofs_N", simu.Bc_dofs_Neumann(problemType))
    show(f"{tag} vals_N", simu.Bc_values_Neumann(problemType))
    show(f"{tag} vect_D", simu.Bc_vector_Dirichlet(problemType))
    show(f"{tag} vect_N", simu.Bc_vector_Neumann(problemType))
    for i, bc in enumerate(simu.Bc_Neuman):
        show(f"{tag} bcN[{i}].nodes", bc.nodes)
    pt = simu.problemType if problemType is None else problemType
    known, unknown = simu.Bc_dofs_known_unknown(pt)
    show(f"{tag} known", known)
    show(f"{tag} unknown", unknown)


def show_system(simu, tag: str, problemType=None) -> None:
    K, C, M, F = simu.Get_K_C_M_F(problemType)
    for name, X in zip("KCMF", (K, C, M, F)):
        show(f"{tag} {name}", X)
        print(
            f"{tag} {name} nnz={X.nnz} canonical={bool(X.has_canonical_format)} shape={X.shape}"
        )


# ------------------------------------------------------------------
# 1. boundary conditions and load integration, 2D
# ------------------------------------------------------------------
def case_loads_2d() -> None:
    print("\n# loads 2D")
    L, h = 2.0, 1.0
    for elemType in (ElemType.TRI3, ElemType.QUAD8, ElemType.TRI6):
        mesh = Domain(Point(), Point(L, h), h / 3).Mesh_2D([], elemType)
        mat = Models.Elastic.Isotropic(2, E=210e3, v=0.3, planeStress=True, thickness=0.4)
        simu = Simulations.Elastic(mesh, mat, verbosity=False)
        simu.solver = SolverType.scipy
        tag = f"2D {elemType}"

        n0 = mesh.Nodes_Conditions(lambda x, y, z: x == 0)
        nL = mesh.Nodes_Conditions(lambda x, y, z: x == L)
        nT = mesh.Nodes_Conditions(lambda x, y, z: y == h)
        nP = mesh.Nodes_Point(Point(L, h))

        simu.add_dirichlet(n0, [0, lambda x, y, z: 1e-3 * y], ["x", "y"])
        simu.add_dirichlet(n0[:2], [2e-3], ["y"])  # duplicated dofs
        simu.add_surfLoad(nL, [-8.0], ["y"])
        simu.add_lineLoad(nT, [lambda x, y, z: 3 * x + y, 1.5], ["y", "x"])
        simu.add_volumeLoad(mesh.nodes, [np.linspace(-1, 1, mesh.Nn)], ["y"])
        simu.add_lineLoad(nT, [np.linspace(0, 2, nT.size)], ["x"])
        simu.add_neumann(nP, [10.0, lambda x, y, z: x - y], ["x", "y"])
        simu.add_neumann(nL, [np.arange(nL.size) * 0.5], ["x"])
        simu.add_pressureLoad(nT, 4.0)
        # inputs that must be ignored / rejected
        simu.add_neumann(np.array([], dtype=int), [1.0], ["x"])
        simu.add_surfLoad(nL, [], [])
        try:
            simu.add_surfLoad(nL, [1.0, 2.0], ["x"])
        except AssertionError as err:
            print(tag, "AssertionError:", err)
        try:
            simu.add_lineLoad(nL, [1.0], ["t"])
        except AssertionError as err:
            print(tag, "AssertionError:", err)

        show_bc(simu, tag)
        show_system(simu, tag)
        u = simu.Solve()
        show(f"{tag} u", u)
        show(f"{tag} reaction", simu.Calc_Reaction(simu.Bc_dofs_nodes(n0, ["x", "y"])))
        K = simu.Get_K_C_M_F()[0]
        show(f"{tag} energy", simu.Calc_Energy(K, u))
        show(f"{tag} Get_dofs", simu.Get_dofs())
        simu.Bc_Init()
        show(f"{tag} after Bc_Init vect_N", simu.Bc_vector_Neumann())
        show(f"{tag} after Bc_Init vect_D", simu.Bc_vector_Dirichlet())


# ------------------------------------------------------------------
# 2. boundary conditions and load integration, 3D
# ------------------------------------------------------------------
def case_loads_3d() -> None:
    print("\n# loads 3D")
    L, h = 2.0, 1.0
    for elemType in (ElemType.TETRA4, ElemType.HEXA8, ElemType.PRISM6):
        mesh = Domain(Point(), Point(L, h), h / 2).Mesh_Extrude(
            [], [0, 0, h], [2], elemType
        )
        mat = Models.Elastic.Isotropic(3, E=210e3, v=0.3)
        simu = Simulations.Elastic(mesh, mat, verbosity=False)
        simu.solver = SolverType.scipy
        tag = f"3D {elemType}"

        n0 = mesh.Nodes_Conditions(lambda x, y, z: x == 0)
        nL = mesh.Nodes_Conditions(lambda x, y, z: x == L)
        nT = mesh.Nodes_Conditions(lambda x, y, z: y == h)
        nE = mesh.Nodes_Conditions(lambda x, y, z: (x == L) & (y == h))

        simu.add_dirichlet(n0, [0, 0, lambda x, y, z: 1e-3 * y * z], ["x", "y", "z"])
        simu.add_surfLoad(nL, [-8.0, lambda x, y, z: y * z], ["y", "z"])
        simu.add_surfLoad(nT, [np.linspace(1, 2, nT.size)], ["x"])
        simu.add_lineLoad(nE, [5.0], ["z"])
        simu.add_volumeLoad(mesh.nodes, [lambda x, y, z: -x * 9.81, 2], ["y", "x"])
        simu.add_pressureLoad(nT, -3.0)
        simu.add_neumann(nE, [1.0], ["x"])

        show_bc(simu, tag)
        show_system(simu, tag)
        u = simu.Solve()
        show(f"{tag} u", u)
        show(f"{tag} reaction", simu.Calc_Reaction(simu.Bc_dofs_nodes(n0, ["x"])))


# ------------------------------------------------------------------
# 3. time schemes, linear
# ------------------------------------------------------------------
def case_time_schemes() -> None:
    print("\n# time schemes (linear elastic)")
    L, h = 4.0, 1.0
    mesh = Domain(Point(), Point(L, h), h / 2).Mesh_2D([], ElemType.QUAD4, isOrganised=True)
    n0 = mesh.Nodes_Conditions(lambda x, y, z: x == 0)
    nL = mesh.Nodes_Conditions(lambda x, y, z: x == L)

    algos = [
        (AlgoType.newmark, {}),
        (AlgoType.newmark, dict(beta=0.3, gamma=0.6)),
        (AlgoType.hht, dict(alpha=0.1, beta=0.3025, gamma=0.6)),
        (AlgoType.midpoint, {}),
        (AlgoType.hht_newmark, dict(alpha=1 / 6)),
        (AlgoType.euler_implicit, {}),
        (AlgoType.euler_explicit, {}),
    ]
    for algo, kwargs in algos:
        mat = Models.Elastic.Isotropic(2, E=1e4, v=0.3, planeStress=True, thickness=0.5)
        simu = Simulations.Elastic(mesh, mat, verbosity=False)
        simu.solver = SolverType.scipy
        simu.rho = 2.0
        simu.Set_Rayleigh_Damping_Coefs(1e-3, 1e-3)
        tag = f"{algo} {sorted(kwargs.items())}"

        # static preload
        simu.add_dirichlet(n0, [0, 0], ["x", "y"])
        simu.add_surfLoad(nL, [-2.0], ["y"])
        simu.Solve()
        simu.Save_Iter()

        simu.Bc_Init()
        dt = 1e-4 if algo == AlgoType.euler_explicit else 5e-2
        simu.Solver_Set_Hyperbolic_Algorithm(dt, algo=algo, **kwargs)
        simu.add_dirichlet(n0, [0, 0], ["x", "y"])
        simu.add_lineLoad(nL, [0.3], ["x"])
        print(tag, "coefs", ["%.12g" % c for c in simu._Solver_Get_K_C_M_coefs_for_time_scheme()])
        pt = simu.problemType
        for step in range(4):
            simu.Solve()
            simu.Save_Iter()
        show(f"{tag} u", simu._Get_u_n(pt))
        show(f"{tag} v", simu._Get_v_n(pt))
        show(f"{tag} a", simu._Get_a_n(pt))
        show(f"{tag} b", simu._Solver_Apply_Neumann(pt))
        show(f"{tag} u csr", simu._Get_u_n(pt, asCsrMatrix=True))
        show(f"{tag} v csr", simu._Get_v_n(pt, asCsrMatrix=True))
        show(f"{tag} a csr", simu._Get_a_n(pt, asCsrMatrix=True))
        u_np1 = simu._Get_u_n(pt) * 1.01 + 1e-5
        for name, x in zip(
            ("u_t", "v_t", "a_t"), simu._Solver_Evaluate_u_v_a_for_time_scheme(pt, u_np1)
        ):
            show(f"{tag} eval {name}", x)
        for name, x in zip(("u", "v", "a"), simu._Solver_Update_solutions(pt, u_np1)):
            show(f"{tag} update {name}", x)
        show(f"{tag} reaction", simu.Calc_Reaction(simu.Bc_dofs_nodes(n0, ["x", "y"])))
        res = simu.Set_Iter(2)
        show(f"{tag} Set_Iter(2) u", simu._Get_u_n(pt))
        print(tag, "iter keys", sorted(res.keys()))

    print("\n# time schemes (thermal, parabolic)")
    mesh = Domain(Point(), Point(1, 1), 1 / 4).Mesh_2D([], ElemType.TRI3)
    for alpha in (0.5, 1.0):
        simu = Simulations.Thermal(mesh, Models.Thermal(k=2.0, c=3.0, thickness=0.7), verbosity=False)
        simu.solver = SolverType.scipy
        simu.rho = 1.5
        nl = mesh.Nodes_Conditions(lambda x, y, z: x == 0)
        nr = mesh.Nodes_Conditions(lambda x, y, z: x == 1)
        simu.Solver_Set_Parabolic_Algorithm(dt=0.05, alpha=alpha)
        simu.add_dirichlet(nl, [lambda x, y, z: 10 * y], ["t"])
        simu.add_surfLoad(nr, [4.0], ["t"])
        simu.add_volumeLoad(mesh.nodes, [lambda x, y, z: x * y], ["t"])
        tag = f"parabolic alpha={alpha}"
        print(tag, "coefs", ["%.12g" % c for c in simu._Solver_Get_K_C_M_coefs_for_time_scheme()])
        for step in range(3):
            simu.Solve()
            simu.Save_Iter()
        pt = simu.problemType
        show_system(simu, tag)
        show(f"{tag} u", simu._Get_u_n(pt))
        show(f"{tag} v", simu._Get_v_n(pt))
        show(f"{tag} b", simu._Solver_Apply_Neumann(pt))
        u_np1 = simu._Get_u_n(pt) * 0.9 + 0.2
        for name, x in zip(
            ("u_t", "v_t", "a_t"), simu._Solver_Evaluate_u_v_a_for_time_scheme(pt, u_np1)
        ):
            show(f"{tag} eval {name}", x)
        for name, x in zip(("u", "v", "a"), simu._Solver_Update_solutions(pt, u_np1)):
            show(f"{tag} update {name}", x)
        show(f"{tag} reaction", simu.Calc_Reaction(simu.Bc_dofs_nodes(nl, ["t"])))


# ------------------------------------------------------------------
# 4. non-linear time stepping
# ------------------------------------------------------------------
def case_hyperelastic() -> None:
    print("\n# hyperelastic Newton + time schemes")
    L, h = 6.0, 1.0
    mesh = Domain((0, 0), (L, h), h / 2).Mesh_2D([], ElemType.QUAD4, isOrganised=True)
    n0 = mesh.Nodes_Conditions(lambda x, y, z: x == 0)
    nL = mesh.Nodes_Conditions(lambda x, y, z: x == L)
    for algo in (AlgoType.newmark, AlgoType.midpoint, AlgoType.hht, AlgoType.hht_newmark):
        mat = Models.HyperElastic.NeoHookean(2, K=5.0e4)
        simu = Simulations.HyperElastic(mesh, mat, absTol=1e-6, verbosity=False)
        simu.solver = SolverType.scipy
        simu.add_dirichlet(n0, [0, 0], simu.Get_unknowns())
        simu.add_dirichlet(nL, [-h / 10], ["y"])
        simu.add_dirichlet(nL[:1], [0.0], ["y"])  # duplicated dof
        simu.Solve()
        simu.Save_Iter()
        tag = f"hyper {algo}"
        show(f"{tag} static u", simu._Get_u_n(simu.problemType))
        simu.Bc_Init()
        simu.Solver_Set_Hyperbolic_Algorithm(0.05, algo=algo, alpha=0.1)
        simu.add_dirichlet(n0, [0, 0], simu.Get_unknowns())
        simu.add_surfLoad(nL, [1.0], ["x"])
        for _ in range(2):
            simu.Solve()
            simu.Save_Iter()
        pt = simu.problemType
        show(f"{tag} u", simu._Get_u_n(pt))
        show(f"{tag} v", simu._Get_v_n(pt))
        show(f"{tag} a", simu._Get_a_n(pt))
        res = simu.Get_results(-1)
        print(tag, "newtonIter", res["newtonIter"], "keys", sorted(res.keys()))
        show(f"{tag} list_norm_r", np.asarray(res["list_norm_r"]))
        try:
            simu.Calc_Reaction()
        except NotImplementedError:
            print(tag, "Calc_Reaction -> NotImplementedError")


# ------------------------------------------------------------------
# 5. Lagrange multipliers (beam) and the (Ndof, 1) solution vectors
# ------------------------------------------------------------------
def case_beam_lagrange() -> None:
    print("\n# beam with Lagrange conditions")
    L, b, h = 10.0, 0.5, 0.5
    mesher = Mesher()
    section = mesher.Mesh_2D(Domain(Point(-b / 2, -h / 2), Point(b / 2, h / 2)))
    line1 = Line(Point(0, 0), Point(L, 0), L / 5)
    line2 = Line(Point(L, 0), Point(L, L), L / 5)
    beam1 = Models.Beam.Isotropic(2, line1, section, 210e9, 0.3)
    beam2 = Models.Beam.Isotropic(2, line2, section, 210e9, 0.3)
    mesh = mesher.Mesh_Beams([beam1, beam2], elemType=ElemType.SEG3)
    structure = Models.Beam.BeamStructure([beam1, beam2])
    simu = Simulations.Beam(mesh, structure, verbosity=False)
    simu.solver = SolverType.scipy
    clamp = simu.mesh.Nodes_Point(Point(0, 0))
    corner = simu.mesh.Nodes_Point(Point(L, 0))
    tip = simu.mesh.Nodes_Point(Point(L, L))
    simu.add_dirichlet(clamp, [0, 0, 0], ["x", "y", "rz"])
    simu.add_connection_fixed(corner)
    simu.add_neumann(tip, [1000.0], ["x"])
    simu.add_lineLoad(simu.mesh.nodes, [lambda x, y, z: -50 * x], ["y"])
    pt = simu.problemType
    print("beam Lagrange dim", simu._Bc_Lagrange_dim(pt), "nBcLagrange", len(simu.Bc_Lagrange))
    show_bc(simu, "beam")
    show_system(simu, "beam")
    show("beam u", simu.Solve())
    show("beam u csr", simu._Get_u_n(pt, asCsrMatrix=True))
    show("beam b", simu._Solver_Apply_Neumann(pt))
    simu.Bc_Init()
    print("beam needUpdate after Bc_Init", simu.needUpdate, "Lagrange dim", simu._Bc_Lagrange_dim(pt))
    show_system(simu, "beam no lagrange")


# ------------------------------------------------------------------
# 6. iterations, mesh history, observers
# ------------------------------------------------------------------
def case_iterations_and_meshes() -> None:
    print("\n# Save_Iter / Set_Iter / Get_results / mesh setter / observers")
    folder = os.path.join(tempfile.gettempdir(), "equiv_simu_R2")  # fixed name: the path is printed by Save
    shutil.rmtree(folder, ignore_errors=True)
    os.makedirs(folder)
    try:
        mesh0 = Domain(Point(), Point(1, 1), 1 / 2).Mesh_2D([], ElemType.TRI3)
        mesh1 = Domain(Point(), Point(1, 1), 1 / 3).Mesh_2D([], ElemType.QUAD4)
        mat = Models.Elastic.Isotropic(2, E=100.0, v=0.25, planeStress=False, thickness=1.0)
        simu = Simulations.Elastic(mesh0, mat, verbosity=False)
        simu.solver = SolverType.scipy

        def load_and_solve(factor: float):
            mesh = simu.mesh
            simu.Bc_Init()
            simu.add_dirichlet(mesh.Nodes_Conditions(lambda x, y, z: x == 0), [0, 0], ["x", "y"])
            simu.add_surfLoad(mesh.Nodes_Conditions(lambda x, y, z: x == 1), [factor], ["x"])
            return simu.Solve()

        load_and_solve(1.0)
        simu.Save_Iter({"custom": 3})  # in memory
        simu.folder = os.path.join(folder, "run")
        load_and_solve(2.0)
        user = {"custom": 4}
        simu.Save_Iter(user)  # on disk
        print("user dict after Save_Iter", sorted(user))

        simu.mesh = mesh1
        print("after mesh setter: Nmesh", simu.Nmesh, "needUpdate", simu.needUpdate,
              "nD", len(simu.Bc_Dirichlet), "nN", len(simu.Bc_Neuman))
        show("after mesh setter u", simu._Get_u_n(simu.problemType))
        load_and_solve(3.0)
        simu.Save_Iter()
        simu.folder = ""
        load_and_solve(4.0)
        simu.Save_Iter()
        print("Niter", simu.Niter, "files", sorted(os.listdir(os.path.join(folder, "run", "Results"))))

        for i in (0, 1, 2, 3, -1, -4):
            res = simu.Get_results(i)
            print("Get_results", i, sorted(res.keys()), "indexMesh", res["indexMesh"],
                  res.get("custom"))
            show(f"Get_results({i}) displacement", res["displacement"])
        for bad in (4, -5):
            try:
                simu.Get_results(bad)
            except AssertionError as err:
                print("Get_results", bad, "AssertionError:", err)

        # a returned in-memory dict is a copy
        res = simu.Get_results(0)
        res["indexMesh"] = 99
        print("stored indexMesh", simu.Get_results(0)["indexMesh"])

        for i in (0, 2, 1, 3):
            simu.Need_Update(False)
            simu.Set_Iter(i)
            print("Set_Iter", i, "Nn", simu.mesh.Nn, "needUpdate", simu.needUpdate)
            show(f"Set_Iter({i}) u", simu._Get_u_n(simu.problemType))
            show(f"Set_Iter({i}) Svm", simu.Result("Svm"))
            show_system(simu, f"Set_Iter({i})")

        # observers: model and mesh
        simu.Need_Update(False)
        mat.E = 120.0
        print("needUpdate after model change", simu.needUpdate)
        simu.Need_Update(False)
        simu.mesh.Translate(dx=0.5)
        print("needUpdate after mesh change", simu.needUpdate)
        show_system(simu, "after observers")
        try:
            simu.mesh.Translate(dz=1.0)
        except AssertionError as err:
            print("Translate dz AssertionError:", err)

        # Save / Load round trip keeps the mesh history and the iterations
        simu.Save(os.path.join(folder, "saved"))
        loaded = Simulations.Load_Simu(os.path.join(folder, "saved"))
        print("loaded Niter", loaded.Niter, "Nmesh", loaded.Nmesh)
        for i in range(loaded.Niter):
            loaded.Set_Iter(i)
            show(f"loaded Set_Iter({i}) u", loaded._Get_u_n(loaded.problemType))
            print("loaded Nn", loaded.mesh.Nn)
    finally:
        shutil.rmtree(folder, ignore_errors=True)


# ------------------------------------------------------------------
# 7. assembly reuse (CSR map cache) and several problem types
# ------------------------------------------------------------------
def case_assembly_cache() -> None:
    print("\n# assembly reuse")
    mesh = Domain(Point(), Point(1, 1), 1 / 3).Mesh_2D([], ElemType.TRI6)
    mat = Models.Elastic.Isotropic(2, E=50.0, v=0.2, planeStress=True, thickness=1.0)
    simu = Simulations.Elastic(mesh, mat, verbosity=False)
    for E in (50.0, 75.0, 30.0):
        mat.E = E
        show_system(simu, f"E={E}")
    K1, C1, M1, F1 = simu.Assembly(simu.problemType)
    K2, C2, M2, F2 = simu.Assembly(simu.problemType)
    print("same pattern", np.array_equal(K1.indices, K2.indices), np.array_equal(K1.indptr, K2.indptr))
    show("K1-K2", abs(K1 - K2).sum())

    pf = Simulations.PhaseField(mesh, Models.PhaseField(mat, "He", "AT2", Gc=1.0, l0=0.1), verbosity=False)
    for pt in pf.Get_problemTypes():
        K, C, M, F = pf.Assembly(pt)
        for name, X in zip("KCMF", (K, C, M, F)):
            show(f"phasefield {pt} {name}", X)
            print(f"phasefield {pt} {name} nnz={X.nnz} shape={X.shape}")


if __name__ == "__main__":
    np.set_printoptions(precision=12)
    case_loads_2d()
    case_loads_3d()
    case_time_schemes()
    case_hyperelastic()
    case_beam_lagrange()
    case_iterations_and_meshes()
    case_assembly_cache()
