"""Deterministic equivalence program for the R10 refactoring.

Exercises the Gauss factories, the SEG / TRI (and other) shape-function tables, the Mesh
transformations / Merge / Get_normals / Evaluate_dofsValues_at_coordinates and the mesh
partitioner, plus a few simulations. Every number is printed with repr() so that the output
is byte-identical before and after the refactoring.

Run: PYTHONPATH=/tmp/wt_R10 MPLBACKEND=Agg /venv/bin/python equiv.py > out.txt
"""

import hashlib
import pickle

import numpy as np

from EasyFEA import Mesher, ElemType, Mesh, Models, Simulations, SolverType
from EasyFEA.FEM._gauss import Gauss
from EasyFEA.FEM._utils import MatrixType
from EasyFEA.Geoms import Domain, Point, Points, Line, Circle
from EasyFEA.Utilities._observers import _IObserver


def dump(label: str, value) -> None:
    """Prints every number of value with repr()."""
    if value is None:
        print(label, "None")
        return
    if hasattr(value, "toarray"):
        value = value.toarray()
    arr = np.asarray(value)
    digest = hashlib.sha256(np.ascontiguousarray(arr).tobytes()).hexdigest()[:16]
    print(label, arr.dtype, arr.shape, digest)
    print("   ", repr(arr.tolist()))


def attempt(label: str, func, *args, **kwargs):
    """Calls func and prints the exception type and message if it fails."""
    try:
        return func(*args, **kwargs)
    except BaseException as err:  # noqa: BLE001
        print(label, "RAISED", type(err).__name__, repr(str(err)))
        return None


class Counter(_IObserver):
    def __init__(self):
        self.events = []

    def _Update(self, observable, event: str) -> None:
        self.events.append((type(observable).__name__, event))


# ----------------------------------------------------------------------------------------------
# 1. Gauss
# ----------------------------------------------------------------------------------------------


def section_gauss():
    print("=" * 30, "GAUSS")
    elemTypes = list(ElemType) + ["SEG2", "TRI6", "HEXA20", "TRI99", "SEGX", "PYRA5"]
    matrixTypes = list(MatrixType) + ["rigi", "mass", "beam", "beam_shear"]
    for elemType in elemTypes:
        for matrixType in matrixTypes:
            label = f"Gauss_factory {elemType!r} {matrixType!r}"
            res = attempt(label, Gauss.Gauss_factory, elemType, matrixType)
            if res is not None:
                dump(label + " coord", res[0])
                dump(label + " weights", res[1])
        attempt(f"Gauss_factory {elemType!r} bad", Gauss.Gauss_factory, elemType, "x")
        for nPg in list(range(0, 10)) + [12, 15, 21, 27, 28]:
            label = f"_Gauss_factory_nPg {elemType!r} {nPg}"
            res = attempt(label, Gauss._Gauss_factory_nPg, elemType, nPg)
            if res is not None:
                dump(label + " coord", res[0])
                dump(label + " weights", res[1])

    for elemType, matrixType in [
        (ElemType.TRI3, MatrixType.mass),
        (ElemType.SEG4, "beam"),
        (ElemType.PRISM15, 21),
        (ElemType.QUAD9, 4),
        (ElemType.TETRA4, 2),
        (ElemType.TETRA4, 2.0),
        (ElemType.TETRA4, None),
        (ElemType.SEG3, True),
        (ElemType.POINT, "rigi"),
        (ElemType.POINT, 1),
    ]:
        label = f"Gauss {elemType!r} {matrixType!r}"
        gauss = attempt(label, Gauss, elemType, matrixType)
        if gauss is not None:
            print(label, "nPg", repr(gauss.nPg))
            dump(label + " coord", gauss.coord)
            dump(label + " weights", gauss.weights)

    for name, values in [
        ("_Triangle", [1, 3, 6, 7, 12, 2]),
        ("_Quadrangle", [4, 9, 1]),
        ("_Tetrahedron", [1, 4, 5, 15, 3]),
        ("_Hexahedron", [8, 27, 1]),
        ("_Prism", [6, 8, 21, 1]),
    ]:
        for nPg in values:
            label = f"{name} {nPg}"
            res = attempt(label, getattr(Gauss, name), nPg)
            if res is not None:
                for i, r in enumerate(res):
                    dump(f"{label} [{i}]", r)


# ----------------------------------------------------------------------------------------------
# 2. Meshes and shape functions
# ----------------------------------------------------------------------------------------------

L = 2.0
H = 1.0


def build_meshes() -> dict[str, Mesh]:
    meshes: dict[str, Mesh] = {}
    contour = Points([(0, 0), (L, 0), (L, H), (0, H)], H / 2)
    for elemType in ElemType.Get_2D():
        meshes[f"2D_{elemType}"] = contour.Mesh_2D([], elemType, isOrganised=True)
    # unorganised + inclusion + crack
    domain = Domain(Point(), Point(L, H), H / 2)
    circle = Circle(Point(L / 2, H / 2), H / 2, H / 2, isFilled=False)
    meshes["2D_hole_TRI6"] = domain.Mesh_2D([circle], ElemType.TRI6)
    meshes["2D_hole_TRI10"] = domain.Mesh_2D([circle], ElemType.TRI10)
    meshes["2D_hole_TRI15"] = domain.Mesh_2D([circle], ElemType.TRI15)
    crack = Line(Point(L / 4, H / 2), Point(3 * L / 4, H / 2), H / 2, isOpen=True)
    meshes["2D_crack_TRI3"] = domain.Mesh_2D([], ElemType.TRI3, cracks=[crack])
    for elemType in ElemType.Get_3D():
        meshes[f"3D_{elemType}"] = contour.Mesh_Extrude(
            [], [0, 0, L], [2], elemType, isOrganised=True
        )
    meshes["3D_hole_TETRA10"] = domain.Mesh_Extrude(
        [circle], [0, 0, -H], [2], ElemType.TETRA10
    )
    # 1D
    mesher = Mesher()
    section = mesher.Mesh_2D(Domain(Point(-0.05, -0.05), Point(0.05, 0.05)))
    line = Line(Point(), Point(x=L), L / 3)
    for elemType in ElemType.Get_1D():
        beam = Models.Beam.Isotropic(2, line, section, 210e9, 0.3)
        meshes[f"1D_{elemType}"] = mesher.Mesh_Beams([beam], elemType=elemType)
    return meshes


def section_shape_functions(meshes: dict[str, Mesh]):
    print("=" * 30, "SHAPE FUNCTIONS")
    done = set()
    for name, mesh in meshes.items():
        for groupElem in mesh.Get_list_groupElem():
            elemType = groupElem.elemType
            if elemType in done or groupElem.dim == 0:
                continue
            done.add(elemType)
            dump(f"{elemType} local coords", groupElem.Get_Local_Coords())
            for matrixType in MatrixType.Get_types():
                for func in [
                    "Get_N_pg",
                    "Get_dN_pg",
                    "Get_ddN_pg",
                    "Get_dddN_pg",
                    "Get_ddddN_pg",
                    "Get_weight_pg",
                ]:
                    label = f"{elemType} {func} {matrixType}"
                    res = attempt(label, getattr(groupElem, func), matrixType)
                    if res is not None:
                        dump(label, res)
            # raw tables evaluated at arbitrary points
            points = np.array(
                [[0.1, 0.2, 0.3], [-0.7, 0.45, 0.05], [1 / 3, 1 / 3, 1 / 3], [0, 1, 0]]
            )[:, : groupElem.dim]
            for func in ["_N", "_dN", "_ddN", "_dddN", "_ddddN"]:
                label = f"{elemType} {func}"
                table = attempt(label, getattr(groupElem, func))
                if table is not None:
                    print(label, "table shape", table.shape)
                    dump(label + " eval", groupElem._Eval_Functions(table, points))

    for name, mesh in meshes.items():
        for groupElem in mesh.Get_list_groupElem():
            if groupElem.dim == 0:
                continue
            label = f"{name} {groupElem.elemType}"
            for matrixType in [MatrixType.rigi, MatrixType.mass]:
                dump(
                    f"{label} wJ {matrixType}",
                    np.asarray(groupElem.Get_weightedJacobian_e_pg(matrixType)),
                )
                dump(
                    f"{label} dN_e_pg {matrixType}",
                    np.asarray(groupElem.Get_dN_e_pg(matrixType)),
                )
        print(name, "length/area/volume", repr(mesh.length), repr(mesh.area), repr(mesh.volume))
        dump(f"{name} center", mesh.center)


# ----------------------------------------------------------------------------------------------
# 3. Mesh operations
# ----------------------------------------------------------------------------------------------


def describe_mesh(label: str, mesh: Mesh):
    print(label, "Nn", repr(mesh.Nn), "Ne", repr(mesh.Ne), "dim", repr(mesh.dim), repr(mesh.inDim))
    dump(label + " coord", mesh.coord)
    for elemType, groupElem in mesh.dict_groupElem.items():
        dump(f"{label} {elemType} connect", groupElem.connect)
        dump(f"{label} {elemType} nodes", groupElem.nodes)
        dump(f"{label} {elemType} gcoord", groupElem.coord)
        for tag in sorted(groupElem.nodeTags):
            dump(f"{label} {elemType} nodeTag {tag}", groupElem.Get_Nodes_Tag(tag))
        for tag in sorted(groupElem.elementTags):
            dump(f"{label} {elemType} elemTag {tag}", groupElem.Get_Elements_Tag(tag))


def section_mesh_operations(meshes: dict[str, Mesh]):
    print("=" * 30, "MESH OPERATIONS")
    for name, mesh in meshes.items():
        original = mesh.coord
        moved = mesh.copy()
        observer = Counter()
        moved._Add_observer(observer)
        assert moved is not mesh
        dump(f"{name} copy coord", moved.coord)
        moved.Translate(0.5, -1.25, 1 / 3)
        dump(f"{name} translate", moved.coord)
        moved.Translate()
        moved.Translate(dz=np.float32(0.1))
        dump(f"{name} translate2", moved.coord)
        moved.Rotate(33.3)
        dump(f"{name} rotate z", moved.coord)
        moved.Rotate(-71, center=(0.3, -0.2, 1.0), direction=(1, 2, -0.5))
        dump(f"{name} rotate axis", moved.coord)
        moved.Symmetry()
        dump(f"{name} symmetry", moved.coord)
        moved.Symmetry(point=(0.1, 0.2, 0.3), n=(0.3, -1, 2))
        dump(f"{name} symmetry2", moved.coord)
        moved.coord = moved.coord * 2
        print(name, "events", repr(observer.events))
        # the source mesh must be left untouched
        assert np.array_equal(original, mesh.coord)
        print(name, "measures", repr(moved.length), repr(moved.area), repr(moved.volume))
        # pickling round trip
        clone = pickle.loads(pickle.dumps(moved))
        dump(f"{name} pickled coord", clone.coord)
        print(name, "pickled attrs", repr(sorted(vars(clone).keys())))

    print("=" * 30, "NORMALS")
    for name, mesh in meshes.items():
        if mesh.dim == 1:
            res = attempt(f"{name} normals", mesh.Get_normals)
            if res is not None:
                dump(f"{name} normals", res[0])
                dump(f"{name} normals nodes", res[1])
            continue
        normals, nodes = mesh.Get_normals()
        dump(f"{name} normals", normals)
        dump(f"{name} normals nodes", nodes)
        sub = mesh.Nodes_Conditions(lambda x, y, z: x == L)
        res = attempt(f"{name} normals x==L", mesh.Get_normals, sub)
        if res is not None:
            dump(f"{name} normals x==L", res[0])
            dump(f"{name} normals x==L nodes", res[1])
        inner = mesh.Nodes_Conditions(
            lambda x, y, z: (x > 0.3 * L) & (x < 0.35 * L) & (y > 0.4) & (y < 0.45)
        )
        if inner.size:
            res = attempt(f"{name} normals inner", mesh.Get_normals, inner)
            if res is not None:
                dump(f"{name} normals inner", res[0])
        coord = mesh.coord
        disp = np.stack(
            [0.1 * coord[:, 1] ** 2, -0.05 * coord[:, 0] * coord[:, 2], 0.2 * coord[:, 0]],
            axis=1,
        )
        normals, nodes = mesh.Get_normals(sub, displacementMatrix=disp)
        dump(f"{name} normals deformed", normals)
        dump(f"{name} normals deformed nodes", nodes)
        # rotated mesh (2D mesh in 3D space)
        rot = mesh.copy()
        rot.Rotate(45, direction=(1, 0, 0))
        rot.Rotate(30, direction=(0, 1, 0))
        normals, nodes = rot.Get_normals()
        dump(f"{name} normals rotated", normals)

    print("=" * 30, "EVALUATE")
    rng = np.random.default_rng(12345)
    for name, mesh in meshes.items():
        coord = mesh.coord
        for dof_n in [1, 2, 3]:
            dofsValues = np.sin(np.arange(mesh.Nn * dof_n) * 0.37) + 2
            values = mesh.Evaluate_dofsValues_at_coordinates(coord, dofsValues)
            dump(f"{name} evaluate nodes dof_n={dof_n}", values)
        lo, hi = coord.min(0), coord.max(0)
        query = lo + (hi - lo) * rng.random((15, 3))
        # a few points outside of the mesh
        query[-3:] += (hi - lo + 1) * 1.5
        if mesh.dim < 3:
            query[:, mesh.dim :] = coord[0, mesh.dim :]
        dofsValues = np.cos(np.arange(mesh.Nn * 2) * 0.11)
        values = mesh.Evaluate_dofsValues_at_coordinates(query, dofsValues)
        dump(f"{name} evaluate query", values)
        elements = np.arange(mesh.groupElem.Ne)[::2]
        values = mesh.Evaluate_dofsValues_at_coordinates(query, dofsValues, elements)
        dump(f"{name} evaluate query elements", values)
        attempt(
            f"{name} evaluate bad size",
            mesh.Evaluate_dofsValues_at_coordinates,
            query,
            np.ones(mesh.Nn * 2 + 1),
        )
        attempt(
            f"{name} evaluate bad ndim",
            mesh.Evaluate_dofsValues_at_coordinates,
            query,
            np.ones((mesh.Nn, 2)),
        )

    print("=" * 30, "MERGE")
    mesh_a = meshes["2D_TRI3"]
    mesh_b = mesh_a.copy()
    mesh_b.Translate(L)
    mesh_c = meshes["2D_QUAD4"].copy()
    mesh_c.Translate(dy=H)
    mesh_d = mesh_a.copy()
    mesh_d.Translate(1e-9)
    cases = {
        "single": ([mesh_a], {}),
        "single mapping": ([mesh_a], dict(return_mapping=True)),
        "adjacent": ([mesh_a, mesh_b], {}),
        "adjacent mapping": ([mesh_a, mesh_b], dict(return_mapping=True)),
        "no merge": ([mesh_a, mesh_b], dict(mergePoints=False, return_mapping=True)),
        "mixed": ([mesh_a, mesh_b, mesh_c], dict(return_mapping=True)),
        "duplicate": ([mesh_a, mesh_a.copy()], dict(return_mapping=True)),
        "duplicate keep": (
            [mesh_a, mesh_a.copy()],
            dict(constructUniqueElements=False, return_mapping=True),
        ),
        "tol tight": ([mesh_a, mesh_d], dict(return_mapping=True)),
        "tol loose": ([mesh_a, mesh_d], dict(mergePointsTol=1e-6, return_mapping=True)),
        "3D": (
            [meshes["3D_TETRA4"], meshes["3D_HEXA8"].copy()],
            dict(return_mapping=True),
        ),
    }
    for label, (list_mesh, kwargs) in cases.items():
        res = attempt(f"merge {label}", Mesh.Merge, list_mesh, **kwargs)
        if res is None:
            continue
        if isinstance(res, tuple):
            merged, mapping = res
            for i, m in enumerate(mapping):
                dump(f"merge {label} mapping {i}", m)
        else:
            merged = res
        describe_mesh(f"merge {label}", merged)
        if label in ["mixed", "adjacent", "3D"]:
            # several groups of elements share the main dimension
            coord = merged.coord
            dofsValues = np.sin(np.arange(merged.Nn * 2) * 0.21) + 1
            values = attempt(
                f"merge {label} evaluate",
                merged.Evaluate_dofsValues_at_coordinates,
                coord * 0.97 + 0.01,
                dofsValues,
            )
            dump(f"merge {label} evaluate", values)
            res = attempt(f"merge {label} normals", merged.Get_normals)
            if res is not None:
                dump(f"merge {label} normals", res[0])
                dump(f"merge {label} normals nodes", res[1])
    attempt("merge empty", Mesh.Merge, [])


# ----------------------------------------------------------------------------------------------
# 4. Partitions
# ----------------------------------------------------------------------------------------------


def get_partitions(Nproc: int, dim: int, elemType: ElemType, coef=1.0) -> list[Mesh]:
    mesher = Mesher()
    domain = Domain(Point(), Point(4, 3), 1.0)
    circle = Circle(Point(2, 1.5), 1.0, 1.0, isFilled=True)
    mesher._Init_gmsh("occ")
    mesher._Surfaces(domain, [circle])
    mesher._Organise_Surfaces(elemType, False, domain.meshSize)
    if dim == 3:
        surfaces = [entity[1] for entity in mesher._factory.getEntities(2)]
        mesher._Extrude(surfaces, [0, 0, 2], elemType, [2])
    mesher._Set_PhysicalGroups()
    mesher._Mesh_Generate(dim, elemType)
    return mesher._Mesh_Get_Meshes(Nproc, coef)


def section_partitions():
    print("=" * 30, "PARTITIONS")
    cases = [
        (2, ElemType.TRI3, 1.0),
        (2, ElemType.TRI6, 0.5),
        (2, ElemType.QUAD4, 1.0),
        (2, ElemType.QUAD9, 1.0),
        (3, ElemType.TETRA4, 1.0),
        (3, ElemType.PRISM6, 2.0),
        (3, ElemType.HEXA8, 1.0),
    ]
    for dim, elemType, coef in cases:
        for Nproc in [1, 2, 3, 5]:
            label = f"partition {elemType} Nproc={Nproc}"
            meshes = attempt(label, get_partitions, Nproc, dim, elemType, coef)
            if meshes is None:
                continue
            print(label, "len", repr(len(meshes)))
            for r, mesh in enumerate(meshes):
                describe_mesh(f"{label} rank {r}", mesh)
                for groupType, groupElem in mesh.dict_groupElem.items():
                    data = groupElem._Get_partitioned_data()
                    print(f"{label} rank {r} {groupType} data rank", repr(data[0]))
                    for i, d in enumerate(data[1:]):
                        dump(f"{label} rank {r} {groupType} data {i + 1}", d)
                    dump(
                        f"{label} rank {r} {groupType} globalElements",
                        groupElem._globalElements,
                    )
                dump(f"{label} rank {r} owned nodes", mesh._Get_mpi_owned_nodes())
    attempt("partition too many", get_partitions, 100000, 2, ElemType.TRI3)
    attempt("partition zero", get_partitions, 0, 2, ElemType.TRI3)


# ----------------------------------------------------------------------------------------------
# 5. Simulations
# ----------------------------------------------------------------------------------------------


def section_simulations(meshes: dict[str, Mesh]):
    print("=" * 30, "SIMULATIONS")

    for name in [
        "2D_TRI3",
        "2D_TRI6",
        "2D_TRI10",
        "2D_TRI15",
        "2D_QUAD8",
        "2D_hole_TRI6",
        "3D_TETRA4",
        "3D_PRISM15",
        "3D_HEXA20",
    ]:
        mesh = meshes[name].copy()
        dim = mesh.dim
        for planeStress in [True, False]:
            material = Models.Elastic.Isotropic(
                dim, E=210000.0, v=0.25, planeStress=planeStress, thickness=0.3
            )
            simu = Simulations.Elastic(mesh, material, verbosity=False)
            simu.solver = SolverType.scipy
            nodes0 = mesh.Nodes_Conditions(lambda x, y, z: x == 0)
            nodesL = mesh.Nodes_Conditions(lambda x, y, z: x == L)
            nodesTop = mesh.Nodes_Conditions(lambda x, y, z: y == H)
            simu.add_dirichlet(nodes0, [0] * dim, simu.Get_unknowns())
            simu.add_surfLoad(nodesL, [-800 / 0.3], ["y"])
            simu.add_pressureLoad(nodesTop, 12.5)
            simu.add_volumeLoad(mesh.nodes, [-9.81 * 7.8e-3], ["y"])
            u = simu.Solve()
            label = f"elastic {name} planeStress={planeStress}"
            dump(label + " u", u)
            for result in ["Svm", "Sxx", "Exy", "Wdef"]:
                dump(f"{label} {result}", simu.Result(result, nodeValues=False))
            dump(f"{label} Svm n", simu.Result("Svm", nodeValues=True))
            if dim == 3:
                break
        # the simulation must follow the mesh modifications
        mesh.Translate(0.25)
        mesh.Rotate(10)
        print(name, "needUpdate", repr(simu.needUpdate))

    for name in ["2D_TRI3", "2D_TRI10", "2D_QUAD9", "3D_TETRA10", "3D_PRISM6"]:
        mesh = meshes[name]
        thermal = Models.Thermal(k=1.5, c=2.0, thickness=0.3)
        simu = Simulations.Thermal(mesh, thermal, verbosity=False)
        simu.solver = SolverType.scipy
        simu.add_dirichlet(mesh.Nodes_Conditions(lambda x, y, z: x == 0), [0], ["t"])
        simu.add_dirichlet(mesh.Nodes_Conditions(lambda x, y, z: x == L), [40], ["t"])
        simu.add_surfLoad(mesh.Nodes_Conditions(lambda x, y, z: y == H), [3.0], ["t"])
        t = simu.Solve()
        dump(f"thermal {name} t", t)

    mesher = Mesher()
    section = mesher.Mesh_2D(Domain(Point(-0.05, -0.1), Point(0.05, 0.1)))
    for beamDim in [1, 2, 3]:
        for elemType in ElemType.Get_1D():
            point1, point2 = Point(), Point(x=L)
            line = Line(point1, point2, L / 4)
            beam = Models.Beam.Isotropic(beamDim, line, section, 210e9, 0.3)
            mesh = mesher.Mesh_Beams([beam], elemType=elemType)
            structure = Models.Beam.BeamStructure([beam])
            simu = Simulations.Beam(mesh, structure, verbosity=False)
            simu.solver = SolverType.scipy
            simu.rho = 7800.0
            print(f"beam {beamDim} {elemType} mass", repr(simu.mass))
            simu.add_dirichlet(
                mesh.Nodes_Point(point1), [0] * simu.Get_dof_n(), simu.Get_unknowns()
            )
            simu.add_lineLoad(mesh.Nodes_Line(line), [780.0], ["x"])
            if beamDim > 1:
                simu.add_neumann(mesh.Nodes_Point(point2), [-5000.0], ["y"])
                simu.add_lineLoad(mesh.Nodes_Line(line), [-100.0], ["y"])
            else:
                simu.add_neumann(mesh.Nodes_Point(point2), [5000.0], ["x"])
            u = simu.Solve()
            dump(f"beam {beamDim} {elemType} u", u)
            dump(f"beam {beamDim} {elemType} N", simu.Result("N", nodeValues=False))
            if beamDim > 1:
                dump(f"beam {beamDim} {elemType} Mz", simu.Result("Mz", nodeValues=False))


if __name__ == "__main__":
    np.set_printoptions(precision=17)
    section_gauss()
    meshes = build_meshes()
    section_shape_functions(meshes)
    section_mesh_operations(meshes)
    section_partitions()
    section_simulations(meshes)
    print("DONE")
