"""C04 - constraints hold exactly and the returned solution solves the stated system.

The real `add_dirichlet/add_neumann/add_surfLoad`, `Bc_dofs_known_unknown`, `_Solver_Apply_Neumann`,
`_Solver_Apply_Dirichlet` (orphan-node diagonal, Newton-incremental values), `Solvers.Solve_simu`,
`__Solver_1` (elimination) and `__Solver_2` (Lagrange multipliers, bordered system with the code's alpha
scaling), and Lagrange connection conditions run with every prescribed value and load symbolic; the linear solve
is the ideal-solver stub.  The solution comes back as affine forms in the symbols; all assertions are exact
linear identities (tolerance 0 up to the stated float-noise tolerance of K).
"""

import itertools
import time
from fractions import Fraction

import numpy as np

from engine import harness, smt, facade, stubs, linsolve
from engine.harness import JobResult
from engine.oblig import prove_abs_le, prove_cond, Outcome
from engine.poly import Poly
from engine.sym import Sym, as_sym, ctx, new_context, _vid, Cond, sym_array
from checks import simlib
from checks.c01_patch import make_material

PID = "C04"
TOL = Fraction(1, 10 ** 9)


def orphan_mesh():
    """tri4 mesh plus one node attached to no element"""
    base = simlib.small_mesh("tri4")
    coords = np.vstack([base.coord, [[2.0, 2.0, 0.0]]])
    groups = [(et.name, np.asarray(g.connect)) for et, g in base.dict_groupElem.items()]
    return simlib.mesh_from_arrays(groups, coords)


def build(cfg):
    from EasyFEA import Simulations, Models

    mesh = orphan_mesh() if cfg.get("orphan") else simlib.small_mesh(cfg.get("mesh", "tri4"))
    if cfg["sim"] == "nonsym":
        # a user-defined (weak-form like) problem with a NON-symmetric matrix: 2 dofs per node, concrete rational element matrices
        simu = simlib.make_symsimu(mesh, dof_n=2)
        for g in mesh.Get_list_groupElem():
            nd = g.nPe * 2
            K_e = np.empty((g.Ne, nd, nd), dtype=object)
            for e in range(g.Ne):
                for i in range(nd):
                    for j in range(nd):
                        K_e[e, i, j] = Fraction(5 + (e + i) % 3) if i == j else Fraction(((2 * e + 3 * i - 2 * j) % 7) - 3, 6)
            simu.mats[g.elemType] = (K_e, None, None, None)
        return mesh, simu
    if cfg["sim"] == "elastic":
        simu = Simulations.Elastic(mesh, make_material("iso_stress", 2), verbosity=False)
    else:
        simu = Simulations.Thermal(mesh, Models.Thermal(k=2.0, c=1.0, thickness=1.0), verbosity=False)
    return mesh, simu


LAYOUTS = {
    # each entry: list of (kind, nodes, unknowns, value-kind)
    "disjoint": [("D", [0], ["x", "y"], "const"), ("D", [3], ["y"], "const"), ("N", [2], ["x"], "const"), ("S", [1, 2], ["y"], "poly")],
    "overlap": [("D", [0, 3], ["x"], "array"), ("D", [0], ["y", "x"], "const"), ("D", [3], ["y"], "func"), ("N", [2], ["x", "y"], "const")],
    "duplicated": [("D", [0], ["x"], "const"), ("D", [0], ["x"], "const"), ("D", [0, 3], ["x", "y"], "func"), ("D", [0], ["x"], "array"), ("S", [1, 2], ["x"], "const")],
    "reordered": [("S", [1, 2], ["y"], "poly"), ("N", [2], ["x"], "const"), ("D", [3], ["y"], "const"), ("D", [0], ["x", "y"], "const")],
    # nodal ARRAYS of prescribed values on selections listed in non-ascending node order (value k belongs to the k-th listed node)
    "unsorted": [("D", [3, 0], ["x"], "array"), ("D", [3, 1, 0], ["y"], "array"), ("N", [4, 2], ["x", "y"], "array"), ("S", [2, 1], ["y"], "poly")],
    # exactly ONE Dirichlet condition, with non-zero values (a function of position over several nodes)
    "single": [("D", [0, 3], ["x", "y"], "func"), ("N", [2], ["x"], "const")],
}
LAYOUTS_T = {
    "thermal": [("D", [0], ["t"], "const"), ("D", [0, 3], ["t"], "array"), ("N", [2], ["t"], "const"), ("S", [1, 2], ["t"], "poly")],
}


UNIT = [Fraction(1)]  # per job: magnitude of every prescribed value and load ('tiny' configurations: 2^-50; the problem is linear, nothing may depend on an absolute magnitude)


def apply_layout(simu, layout, tag=""):
    """adds the conditions with fresh symbols; returns expected[dof] = sum of entered Dirichlet values (Sym)"""
    c = ctx()
    pt = simu.problemType
    unknowns_all = simu.Get_unknowns(pt)
    dof_n = simu.Get_dof_n(pt)
    X = simu.mesh.coord
    expected = {}
    k = 0
    for kind, nodes, unknowns, vk in layout:
        nodes = np.asarray(nodes, dtype=int)
        vals = []
        per_node = []
        for u in unknowns:
            k += 1
            if vk == "const":
                s = c.var(f"{tag}v{k}", -UNIT[0], UNIT[0])
                vals.append(s)
                per_node.append([s] * len(nodes))
            elif vk == "array":
                arr = sym_array(f"{tag}a{k}_", (len(nodes),), -UNIT[0], UNIT[0])
                vals.append(arr)
                per_node.append(list(arr))
            else:
                p = sym_array(f"{tag}p{k}_", (3,), -UNIT[0], UNIT[0])
                vals.append(lambda x, y, z, p=p: p[0] + p[1] * x + p[2] * y)
                per_node.append([p[0] + p[1] * Fraction(float(X[n, 0])) + p[2] * Fraction(float(X[n, 1])) for n in nodes])
        if kind == "D":
            simu.add_dirichlet(nodes, vals, unknowns)
            for ui, u in enumerate(unknowns):
                for ni, n in enumerate(nodes):
                    d = int(n) * dof_n + unknowns_all.index(u)
                    expected[d] = expected.get(d, 0) + per_node[ui][ni]
        elif kind == "N":
            simu.add_neumann(nodes, vals, unknowns)
        elif kind == "S":
            simu.add_surfLoad(nodes, vals, unknowns)
    return expected


def concrete_values(c, env, layout_syms):
    full = {kk: float(v) for kk, v in {**c.shadow, **(env or {})}.items()}
    return full


def job_layout(cfg):
    from EasyFEA.Simulations import Solvers

    res = JobResult(cfg)
    c = new_context()
    facade.install()
    UNIT[0] = Fraction(1, 2 ** 50) if cfg.get("tiny") else Fraction(1)
    mesh, simu = build(cfg)
    layout = (LAYOUTS_T if cfg["sim"] == "thermal" else LAYOUTS)[cfg["layout"]]
    if cfg["sim"] == "nonsym":
        layout = [x for x in layout if x[0] != "S"]  # surface loads need a model thickness semantics; keep point loads
    key = f"{cfg['sim']} {cfg['layout']}" + (" +orphan" if cfg.get("orphan") else "") + (" newton" if cfg.get("newton") else "") + (" in tiny units (values below 2^-50)" if cfg.get("tiny") else "")
    pt = simu.problemType
    dof_n = simu.Get_dof_n(pt)
    simu.Get_K_C_M_F()
    res.functions |= {"_Simu.add_dirichlet", "_Simu.add_neumann", "_Simu.add_surfLoad", "_Simu.Bc_dofs_known_unknown", "_Simu._Solver_Apply_Neumann", "_Simu._Solver_Apply_Dirichlet",
                      "_Simu.__Solver_Get_Dirichlet_A_x", "Solvers.Solve_simu", "Solvers.__Solver_1", "Solvers.__Solver_2", "BoundaryCondition.Get_dofs_nodes", "BoundaryCondition.Get_values",
                      "_Simu.Bc_vector_Neumann"}
    mark = c.mark()
    main_singular = None
    with facade.symbolic(), stubs.ideal_linear_solver():
        expected = apply_layout(simu, layout)
        if cfg.get("newton"):
            simu._Solver_Set_Newton_Raphson_Algorithm()
            n = mesh.Nn * dof_n
            u0 = sym_array("u0_", (n,))
            simu._Simu__Solver_Set_Newton_Raphson_current_solution(u0.copy())
            delta, _ = Solvers.Solve_simu(simu, pt)
            u = u0 + delta
            # the entered conditions are data: a solve leaves them as they were entered, and solving again from the state just reached
            # prescribes the same values
            stored = (np.asarray(simu.Bc_dofs_Dirichlet(pt)).copy(), np.asarray(simu.Bc_values_Dirichlet(pt), dtype=object).copy())
            simu._Simu__Solver_Set_Newton_Raphson_current_solution(np.asarray(u, dtype=object).copy())
            delta2, _ = Solvers.Solve_simu(simu, pt)
            u_again = np.asarray(u, dtype=object) + delta2
        else:
            try:
                u, _ = Solvers.Solve_simu(simu, pt)
            except linsolve.Singular as e:
                main_singular = str(e)
        if main_singular is None:
            Fvec = simu.Bc_vector_Neumann(pt)
            K = simu.Get_K_C_M_F()[0]
            Fasm = simu.Get_K_C_M_F()[3]
    if main_singular is not None:
        res.record(f"{key} system handed to the solver is regular", Outcome("cex", env={}, how="structure", detail=main_singular), lambda env: _replay_layout(cfg, layout, env, c), key=f"{key} singular system")
        res.stubs |= facade.USED_STUBS
        res.twin(f"{key} twin", True)
        return res
    pcs = c.pc_since(mark)
    res.paths, res.path_conditions = 1, len(pcs)
    res.symbols = len(c.input_vids())
    Kd = np.asarray(K.toarray(), dtype=float) if not isinstance(K, facade.SymMatrix) else K.a
    kmax = Fraction(float(np.abs(np.asarray(Kd, dtype=float)).max()))

    def replay(env):
        """same layout, concrete values, the default FFI solver"""
        full = {kk: float(v) for kk, v in {**c.shadow, **(env or {})}.items()}
        c2 = new_context_keep(c)
        mesh2, s2 = build(cfg)
        # re-create the same symbols in the same order, then evaluate them
        return _replay_layout(cfg, layout, full, c)

    # (1) constrained dofs hold the sum of the entered values
    for d, want in sorted(expected.items()):
        res.record(f"{key} u[{d}] = sum of entered values", prove_abs_le(u[d] - want, 0, pcs, key), lambda env: _replay_layout(cfg, layout, env, c), key=f"{key} constrained dof",
                   sample=None if d != sorted(expected)[0] else {"config": key, "obligation": f"u[{d}] == {want!r} for all prescribed values and loads", "entries_for_this_dof": "see layout"})
    if cfg.get("newton"):
        agg = {}
        for d, val in zip(stored[0], stored[1]):
            agg[int(d)] = agg.get(int(d), 0) + val
        for d, want in sorted(expected.items()):
            res.record(f"{key} stored Dirichlet value of dof {d} after the solve = the entered value", prove_abs_le(as_sym(agg.get(d, 0)) - want, 0, pcs, key), lambda env: _replay_layout(cfg, layout, env, c),
                       key=f"{key} stored conditions unchanged by a solve")
            res.record(f"{key} second solve from the reached state: u[{d}] = entered value", prove_abs_le(as_sym(u_again[d]) - want, 0, pcs, key), lambda env: _replay_layout(cfg, layout, env, c),
                       key=f"{key} constrained dof (second solve)")
    # (2) free dofs satisfy the assembled equations with the applied loads
    n = mesh.Nn * dof_n
    F = np.asarray(Fvec, dtype=object).reshape(-1)
    Fa = Fasm.toarray().reshape(-1) if not isinstance(Fasm, facade.SymMatrix) else Fasm.a.reshape(-1)
    orphan_dofs = set()
    for on in mesh.orphanNodes:
        orphan_dofs |= {on * dof_n + k for k in range(dof_n)}
    if cfg.get("newton"):
        # non-linear convention: F is the residual; K delta = F on free dofs
        r = facade._matmul(np.asarray(Kd, dtype=object), np.asarray(u - u0, dtype=object)) - (F + Fa)
    else:
        r = facade._matmul(np.asarray(Kd, dtype=object), np.asarray(u, dtype=object)) - (F + Fa)
    for d in range(n):
        if d in expected:
            continue
        if d in orphan_dofs:
            res.record(f"{key} orphan dof {d} stays at rest", prove_abs_le(as_sym(u[d]) - (u0[d] if cfg.get("newton") else 0), 0, pcs, key), lambda env: _replay_layout(cfg, layout, env, c), key=f"{key} orphan node")
            continue
        res.record(f"{key} (K u - F)[{d}] = 0", prove_abs_le(r[d], TOL * kmax * UNIT[0], pcs, key), lambda env: _replay_layout(cfg, layout, env, c), key=f"{key} free-dof equilibrium",
                   sample=None if len(res.samples) > 1 else {"config": key, "obligation": f"|(K u - F)[{d}]| <= 1e-9 max|K| for all symbolic prescribed values and loads ({res.symbols} symbols)"})
    # (3) elimination vs Lagrange multipliers: the same problem where one more dof is constrained either by a Dirichlet
    #     condition (r1) or by a single-dof Lagrange condition 1*u_d = g (which switches Solve_simu to r2)
    if not cfg.get("newton"):
        from EasyFEA.FEM._boundary_conditions import LagrangeCondition

        extra_node = 2
        unk = simu.Get_unknowns(pt)[0]
        gL = c.var("gL", -1, 1)
        sols = []
        singular = []
        for how in ("r1", "r2"):
            mesh_b, simu_b = build(cfg)
            simu_b.Get_K_C_M_F()
            with facade.symbolic(), stubs.ideal_linear_solver():
                # same conditions, same symbols (re-created deterministically from the stored values)
                _reapply(simu_b, simu)
                dofs = simu_b.Bc_dofs_nodes(np.array([extra_node]), [unk], pt)
                if how == "r1":
                    simu_b.add_dirichlet(np.array([extra_node]), [gL], [unk])
                else:
                    simu_b._Bc_Add_Lagrange(LagrangeCondition(pt, np.array([extra_node]), dofs, [unk], np.asarray([gL], dtype=object), np.asarray([1.0]), "single-dof Lagrange"))
                try:
                    ub, _ = Solvers.Solve_simu(simu_b, pt)
                except linsolve.Singular as e:
                    # the matrix handed to the backend is singular although the problem is well posed (e.g. an orphan node left without its pivot)
                    singular.append((how, str(e)))
                    ub = None
            sols.append(ub)
        for how, msg in singular:  # recorded outside the stub's scope: the replay runs the real backend
            res.record(f"{key} system handed to the solver is regular ({'elimination' if how == 'r1' else 'Lagrange multipliers'})", Outcome("cex", env={}, how="structure", detail=msg),
                       lambda env: _replay_r1_r2(cfg, layout, env, c), key=f"{key} singular system ({how})")
        for d in range(n):
            if sols[0] is None or sols[1] is None:
                break
            res.record(f"{key} elimination = Lagrange at dof {d}", prove_abs_le(as_sym(sols[0][d]) - as_sym(sols[1][d]), TOL * UNIT[0], c.pc_since(mark), key),
                       lambda env: _replay_r1_r2(cfg, layout, env, c), key=f"{key} elimination = Lagrange")
    # twin
    d0 = sorted(expected)[0]
    o = prove_abs_le(u[d0] - expected[d0] * 2, 0, pcs, "twin")
    res.twin(f"{key} twin", o.status == "cex")
    res.stubs |= facade.USED_STUBS
    return res


def new_context_keep(c):
    return c


def _reapply(dst, src):
    """copy the boundary conditions (with their symbolic values) of one simulation onto another one"""
    pt = src.problemType
    for bc in src.Bc_Dirichlet:
        dst._Bc_Add_Dirichlet(pt, bc.nodes, bc.dofsValues, bc.dofs, bc.unknowns, bc.description)
    for bc in src.Bc_Neuman:
        dst._Bc_Add_Neumann(pt, bc.nodes, bc.dofsValues, bc.dofs, bc.unknowns, bc.description)


def _replay_r1_r2(cfg, layout, env, c):
    from EasyFEA.Simulations import Solvers
    from EasyFEA.FEM._boundary_conditions import LagrangeCondition

    full = {kk: float(v) for kk, v in {**c.shadow, **(env or {})}.items()}
    sols = []
    for how in ("r1", "r2"):
        ok, info, s2 = _replay_layout(cfg, layout, env, c, return_simu=True)
        pt = s2.problemType
        unk = s2.Get_unknowns(pt)[0]
        g = full[c.names.index("gL")]
        dofs = s2.Bc_dofs_nodes(np.array([2]), [unk], pt)
        if how == "r1":
            s2.add_dirichlet(np.array([2]), [g], [unk])
        else:
            s2._Bc_Add_Lagrange(LagrangeCondition(pt, np.array([2]), dofs, [unk], np.asarray([g]), np.asarray([1.0]), "single-dof Lagrange"))
        u, _ = Solvers.Solve_simu(s2, pt)
        sols.append(np.asarray(u, dtype=float))
    d = float(np.abs(sols[0] - sols[1]).max())
    bad_values = bool((~np.isfinite(sols[0])).any() or (~np.isfinite(sols[1])).any())
    return d > 1e-8 or bad_values or d != d, {"max_difference_elimination_vs_lagrange": d, "solution_not_finite": bad_values}


def BoundaryConditionDofs(simu):
    return [int(x) for x in simu.Bc_dofs_Dirichlet(simu.problemType)]


def _replay_layout(cfg, layout, env, c, r2=False, return_simu=False):
    unit = float(UNIT[0])
    """Concrete replay: every symbol evaluated at the counterexample / shadow point; unproxied pipeline, scipy direct solver."""
    from EasyFEA.Simulations import Solvers

    full = {kk: float(v) for kk, v in {**c.shadow, **(env or {})}.items()}
    names = {nm: i for i, nm in enumerate(c.names)}
    mesh2, s2 = build(cfg)
    pt = s2.problemType
    dof_n = s2.Get_dof_n(pt)
    unknowns_all = s2.Get_unknowns(pt)
    X = mesh2.coord
    expected = {}
    k = 0
    for kind, nodes, unknowns, vk in layout:
        nodes = np.asarray(nodes, dtype=int)
        vals, per_node = [], []
        for u in unknowns:
            k += 1
            if vk == "const":
                v = full[names[f"v{k}"]]
                vals.append(v)
                per_node.append([v] * len(nodes))
            elif vk == "array":
                arr = np.array([full[names[f"a{k}_[{i}]"]] for i in range(len(nodes))])
                vals.append(arr)
                per_node.append(list(arr))
            else:
                p = [full[names[f"p{k}_[{i}]"]] for i in range(3)]
                vals.append(lambda x, y, z, p=p: p[0] + p[1] * x + p[2] * y)
                per_node.append([p[0] + p[1] * X[n, 0] + p[2] * X[n, 1] for n in nodes])
        if kind == "D":
            s2.add_dirichlet(nodes, vals, unknowns)
            for ui, u in enumerate(unknowns):
                for ni, n_ in enumerate(nodes):
                    d = int(n_) * dof_n + unknowns_all.index(u)
                    expected[d] = expected.get(d, 0) + per_node[ui][ni]
        elif kind == "N":
            s2.add_neumann(nodes, vals, unknowns)
        else:
            s2.add_surfLoad(nodes, vals, unknowns)
    s2.solver = "scipy"
    n = mesh2.Nn * dof_n
    if return_simu:
        return None, None, s2
    if cfg.get("newton"):
        s2._Solver_Set_Newton_Raphson_Algorithm()
        u0 = np.array([full[names[f"u0_[{i}]"]] for i in range(n)])
        s2._Simu__Solver_Set_Newton_Raphson_current_solution(u0.copy())
        delta, _ = Solvers.Solve_simu(s2, pt)
        u = u0 + delta
        base = u - u0
        agg = {}
        for d, val in zip(np.asarray(s2.Bc_dofs_Dirichlet(pt)), np.asarray(s2.Bc_values_Dirichlet(pt), dtype=float)):
            agg[int(d)] = agg.get(int(d), 0.0) + float(val)
        err_stored = max(abs(agg.get(d, 0.0) - w) for d, w in expected.items())
        s2._Simu__Solver_Set_Newton_Raphson_current_solution(np.asarray(u, dtype=float).copy())
        delta2, _ = Solvers.Solve_simu(s2, pt)
        err_again = max(abs((u + delta2)[d] - w) for d, w in expected.items())
        if err_stored > 1e-9 or err_again > 1e-9:
            return True, {"stored_Dirichlet_values_moved_by": float(err_stored), "constrained_dofs_after_a_second_solve_off_by": float(err_again)}
    else:
        if r2:
            u, _ = getattr(Solvers, "__Solver_2")(s2, pt)
            u1, _ = Solvers.Solve_simu(s2, pt)
            d = float(np.abs(np.asarray(u) - np.asarray(u1)).max())
            return d > 1e-8 * unit, {"max_difference_elimination_vs_lagrange": d}
        u, _ = Solvers.Solve_simu(s2, pt)
        base = u
    K = s2.Get_K_C_M_F()[0].toarray()
    F = s2.Bc_vector_Neumann(pt) + s2.Get_K_C_M_F()[3].toarray().ravel()
    r = K @ base - F
    free = [d for d in range(n) if d not in expected and d // dof_n not in mesh2.orphanNodes]
    err_c = max(abs(u[d] - w) for d, w in expected.items())
    err_f = float(np.abs(r[free]).max()) / float(np.abs(K).max()) if free else 0.0
    nan = bool(np.isnan(np.asarray(u, dtype=float)).any())
    return (err_c > 1e-9 * unit or err_f > 1e-9 * unit or nan), {"max_error_on_constrained_dofs": float(err_c), "max_relative_residual_on_free_dofs": err_f, "nan_in_solution": nan}


def job_connection(cfg):
    """Multi-point (connection) constraints through Lagrange multipliers: u_a - u_b = value exactly."""
    from EasyFEA.Simulations import Solvers
    from EasyFEA.FEM._boundary_conditions import LagrangeCondition

    res = JobResult(cfg)
    c = new_context()
    facade.install()
    mesh, simu = build({"sim": "elastic", "mesh": "quad2"})
    pt = simu.problemType
    dof_n = 2
    simu.Get_K_C_M_F()
    key = "elastic quad2 Lagrange connections"
    g1, g2 = c.var("g1", -1, 1), c.var("g2", -1, 1)
    f1 = c.var("f1", -1, 1)
    mark = c.mark()
    with facade.symbolic(), stubs.ideal_linear_solver():
        simu.add_dirichlet(np.array([0]), [g1, g2], ["x", "y"])
        simu.add_dirichlet(np.array([3]), [0], ["x"])
        simu.add_neumann(np.array([2]), [f1], ["x"])
        # connections: u_x(2) = u_x(5), u_y(1) - u_y(4) = 0
        for (a, b, comp) in ((2, 5, "x"), (1, 4, "y")):
            nodes = np.array([a, b])
            dofs = simu.Bc_dofs_nodes(nodes, [comp], pt)
            simu._Bc_Add_Lagrange(LagrangeCondition(pt, nodes, dofs, [comp], np.asarray([0.0]), np.asarray([1.0, -1.0]), "connection"))
        u, lag = Solvers.Solve_simu(simu, pt)
        K = simu.Get_K_C_M_F()[0]
    pcs = c.pc_since(mark)
    res.paths, res.path_conditions, res.symbols = 1, len(pcs), 3
    res.functions |= {"Solvers.__Solver_2", "_Simu._Bc_Add_Lagrange", "_Simu._Bc_Lagrange_dim", "LagrangeCondition"}

    def replay(env):
        full = {kk: float(v) for kk, v in {**c.shadow, **(env or {})}.items()}
        m2, s2 = build({"sim": "elastic", "mesh": "quad2"})
        s2.add_dirichlet(np.array([0]), [full[0], full[1]], ["x", "y"])
        s2.add_dirichlet(np.array([3]), [0], ["x"])
        s2.add_neumann(np.array([2]), [full[2]], ["x"])
        for (a, b, comp) in ((2, 5, "x"), (1, 4, "y")):
            nodes = np.array([a, b])
            dofs = s2.Bc_dofs_nodes(nodes, [comp], pt)
            s2._Bc_Add_Lagrange(LagrangeCondition(pt, nodes, dofs, [comp], np.asarray([0.0]), np.asarray([1.0, -1.0]), "connection"))
        s2.solver = "scipy"
        uf, _ = Solvers.Solve_simu(s2, pt)
        e = max(abs(uf[2 * 2] - uf[5 * 2]), abs(uf[1 * 2 + 1] - uf[4 * 2 + 1]), abs(uf[0] - full[0]), abs(uf[1] - full[1]))
        return e > 1e-9, {"max_constraint_violation": float(e)}

    res.record(f"{key}: u_x(2) = u_x(5)", prove_abs_le(as_sym(u[4]) - as_sym(u[10]), TOL, pcs, key), replay, key=f"{key} connection",
               sample={"config": key, "obligation": "for all prescribed values / loads: connected dofs are equal in the Lagrange solution"})
    res.record(f"{key}: u_y(1) = u_y(4)", prove_abs_le(as_sym(u[3]) - as_sym(u[9]), TOL, pcs, key), replay, key=f"{key} connection")
    res.record(f"{key}: Dirichlet value x", prove_abs_le(as_sym(u[0]) - g1, TOL, pcs, key), replay, key=f"{key} dirichlet in r2")
    res.record(f"{key}: Dirichlet value y", prove_abs_le(as_sym(u[1]) - g2, TOL, pcs, key), replay, key=f"{key} dirichlet in r2")
    # equilibrium on dofs that are neither constrained nor connected: (K u - F) = 0
    Kd = np.asarray(K.toarray(), dtype=object)[:12, :12]
    r = facade._matmul(Kd, np.asarray(u, dtype=object)[:12])
    for d in (6 + 1, 5, 11):  # uy(3), uy(2), uy(5)
        want = 0
        res.record(f"{key}: (K u)[{d}] = 0 (unloaded, unconstrained dof)", prove_abs_le(r[d] - want, TOL * 1000, pcs, key), replay, key=f"{key} equilibrium")
    o = prove_abs_le(as_sym(u[4]) - as_sym(u[10]) - f1, TOL, pcs, "twin")
    res.twin(f"{key} twin", o.status == "cex")
    res.stubs |= facade.USED_STUBS
    return res


def job_backend(cfg):
    """The real Solvers._Solve_Axb - everything it does around the FFI call (conversions, Lagrange fall-back, canonical format, any shortcut
    taken on the VALUES of A or b) - runs on a symbolic right-hand side; only the backend functions are replaced by their contract:
    spsolve / cg / bicg / gmres / lgmres return the x with A x = b, lsq_linear returns the minimiser of |A x - b| over lb <= x <= ub (for the
    diagonal A used here: the clipped quotient).  Value-dependent branches (e.g. on b == 0) split the box of right-hand sides into regions that
    are enumerated, lower-dimensional ones included."""
    import EasyFEA.Simulations.Solvers as S
    from EasyFEA import Simulations, Models
    from engine import paths
    import scipy.sparse as sp

    res = JobResult(cfg)
    c = new_context()
    facade.install()
    solver = cfg["solver"]
    key = f"_Solve_Axb with solver '{solver}'"
    res.functions |= {"Solvers._Solve_Axb"}
    mesh = simlib.small_mesh("seg3")
    simu = Simulations.Thermal(mesh, Models.Thermal(k=1.0, c=1.0), verbosity=False)
    simu.solver = solver
    pt = simu.problemType
    n = 3
    bounded = solver == "lsq_linear"
    diag = [2.0, 0.5, 4.0]
    A = sp.csr_matrix(np.diag(diag)) if bounded else sp.csr_matrix(np.array([[4.0, -1.0, 0.0], [-1.0, 3.0, -0.5], [0.0, -0.5, 2.0]]))
    bsym = [c.var(f"b{i}", -1, 1, shadow=Fraction([3, -2, 1][i], 4)) for i in range(n)]
    lbs = [c.var(f"lb{i}", 0, Fraction(9, 10), shadow=Fraction([1, 3, 2][i], 8)) for i in range(n)] if bounded else []
    res.symbols = n + len(lbs)

    def fake_lsq(Am, bv, bounds=None, **kw):
        facade.USED_STUBS.add("scipy.optimize.lsq_linear -> exact minimiser for a diagonal matrix: clip(b_i / a_ii, lb_i, ub_i)")
        lo, hi = bounds
        Ad = np.asarray(Am.toarray() if hasattr(Am, "toarray") else Am, dtype=object)
        out = []
        for i in range(len(bv)):
            q = as_sym(bv[i]) / Fraction(float(Ad[i, i]))
            x = q
            if q < lo[i]:
                x = as_sym(lo[i])
            elif q > hi[i]:
                x = as_sym(hi[i])
            out.append(x)
        return {"x": np.array(out, dtype=object)}

    def fake_direct(Am, bm, *a, **k):
        facade.USED_STUBS.add("scipy.sparse.linalg.spsolve / cg / bicg / gmres / lgmres -> the x with A x = b (exact rational elimination)")
        return stubs.ideal_solve(Am, bm)

    def run_symbolic(i):
        saved = (S.optimize, S.sla, S.CAN_USE_PYPARDISO)
        class Opt:
            lsq_linear = staticmethod(fake_lsq)
        class Sla:
            norm = staticmethod(lambda M, *a, **k: 0.0)
            spsolve = staticmethod(fake_direct)
            cg = bicg = gmres = lgmres = staticmethod(lambda Am, bm, *a, **k: (fake_direct(Am, bm), 0))
        S.optimize, S.sla, S.CAN_USE_PYPARDISO = Opt, Sla, False
        try:
            with facade.symbolic():
                b = facade.SymMatrix(np.array(bsym, dtype=object).reshape(-1, 1))
                lo = np.array(lbs, dtype=object) if bounded else []
                hi = np.ones(n) if bounded else []
                x = S._Solve_Axb(simu, pt, A, b, np.zeros(n), lo, hi)
            return np.asarray(x, dtype=object).reshape(-1)
        finally:
            S.optimize, S.sla, S.CAN_USE_PYPARDISO = saved

    first = [{}, {_vid(v): 0 for v in bsym}]  # the generic point and the null right-hand side
    regions, status = paths.explore(run_symbolic, bsym + lbs, max_regions=40, label=f"{key} coverage", first_shadows=first)
    res.paths = len(regions)
    if status.startswith("covered"):
        res.held(f"{key}: {len(regions)} region(s) cover the box of right-hand sides" + (" and lower bounds" if bounded else ""), how="exact")
    else:
        res.record(f"{key}: regions cover the box", Outcome("inconclusive", how="exact", detail=status), None, key=f"{key} coverage")

    def replay(env):
        full = {kk: float(v) for kk, v in {**c.shadow, **(env or {})}.items()}
        bf = np.array([full[_vid(v)] for v in bsym])
        lo = np.array([full[_vid(v)] for v in lbs]) if bounded else []
        hi = np.ones(n) if bounded else []
        x = np.asarray(S._Solve_Axb(simu, pt, A, sp.csr_matrix(bf.reshape(-1, 1)), np.zeros(n), lo, hi), dtype=float).reshape(-1)
        Ad = A.toarray()
        if bounded:
            want = np.clip(bf / np.diag(Ad), lo, hi)
            bad = bool((x < lo - 1e-8).any() or (x > hi + 1e-8).any() or np.abs(x - want).max() > 1e-6)
            return bad, {"b": bf.tolist(), "lower_bounds": list(map(float, lo)), "x_returned": x.tolist(), "constrained_minimiser": want.tolist()}
        r = float(np.abs(Ad @ x - bf).max())
        return r > 1e-6, {"b": bf.tolist(), "x_returned": x.tolist(), "max_residual": r}

    Ad = np.asarray(A.toarray(), dtype=object)
    for r in regions:
        paths.reshadow(c, r.shadow)
        pcs = list(r.pcs) + list(c.side) + list(c.domain_conds())
        x = r.result
        worst = None
        if bounded:
            # x is the projection of q = b / diag(A) on the box: lb <= x <= ub and the variational inequalities (x - q)(y - x) >= 0 at y = lb, ub
            for i in range(n):
                q = as_sym(bsym[i]) / Fraction(diag[i])
                xi = as_sym(x[i])
                goals = [(f"x[{i}] >= lb[{i}]", xi - lbs[i]), (f"x[{i}] <= ub[{i}]", 1 - xi),
                         (f"(x - q)(lb - x) >= 0 [{i}]", (xi - q) * (lbs[i] - xi)), (f"(x - q)(ub - x) >= 0 [{i}]", (xi - q) * (1 - xi))]
                for lab, expr in goals:
                    expr = as_sym(expr)
                    o = prove_cond(Cond(expr.n, ">=", lab), pcs, f"{key} {lab}")
                    if o.status != "held":
                        worst = worst or o
            res.record(f"{key} region {r.index}: lb <= x <= ub and x is the constrained minimiser", worst or Outcome("held", how="exact"), replay, key=f"{key}: bounds honoured",
                       sample=None if r.index else {"obligation": f"{key}: for all b in [-1,1]^3 and lb in [0,0.9]^3: lb <= x <= ub and x = clip(b / diag(A), lb, ub)"})
        else:
            Ax = facade._matmul(Ad, np.asarray(x, dtype=object))
            for i in range(n):
                o = prove_abs_le(as_sym(Ax[i]) - bsym[i], TOL, pcs, f"{key} residual")
                if o.status != "held":
                    worst = worst or o
            res.record(f"{key} region {r.index}: A x = b", worst or Outcome("held", how="exact"), replay, key=f"{key}: A x = b",
                       sample=None if r.index else {"obligation": f"{key}: for all b in [-1,1]^3: A x = b"})
    res.twin(f"{key} twin", len(regions) >= 1 and prove_abs_le(as_sym(regions[0].result[0]) - 7, TOL, list(regions[0].pcs) + list(c.domain_conds()), "twin").status == "cex")
    res.stubs |= facade.USED_STUBS
    return res


# ------------------------------------------------------------------------------------------------ re-entered conditions on one simulation
RESOLVE = {
    # two rounds with the SAME number of Dirichlet conditions on DIFFERENT dofs (and one where only the dofs of one condition move)
    "moved": ([("D", [0], ["x", "y"], "const"), ("D", [3], ["y"], "const"), ("N", [2], ["x"], "const")],
              [("D", [1], ["x", "y"], "const"), ("D", [4], ["x"], "const"), ("N", [2], ["y"], "const")]),
    "swapped": ([("D", [0, 3], ["x"], "array"), ("D", [0], ["y"], "const"), ("N", [2], ["x", "y"], "const")],
                [("D", [1, 3], ["y"], "array"), ("D", [1], ["x"], "const"), ("N", [4], ["x", "y"], "const")]),
}


def job_resolve(cfg):
    """solve; Bc_Init(); enter other conditions (same count, other dofs); solve again on the SAME simulation object: the second solution
    holds its constraints, satisfies its equations and equals the solution of a fresh simulation given the second conditions only"""
    from EasyFEA.Simulations import Solvers

    res = JobResult(cfg)
    c = new_context()
    facade.install()
    mesh, simu = build(cfg)
    first, second = RESOLVE[cfg["resolve"]]
    key = f"{cfg['sim']} resolve {cfg['resolve']}"
    pt = simu.problemType
    dof_n = simu.Get_dof_n(pt)
    simu.Get_K_C_M_F()
    res.functions |= {"_Simu.Bc_Init", "_Simu.add_dirichlet", "_Simu.add_neumann", "_Simu.Bc_dofs_known_unknown", "_Simu._Solver_Apply_Dirichlet", "_Simu._Solver_Apply_Neumann", "Solvers.Solve_simu", "Solvers.__Solver_1"}

    def run_float(env):
        full = {kk: float(v) for kk, v in {**c.shadow, **(env or {})}.items()}
        m2, s2 = build(cfg)
        s2.Get_K_C_M_F()
        out = []
        for rnd_, lay in enumerate((first, second)):
            s2.Bc_Init()
            exp = _apply_concrete(s2, lay, full, c, f"r{rnd_}")
            u2 = np.asarray(Solvers.Solve_simu(s2, pt)[0]).reshape(-1)
            F2 = np.asarray(s2.Bc_vector_Neumann(pt).toarray()).reshape(-1) if hasattr(s2.Bc_vector_Neumann(pt), "toarray") else np.asarray(s2.Bc_vector_Neumann(pt)).reshape(-1)
            K2 = np.asarray(s2.Get_K_C_M_F()[0].toarray())
            r2 = K2 @ u2 - F2
            free = [d for d in range(len(u2)) if d not in exp]
            out.append((max(abs(u2[d] - v) for d, v in exp.items()), float(np.abs(r2[free]).max() / np.abs(K2).max())))
        return out

    def replay(env):
        out = run_float(env)
        bad = any(a > 1e-9 or b > 1e-9 for a, b in out)
        return bad, {"round_1 (constraint error, relative residual on free dofs)": out[0], "round_2": out[1]}

    mark = c.mark()
    sols = []
    exps = []
    with facade.symbolic(), stubs.ideal_linear_solver():
        for rnd_, lay in enumerate((first, second)):
            simu.Bc_Init()
            exps.append(apply_layout(simu, lay, tag=f"r{rnd_}"))
            u, _ = Solvers.Solve_simu(simu, pt)
            sols.append(np.asarray(u, dtype=object).copy())
            if rnd_ == 1:
                Fvec = np.asarray(simu.Bc_vector_Neumann(pt), dtype=object).reshape(-1) if not hasattr(simu.Bc_vector_Neumann(pt), "a") else simu.Bc_vector_Neumann(pt).a.reshape(-1)
        # fresh simulation, second conditions only, same symbols
        mesh_b, simu_b = build(cfg)
        simu_b.Get_K_C_M_F()
        _reapply(simu_b, simu)
        ub, _ = Solvers.Solve_simu(simu_b, pt)
    pcs = c.pc_since(mark)
    res.paths, res.path_conditions = 1, len(pcs)
    res.symbols = len(c.input_vids())
    K = simu.Get_K_C_M_F()[0]
    Kd = np.asarray(K.toarray(), dtype=float)
    kmax = Fraction(float(np.abs(Kd).max()))
    u = sols[1]
    for d, want in sorted(exps[1].items()):
        res.record(f"{key} second solve: u[{d}] = entered value", prove_abs_le(as_sym(u[d]) - want, 0, pcs, key), replay, key=f"{key} constrained dof (second round)",
                   sample=None if d != sorted(exps[1])[0] else {"config": key, "obligation": "after solve; Bc_Init(); other conditions (same count, other dofs); solve: every constrained dof holds its entered value, for all values"})
    r = facade._matmul(np.asarray(Kd, dtype=object), np.asarray(u, dtype=object)) - Fvec
    for d in range(mesh.Nn * dof_n):
        if d in exps[1]:
            continue
        res.record(f"{key} second solve: (K u - F)[{d}] = 0", prove_abs_le(r[d], TOL * kmax, pcs, key), replay, key=f"{key} free-dof equilibrium (second round)")
        res.record(f"{key} second solve = fresh simulation at dof {d}", prove_abs_le(as_sym(u[d]) - as_sym(ub[d]), TOL, pcs, key), replay, key=f"{key} second round = fresh simulation")
    d0 = sorted(exps[1])[0]
    o = prove_abs_le(as_sym(u[d0]) - exps[1][d0] * 2, 0, pcs, "twin")
    res.twin(f"{key} twin", o.status == "cex")
    res.stubs |= facade.USED_STUBS
    return res


def _apply_concrete(simu, layout, full, c, tag):
    """the same conditions with the concrete values of the symbols named as apply_layout names them"""
    byname = {c.name(v): full[v] for v in full if v < len(c.names)}
    pt = simu.problemType
    unknowns_all = simu.Get_unknowns(pt)
    dof_n = simu.Get_dof_n(pt)
    expected = {}
    k = 0
    for kind, nodes, unknowns, vk in layout:
        nodes = np.asarray(nodes, dtype=int)
        vals, per_node = [], []
        for u in unknowns:
            k += 1
            if vk == "const":
                v = byname[f"{tag}v{k}"]
                vals.append(v)
                per_node.append([v] * len(nodes))
            else:
                arr = np.array([byname[f"{tag}a{k}_[{i}]"] for i in range(len(nodes))])
                vals.append(arr)
                per_node.append(list(arr))
        if kind == "D":
            simu.add_dirichlet(nodes, vals, unknowns)
            for ui, u in enumerate(unknowns):
                for ni, n in enumerate(nodes):
                    d = int(n) * dof_n + unknowns_all.index(u)
                    expected[d] = expected.get(d, 0) + per_node[ui][ni]
        else:
            simu.add_neumann(nodes, vals, unknowns)
    return expected


def job(cfg):
    UNIT[0] = Fraction(1)  # per-job switch: never inherited from the previous job of the same worker
    if cfg.get("resolve"):
        return job_resolve(cfg)
    if cfg.get("backend"):
        return job_backend(cfg)
    return job_connection(cfg) if cfg.get("connection") else job_layout(cfg)


def main():
    t0 = time.time()
    tier = harness.tier()
    configs = []
    for lay in LAYOUTS:
        configs.append({"sim": "elastic", "layout": lay})
        configs.append({"sim": "elastic", "layout": lay, "orphan": True})
    for lay in ("disjoint", "duplicated"):
        configs.append({"sim": "nonsym", "layout": lay})
    configs.append({"sim": "nonsym", "layout": "overlap", "orphan": True})
    configs.append({"sim": "thermal", "layout": "thermal"})
    # every prescribed value and load below 2^-50 ~ 9e-16 (a problem in small units)
    configs.append({"sim": "thermal", "layout": "thermal", "tiny": True})
    configs.append({"sim": "elastic", "layout": "disjoint", "tiny": True})
    configs.append({"sim": "nonsym", "layout": "overlap", "tiny": True})
    configs.append({"sim": "thermal", "layout": "thermal", "orphan": True})
    configs.append({"sim": "elastic", "layout": "disjoint", "newton": True})
    configs.append({"sim": "elastic", "layout": "single", "newton": True})
    configs.append({"sim": "nonsym", "layout": "single", "newton": True})
    configs.append({"sim": "elastic", "layout": "duplicated", "newton": True, "orphan": True})
    configs.append({"connection": True})
    for rs in RESOLVE:
        configs.append({"sim": "elastic", "resolve": rs})
    for sv in ("scipy", "cg", "bicg", "gmres", "lgmres", "lsq_linear"):
        configs.append({"backend": True, "solver": sv})
    results = harness.run_jobs(job, configs)
    harness.finish(
        PID, results, t0=t0,
        explanation="Bounded symbolic execution + SMT. The real constraint / load / solve pipeline runs with every prescribed value and load symbolic (constants, nodal arrays, "
                    "coefficients of functions of position, the current Newton iterate); the linear solve is the ideal-solver stub (exact rational elimination). The returned solution is "
                    "an affine form in the symbols; constrained dofs = sum of entered values, (K u - F) = 0 on free dofs, orphan dofs at rest with a non-singular system, elimination = "
                    "Lagrange multipliers, connection constraints satisfied, are linear identities decided for all values.",
        bound={"layouts": list(LAYOUTS) + list(LAYOUTS_T), "meshes": "tri4 (5 nodes) / quad2 (6 nodes), with and without an orphan node", "paths": ["linear", "Newton-incremental from an arbitrary iterate"],
               "resolutions": ["r1 elimination", "r2 Lagrange (bordered, code's alpha scaling)"], "tolerance": "0 for constraints; 1e-9 max|K| for equilibrium (float noise of K)"},
        symbolic=["all prescribed values (constants, arrays, polynomial coefficients)", "all loads", "current Newton iterate"],
        assumptions=["linear solver backends (pypardiso, scipy spsolve, cg, bicg, gmres, lgmres, lsq_linear) honour A x = b: FFI numerics, outside",
                     "r1 and r2 are compared on the same problem with one more dof constrained either by a Dirichlet condition (r1) or by a single-dof Lagrange condition (r2)"],
        source_files=["EasyFEA/Simulations/Solvers.py", "EasyFEA/Simulations/_simu.py", "EasyFEA/FEM/_boundary_conditions.py"],
        rule="one job per (problem type, constraint layout, orphan / Newton variant); non-trivial = symbolic values and at least one obligation",
        exhaustive=True,
    )


if __name__ == "__main__":
    main()
