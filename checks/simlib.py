"""Small real meshes and a minimal real `_Simu` subclass (the documented extension point
`Construct_local_matrix_system`) used by several harnesses."""

from fractions import Fraction

import numpy as np

from engine import facade
from engine.sym import Sym, as_sym, ctx, sym_array


def mesh_from_arrays(groups, coords):
    """groups: list of (elemType name, connect array). coords (Nn,3)."""
    from EasyFEA.FEM._group_elem import GroupElemFactory
    from EasyFEA.FEM._mesh import Mesh
    from EasyFEA.FEM._utils import ElemType

    coords = np.asarray(coords)
    if coords.dtype != object:
        coords = coords.astype(float)
    d = {}
    for et, connect in groups:
        et = ElemType[et]
        d[et] = GroupElemFactory.Create(et, np.asarray(connect, dtype=int), coords)
        if coords.dtype != object:
            d[et].Get_connect_n_e()  # connectivity helper built by the unmodified scipy code (as gmsh-made meshes have it)
    return Mesh(d)


def line_mesh(ne, elemType="SEG2", length=1.0, direction=(1.0, 0.0, 0.0), with_points=True):
    """ne segments along `direction`; higher-order segments get equally spaced interior nodes
    (gmsh ordering: end nodes first, then interior nodes)."""
    order = int(elemType[3:]) - 1
    npe = order + 1
    nn = ne * order + 1
    t = np.linspace(0.0, length, nn)
    coords = np.outer(t, np.asarray(direction, dtype=float))
    connect = []
    for e in range(ne):
        first = e * order
        last = first + order
        connect.append([first, last] + list(range(first + 1, last)))
    groups = [(elemType, connect)]
    if with_points:
        groups.insert(0, ("POINT", [[0], [nn - 1]]))
    return mesh_from_arrays(groups, coords)


def make_symsimu(mesh, dof_n=1):
    """A real simulation (subclass of Simulations.Thermal) whose local matrix system is supplied by the check
    through the documented extension point `Construct_local_matrix_system`.
    `mats[groupElem.elemType] = (K_e, C_e, M_e, F_e)`; `groups` (optional) lists the contributing element groups
    (any dimension: a user subclass may add boundary groups)."""
    from EasyFEA import Models, Simulations

    class SymSimu(Simulations.Thermal):
        def __init__(self, mesh, dof_n):
            model = Models.Thermal(k=1.0, c=1.0, thickness=1.0)
            self._dof_n = dof_n
            super().__init__(mesh, model, verbosity=False)
            self.mats = {}
            self.groups = None
            self.residual_mode = False

        def Get_dof_n(self, problemType=None):
            return self._dof_n

        def Get_x0(self, problemType=None):
            return np.zeros(self.mesh.Nn * self._dof_n)

        def Get_unknowns(self, problemType=None):
            return ["t"] if self._dof_n == 1 else ["x", "y", "z", "rx", "ry", "rz"][: self._dof_n]

        def Construct_local_matrix_system(self, problemType):
            out = {}
            groups = self.groups if self.groups is not None else self.mesh.Get_list_groupElem()
            for g in groups:
                K_e, C_e, M_e, F_e = self.mats[g.elemType]
                if self.residual_mode:
                    # non-linear convention: K = tangent pieces, F = -(R(u)) at the current Newton iterate
                    u = self._Solver_Get_Newton_Raphson_current_solution()
                    if self.algo == "elliptic":
                        u_t, v_t, a_t = u, None, None
                    else:
                        u_t, v_t, a_t = self._Solver_Evaluate_u_v_a_for_time_scheme(problemType, u)
                    conn = g.connect
                    F_e = np.array(F_e, dtype=object).copy() if F_e is not None else np.zeros((g.Ne, g.nPe, 1), dtype=object)
                    for e in range(g.Ne):
                        for i in range(g.nPe):
                            s = 0
                            for j in range(g.nPe):
                                s = s + K_e[e, i, j] * u_t[conn[e, j]]
                                if C_e is not None and v_t is not None:
                                    s = s + C_e[e, i, j] * v_t[conn[e, j]]
                                if M_e is not None and a_t is not None:
                                    s = s + M_e[e, i, j] * a_t[conn[e, j]]
                            F_e[e, i, 0] = F_e[e, i, 0] - s
                out[g] = (K_e, C_e, M_e, F_e)
            return out

    return SymSimu(mesh, dof_n)


def sym_elem_mats(group, name, slots=("K", "C", "M", "F"), lo=-1, hi=1, spd_shadow=True):
    """Fresh symbols for every entry of every element matrix/vector of a group."""
    c = ctx()
    out = {}
    Ne, nPe = group.Ne, group.nPe
    for s in ("K", "C", "M"):
        if s in slots:
            arr = np.empty((Ne, nPe, nPe), dtype=object)
            for e in range(Ne):
                for i in range(nPe):
                    for j in range(nPe):
                        sh = None
                        if spd_shadow:
                            # diagonally dominant shadow so that shadow systems are well conditioned
                            base = Fraction(3 + (e + i) % 3, 1) if i == j else Fraction(((e + 2 * i + 3 * j) % 5) - 2, 7)
                            sh = base / (4 if s != "M" else 2)
                        arr[e, i, j] = c.var(f"{name}{s}{e}_{i}{j}", lo if i != j else Fraction(1, 2), hi if i != j else 4, shadow=sh)
            out[s] = arr
        else:
            out[s] = None
    if "F" in slots:
        arr = np.empty((Ne, nPe, 1), dtype=object)
        for e in range(Ne):
            for i in range(nPe):
                arr[e, i, 0] = c.var(f"{name}F{e}_{i}", lo, hi)
        out["F"] = arr
    else:
        out["F"] = None
    return out["K"], out["C"], out["M"], out["F"]


def small_mesh(kind, perm=None):
    """Hand-built small real meshes (bulk group(s) + boundary segments + corner points). `perm`: node renumbering
    new_id = perm[old_id] applied to connectivity and coordinates."""
    if kind == "tri4":  # unit square + centre, 4 triangles
        X = [(0, 0), (1, 0), (1, 1), (0, 1), (0.5, 0.45)]
        groups = [("TRI3", [[0, 1, 4], [1, 2, 4], [2, 3, 4], [3, 0, 4]]), ("SEG2", [[0, 1], [1, 2], [2, 3], [3, 0]]), ("POINT", [[0], [1], [2], [3]])]
    elif kind == "quad2":
        X = [(0, 0), (1, 0), (2.1, 0), (0, 1), (1.1, 0.9), (2, 1.2)]
        groups = [("QUAD4", [[0, 1, 4, 3], [1, 2, 5, 4]]), ("SEG2", [[0, 1], [1, 2], [2, 5], [5, 4], [4, 3], [3, 0]]), ("POINT", [[0], [2], [5], [3]])]
    elif kind == "mixed":  # one quadrangle and two triangles sharing nodes
        X = [(0, 0), (1, 0), (2, 0), (0, 1), (1, 1), (2, 1)]
        groups = [("QUAD4", [[0, 1, 4, 3]]), ("TRI3", [[1, 2, 5], [1, 5, 4]]), ("SEG2", [[0, 1], [1, 2], [2, 5], [5, 4], [4, 3], [3, 0]]), ("POINT", [[0], [2], [5], [3]])]
    elif kind == "tri6_2":
        X = [(0, 0), (1, 0), (1, 1), (0, 1), (0.5, 0), (1, 0.5), (0.5, 1), (0, 0.5), (0.5, 0.5)]
        groups = [("TRI6", [[0, 1, 2, 4, 5, 8], [0, 2, 3, 8, 6, 7]]), ("SEG3", [[0, 1, 4], [1, 2, 5], [2, 3, 6], [3, 0, 7]]), ("POINT", [[0], [1], [2], [3]])]
    elif kind == "quad8_1":  # one QUAD8 with curved edges (mid-side nodes off the chords): stiffness and mass rules differ and neither is exact
        X = [(0, 0), (1, 0), (1.1, 0.9), (0, 1), (0.5, -0.05), (1.1, 0.45), (0.55, 1.0), (-0.04, 0.5)]
        groups = [("QUAD8", [[0, 1, 2, 3, 4, 5, 6, 7]]), ("SEG3", [[0, 1, 4], [1, 2, 5], [2, 3, 6], [3, 0, 7]]), ("POINT", [[0], [1], [2], [3]])]
    elif kind == "tri6_curved":  # two TRI6 with a curved common edge and a curved boundary edge
        X = [(0, 0), (1, 0), (1, 1), (0, 1), (0.5, -0.06), (1.05, 0.5), (0.5, 1), (0, 0.5), (0.55, 0.45)]
        groups = [("TRI6", [[0, 1, 2, 4, 5, 8], [0, 2, 3, 8, 6, 7]]), ("SEG3", [[0, 1, 4], [1, 2, 5], [2, 3, 6], [3, 0, 7]]), ("POINT", [[0], [1], [2], [3]])]
    elif kind == "seg3":
        X = [(0, 0), (0.4, 0), (1.0, 0), (1.7, 0)]
        groups = [("SEG2", [[0, 1], [1, 2], [2, 3]]), ("POINT", [[0], [3]])]
    elif kind == "tetra2":
        X3 = [(0, 0, 0), (1, 0, 0), (0, 1, 0), (0, 0, 1), (1, 1, 1)]
        groups = [("TETRA4", [[0, 1, 2, 3], [1, 2, 3, 4]]), ("TRI3", [[0, 2, 1], [0, 1, 3], [0, 3, 2], [1, 2, 4], [1, 4, 3], [2, 3, 4]])]
        X = None
    else:
        raise ValueError(kind)
    if X is not None:
        coords = np.zeros((len(X), 3))
        coords[:, :2] = np.asarray(X, dtype=float)
    else:
        coords = np.asarray(X3, dtype=float)
    if perm is not None:
        perm = np.asarray(perm, dtype=int)
        newc = np.zeros_like(coords)
        newc[perm] = coords
        coords = newc
        groups = [(et, perm[np.asarray(cn, dtype=int)]) for et, cn in groups]
    return mesh_from_arrays(groups, coords)


def gmsh_mesh(elemType, size=None, layers=2):
    """Small unstructured mesh of the unit square / cube made by the real Mesher (gmsh)."""
    from EasyFEA import ElemType
    from EasyFEA.Geoms import Domain, Point

    et = ElemType[elemType]
    high = elemType in ("TRI10", "TRI15", "TETRA10", "HEXA20", "HEXA27", "PRISM15", "PRISM18", "QUAD9", "QUAD8", "TRI6")
    if et in ElemType.Get_2D():
        size = size or (0.75 if elemType in ("TRI10", "TRI15") else 0.6)
        return Domain(Point(0, 0), Point(1, 1), size).Mesh_2D([], et)
    if et in ElemType.Get_3D():
        size = size or (1.0 if high else 0.7)
        return Domain(Point(0, 0), Point(1, 1), size).Mesh_Extrude([], [0, 0, 1], [layers], et)
    raise ValueError(elemType)


def row_mesh(elemType, n=2):
    """A single row of n regular elements made by the real Mesher (one element wide in the other direction(s)): hourglass modes of an
    under-integrated element are not restrained by neighbours there."""
    from EasyFEA import ElemType
    from EasyFEA.Geoms import Domain, Point

    et = ElemType[elemType]
    dom = Domain(Point(0, 0), Point(float(n), 1.0), 1.0)
    if et in ElemType.Get_2D():
        return dom.Mesh_2D([], et, isOrganised=True)
    return dom.Mesh_Extrude([], [0, 0, 1], [1], et, isOrganised=True)


def transform_mesh(mesh, A=None, b=None, perm=None):
    """Affine image x -> A x + b and/or node renumbering new_id = perm[old_id] of a real mesh (all groups rebuilt)."""
    coords = np.asarray(mesh.coord, dtype=float)
    if A is not None:
        coords = coords @ np.asarray(A, dtype=float).T
    if b is not None:
        coords = coords + np.asarray(b, dtype=float)
    groups = []
    for et, g in mesh.dict_groupElem.items():
        groups.append((et.name, np.asarray(g.connect, dtype=int)))
    if perm is not None:
        perm = np.asarray(perm, dtype=int)
        newc = np.zeros_like(coords)
        newc[perm] = coords
        coords = newc
        groups = [(et, perm[cn]) for et, cn in groups]
    return mesh_from_arrays(groups, coords)


def mixed_mesh_interior():
    """3x3 nodes, two quadrangles + four triangles, one (off-centre) interior node; boundary segments."""
    X = [(0, 0), (1, 0), (2, 0), (0, 1), (1.1, 0.9), (2, 1), (0, 2), (1, 2), (2, 2)]
    coords = np.zeros((9, 3))
    coords[:, :2] = X
    groups = [("QUAD4", [[0, 1, 4, 3], [1, 2, 5, 4]]), ("TRI3", [[3, 4, 7], [3, 7, 6], [4, 5, 8], [4, 8, 7]]),
              ("SEG2", [[0, 1], [1, 2], [2, 5], [5, 8], [8, 7], [7, 6], [6, 3], [3, 0]]), ("POINT", [[0], [2], [8], [6]])]
    return mesh_from_arrays(groups, coords)


def boundary_nodes(mesh):
    """Nodes of the boundary groups (dimension dim-1) of a mesh."""
    out = set()
    for g in mesh.Get_list_groupElem(mesh.dim - 1):
        out |= set(np.asarray(g.connect).ravel().tolist())
    return np.array(sorted(out), dtype=int)


_SECTION = {}


def beam_section(b=0.2, h=0.3):
    from EasyFEA import Mesher
    from EasyFEA.Geoms import Domain, Point

    key = (b, h)
    if key not in _SECTION:
        _SECTION[key] = Mesher().Mesh_2D(Domain(Point(-b / 2, -h / 2), Point(b / 2, h / 2), min(b, h) / 2))
    return _SECTION[key]


def beam_section_circle(d=0.3):
    from EasyFEA import Mesher
    from EasyFEA.Geoms import Circle, Point

    key = ("circle", d)
    if key not in _SECTION:
        _SECTION[key] = Mesher().Mesh_2D(Circle(Point(), d, d / 6))
    return _SECTION[key]


def beam_simu(dim, elemType, p1, p2, ne=2, timoshenko=False, E=210.0, v=0.3, yAxis=None, section=None, nonuniform=0.13):
    """A real Beam simulation on one straight member from p1 to p2 meshed with `ne` elements (+ one extra node at
    `nonuniform` x L so that the element lengths differ; None for a uniform mesh)."""
    from EasyFEA import Mesher, Models, Simulations, ElemType
    from EasyFEA.Geoms import Point, Line

    section = section or beam_section()
    P1, P2 = Point(*p1), Point(*p2)
    L = float(np.linalg.norm(np.asarray(p2, float) - np.asarray(p1, float)))
    line = Line(P1, P2, L / ne)
    kw = {}
    if yAxis is not None:
        kw["yAxis"] = yAxis
    beam = Models.Beam.Isotropic(dim, line, section, E, v, **kw)
    extra = []
    if nonuniform:
        q = np.asarray(p1, float) + nonuniform * (np.asarray(p2, float) - np.asarray(p1, float))
        extra = [Point(*q)]
    mesh = Mesher().Mesh_Beams([beam], elemType=ElemType[elemType], additionalPoints=extra)
    structure = Models.Beam.BeamStructure([beam])
    simu = Simulations.Beam(mesh, structure, verbosity=False, useTimoshenko=timoshenko)
    return simu, beam, L


def frame_simu(E1=210.0, E2=150.0, timoshenko=False):
    """A real Beam simulation on a two-member 2-D L-frame (members meet at the corner with their own nodes: a connection welds or hinges them)."""
    from EasyFEA import Mesher, Models, Simulations, ElemType
    from EasyFEA.Geoms import Point, Line

    section = beam_section()
    line1 = Line(Point(0, 0), Point(2.0, 0), 1.0)
    line2 = Line(Point(2.0, 0), Point(2.0, 1.5), 0.75)
    beam1 = Models.Beam.Isotropic(2, line1, section, E1, 0.3)
    beam2 = Models.Beam.Isotropic(2, line2, section, E2, 0.3, yAxis=(-1.0, 0.0, 0.0))
    mesh = Mesher().Mesh_Beams([beam1, beam2], elemType=ElemType.SEG2)
    structure = Models.Beam.BeamStructure([beam1, beam2])
    simu = Simulations.Beam(mesh, structure, verbosity=False, useTimoshenko=timoshenko)
    nodes = {"clamp": mesh.Nodes_Point(Point(0, 0)), "corner": mesh.Nodes_Point(Point(2.0, 0)), "tip": mesh.Nodes_Point(Point(2.0, 1.5))}
    return simu, (beam1, beam2), nodes
