"""Small real meshes and a minimal real `_Simu` subclass (the documented extension point
`Construct_local_matrix_system`) used by several harnesses."""

from fractions import Fraction

import numpy as np

from engine import facade
from engine.sym import Sym, as_sym, ctx, sym_array


def mesh_from_arrays(groups, coords):
    """groups: list of (elemType name, connect array). coords (Nn,3)."""
    from EasyFEA.FEM._group_elem import GroupElemFactory
    from EasyFEA.FEM._mesh import Mesh
    from EasyFEA.FEM._utils import ElemType

    coords = np.asarray(coords)
    if coords.dtype != object:
        coords = coords.astype(float)
    d = {}
    for et, connect in groups:
        et = ElemType[et]
        d[et] = GroupElemFactory.Create(et, np.asarray(connect, dtype=int), coords)
    return Mesh(d)


def line_mesh(ne, elemType="SEG2", length=1.0, direction=(1.0, 0.0, 0.0), with_points=True):
    """ne segments along `direction`; higher-order segments get equally spaced interior nodes
    (gmsh ordering: end nodes first, then interior nodes)."""
    order = int(elemType[3:]) - 1
    npe = order + 1
    nn = ne * order + 1
    t = np.linspace(0.0, length, nn)
    coords = np.outer(t, np.asarray(direction, dtype=float))
    connect = []
    for e in range(ne):
        first = e * order
        last = first + order
        connect.append([first, last] + list(range(first + 1, last)))
    groups = [(elemType, connect)]
    if with_points:
        groups.insert(0, ("POINT", [[0], [nn - 1]]))
    return mesh_from_arrays(groups, coords)


def make_symsimu(mesh):
    """A real simulation (subclass of Simulations.Thermal: one dof per node) whose local matrix system is supplied by the check."""
    from EasyFEA import Models, Simulations

    class SymSimu(Simulations.Thermal):
        def __init__(self, mesh):
            model = Models.Thermal(k=1.0, c=1.0, thickness=1.0)
            super().__init__(mesh, model, verbosity=False)
            self.mats = {}
            self.residual_mode = False
            self.fext = None

        def Construct_local_matrix_system(self, problemType):
            out = {}
            for g in self.mesh.Get_list_groupElem():
                K_e, C_e, M_e, F_e = self.mats[g.elemType]
                if self.residual_mode:
                    # non-linear convention: K = tangent pieces, F = -(R(u)) at the current Newton iterate
                    u = self._Solver_Get_Newton_Raphson_current_solution()
                    if self.algo == "elliptic":
                        u_t, v_t, a_t = u, None, None
                    else:
                        u_t, v_t, a_t = self._Solver_Evaluate_u_v_a_for_time_scheme(problemType, u)
                    conn = g.connect
                    F_e = np.array(F_e, dtype=object).copy() if F_e is not None else np.zeros((g.Ne, g.nPe, 1), dtype=object)
                    for e in range(g.Ne):
                        for i in range(g.nPe):
                            s = 0
                            for j in range(g.nPe):
                                s = s + K_e[e, i, j] * u_t[conn[e, j]]
                                if C_e is not None and v_t is not None:
                                    s = s + C_e[e, i, j] * v_t[conn[e, j]]
                                if M_e is not None and a_t is not None:
                                    s = s + M_e[e, i, j] * a_t[conn[e, j]]
                            F_e[e, i, 0] = F_e[e, i, 0] - s
                out[g] = (K_e, C_e, M_e, F_e)
            return out

    return SymSimu(mesh)


def sym_elem_mats(group, name, slots=("K", "C", "M", "F"), lo=-1, hi=1, spd_shadow=True):
    """Fresh symbols for every entry of every element matrix/vector of a group."""
    c = ctx()
    out = {}
    Ne, nPe = group.Ne, group.nPe
    for s in ("K", "C", "M"):
        if s in slots:
            arr = np.empty((Ne, nPe, nPe), dtype=object)
            for e in range(Ne):
                for i in range(nPe):
                    for j in range(nPe):
                        sh = None
                        if spd_shadow:
                            # diagonally dominant shadow so that shadow systems are well conditioned
                            base = Fraction(3 + (e + i) % 3, 1) if i == j else Fraction(((e + 2 * i + 3 * j) % 5) - 2, 7)
                            sh = base / (4 if s != "M" else 2)
                        arr[e, i, j] = c.var(f"{name}{s}{e}_{i}{j}", lo if i != j else Fraction(1, 2), hi if i != j else 4, shadow=sh)
            out[s] = arr
        else:
            out[s] = None
    if "F" in slots:
        arr = np.empty((Ne, nPe, 1), dtype=object)
        for e in range(Ne):
            for i in range(nPe):
                arr[e, i, 0] = c.var(f"{name}F{e}_{i}", lo, hi)
        out["F"] = arr
    else:
        out["F"] = None
    return out["K"], out["C"], out["M"], out["F"]
