"""C02 - K symmetric PSD with exactly the physical kernel; M SPD carrying the mass.

K, C, M come from the real `Get_K_C_M_F()` of Elastic / Thermal / Beam on connected >=2-element real meshes.
 * kernel:        |K r(theta)| <= tol for ALL rigid motions (symbolic translation / rotation parameters; QF_LRA);
 * no spurious mode: after restraining a statically determinate support set, K_ff - mu I is positive definite for
                  all vectors (congruence certificate: exact rational W A W^T, solver refutes the row-wise relaxation);
 * PSD:           K + tau I positive definite; M - mu I positive definite (continuum, thermal), beam M + tau I;
 * mass:          r_d^T M r_d = rho * measure * thickness for each translation direction (identity in rho, t where
                  the operators run on symbolic density / thickness, exact rational otherwise).
A failed certificate yields the offending vector (numerical eigenvector), whose Rayleigh quotient is replayed exactly.
"""

import time
from fractions import Fraction

import numpy as np

from engine import harness, smt, facade, certs
from engine.harness import JobResult
from engine.oblig import prove_abs_le, Outcome
from engine.poly import Poly
from engine.sym import Sym, as_sym, ctx, new_context, _vid, Cond, sym_array
from checks import simlib
from checks.c01_patch import make_material, A2, A3

PID = "C02"


def rigid_modes(kind, coords, dof_n, dim):
    """matrix (Ndof, k) of the physical zero-energy modes: translations and (small) rotations about the origin."""
    n = coords.shape[0]
    x, y, z = coords[:, 0], coords[:, 1], coords[:, 2]
    modes = []

    def vec(**comp):
        v = np.zeros((n, dof_n))
        for k, val in comp.items():
            v[:, int(k[1:])] = val
        return v.ravel()

    if kind == "thermal":
        return np.ones((n, 1))
    if kind == "elastic":
        if dim == 2:
            modes = [vec(c0=1), vec(c1=1), vec(c0=-y, c1=x)]
        else:
            modes = [vec(c0=1), vec(c1=1), vec(c2=1), vec(c1=-z, c2=y), vec(c0=z, c2=-x), vec(c0=-y, c1=x)]
    elif kind == "beam":
        if dof_n == 1:
            modes = [vec(c0=1)]
        elif dof_n == 3:
            modes = [vec(c0=1), vec(c1=1), vec(c0=-y, c1=x, c2=1)]
        else:
            modes = [vec(c0=1), vec(c1=1), vec(c2=1), vec(c1=-z, c2=y, c3=1), vec(c0=z, c2=-x, c4=1), vec(c0=-y, c1=x, c5=1)]
    return np.array(modes).T


def build(cfg):
    from EasyFEA import Simulations, Models

    kind = cfg["sim"]
    if kind == "beam":
        dim = cfg["dim"]
        p2 = {1: (2.0, 0, 0), 2: (3.0, 4.0, 0), 3: (2.0, 3.0, 6.0)}[dim]
        simu, beam, L = simlib.beam_simu(dim, cfg["elem"], (0.5, 0.25, 0) if dim > 1 else (0.5, 0, 0), tuple(np.add(p2, (0.5, 0.25 if dim > 1 else 0, 0))), 2, cfg["timoshenko"])
        simu.rho = 7.8
        info = {"measure": L, "area": float(beam.area), "dof_n": simu.Get_dof_n(), "dim": dim}
        return simu, info
    et = cfg["elem"]
    plain_measure = None
    if et.startswith("SEG"):
        mesh = simlib.line_mesh(3, et, length=1.7)
    elif et == "MIXED":
        mesh = simlib.mixed_mesh_interior()
    else:
        mesh = simlib.row_mesh(et, 2 if not et.startswith(("QUAD", "TRI")) else 3) if cfg.get("row") else simlib.gmsh_mesh(et, layers=1)
        if cfg.get("mirror"):
            # half model + its mirror image glued together with the library's own Symmetry / Merge: the mirrored elements keep their
            # connectivity, so one element group mixes both numbering orientations (det F > 0 and < 0)
            from EasyFEA import Mesh

            other = mesh.copy()
            other.Symmetry((1.0, 0.0, 0.0), (1.0, 0.0, 0.0))
            mesh = Mesh.Merge([mesh, other])
        A = np.eye(3)
        if mesh.dim == 2:
            A[:2, :2] = A2
        else:
            A = A3
        micro = 2.0 ** -13 if cfg.get("micro") else 1.0  # the same mesh in small length units (element Jacobians ~1e-9): exact scaling in floats
        mesh = simlib.transform_mesh(mesh, A * micro, np.array([0.3, -0.2, 0.1 if mesh.dim == 3 else 0.0]) * micro)
        if not (cfg.get("row") or cfg.get("mirror") or et == "MIXED"):
            # independent of the library's own area / volume: the meshed domain is the unit square / cube, its affine image has measure |det A|
            plain_measure = abs(float(np.linalg.det((A * micro)[:mesh.dim, :mesh.dim])))
    dim = mesh.dim
    if kind == "elastic":
        mat = make_material(cfg.get("law", "iso_stress" if dim == 2 else "iso"), dim)
        simu = Simulations.Elastic(mesh, mat, verbosity=False)
        simu.rho = 2.7
        thick = float(mat.thickness) if dim == 2 else 1.0
    else:
        model = Models.Thermal(k=3.5, c=1.3, thickness=0.6)
        simu = Simulations.Thermal(mesh, model, verbosity=False)
        simu.rho = 2.7
        thick = 0.6 if dim == 2 else 1.0
    measure = {1: lambda: mesh.groupElem.length, 2: lambda: mesh.area, 3: lambda: mesh.volume}[dim]()
    if plain_measure is not None:
        measure = plain_measure
    return simu, {"measure": float(measure), "thickness": thick, "dof_n": simu.Get_dof_n(), "dim": dim}


def job(cfg):
    res = JobResult(cfg)
    c = new_context()
    facade.install()
    kind = cfg["sim"]
    simu, info = build(cfg)
    K, Cm, M, F = simu.Get_K_C_M_F()
    K = K.toarray()
    Mass = (Cm if kind == "thermal" else M).toarray()
    n = K.shape[0]
    dof_n, dim = info["dof_n"], info["dim"]
    coords = np.asarray(simu.mesh.coord, dtype=float)
    key = f"{kind} {cfg['elem']}" + (f" dim={cfg.get('dim')} {'Timoshenko' if cfg.get('timoshenko') else 'EulerBernoulli'}" if kind == "beam" else f" {cfg.get('law', '')}") + (" half + mirrored half" if cfg.get("mirror") else "") + (" single row of elements" if cfg.get("row") else "") + (" in small length units (x 2^-13)" if cfg.get("micro") else "")
    res.functions |= {"_Simu.Get_K_C_M_F", "_Simu.Assembly", f"{kind.capitalize()}.Construct_local_matrix_system", "Bilinear.LinearizedElasticity", "Bilinear.GradUGradV",
                      "Bilinear.UV", "Bilinear.BeamStiffness", "Bilinear.BeamMass", "Gauss.Gauss_factory", "_GroupElem.Get_B_e_pg", "_GroupElem.Get_weightedJacobian_e_pg"}
    kmax = float(np.abs(K).max())
    mmax = float(np.abs(Mass).max())
    cscale = float(np.abs(coords).max()) + 1.0

    # (1) symmetry (ground, exact rationals)
    for name, A, amax in (("K", K, kmax), ("M", Mass, mmax)):
        d = float(np.abs(A - A.T).max())
        i, j = np.unravel_index(np.argmax(np.abs(A - A.T)), A.shape)
        exact = abs(Fraction(float(A[i, j])) - Fraction(float(A[j, i])))
        ok = exact <= Fraction(1, 10 ** 10) * Fraction(amax)
        res.record(f"{key} {name} symmetric", Outcome("held", how="ground-exact") if ok else Outcome("cex", env={}, how="ground"),
                   lambda env, A=A, name=name, amax=amax: (float(np.abs(A - A.T).max()) > 0.5e-10 * amax, {"matrix": name, "max_asymmetry": float(np.abs(A - A.T).max()), "scale": amax}),
                   key=f"{key} {name} symmetry")

    # (2) kernel contains every rigid motion: symbolic parameters
    R = rigid_modes(kind, coords, dof_n, dim)
    k = R.shape[1]
    theta = [c.var(f"theta{i}", -1, 1) for i in range(k)]
    res.symbols = k + 2
    KR = K @ R  # (n, k) floats; K r(theta) = KR theta, linear in theta
    tolK = Fraction(1, 10 ** 9) * Fraction(kmax) * Fraction(cscale)
    worst_rows = np.argsort(-np.abs(KR).sum(axis=1))[: min(n, 40)]
    goals = []
    exprs = []
    for i in worst_rows:
        e = as_sym(0)
        for j in range(k):
            e = e + theta[j] * Fraction(float(KR[i, j]))
        exprs.append(e)
    from engine.sym import Cond as _C

    T = Poly.const(tolK)
    gl = []
    for e in exprs:
        gl.append(_C(e.n.sub(T), ">"))
        gl.append(_C(e.n.add(T), "<"))
    st, m = smt.decide(c.domain_conds({_vid(t) for t in theta}) + [("or", gl)], 30000, f"{key} kernel")
    if st == "unsat":
        out = Outcome("held", how="exact")
    elif st == "sat":
        out = Outcome("cex", env=m, how="exact")
    else:
        out = Outcome("inconclusive", detail="kernel query unknown")

    def replay_kernel(env):
        th = np.array([float(env.get(_vid(t), 0)) for t in theta])
        r = R @ th
        f = K @ r
        return float(np.abs(f).max()) > float(tolK) / 2, {"rigid_motion_parameters": th.tolist(), "max_internal_force_under_rigid_motion": float(np.abs(f).max()), "tolerance": float(tolK)}

    res.record(f"{key} K r(theta) = 0 for all rigid motions", out, replay_kernel, key=f"{key} kernel contains rigid modes",
               sample={"config": key, "obligation": f"for all rigid-motion parameters theta in [-1,1]^{k}: |K r(theta)|_inf <= {float(tolK):.2e}", "n_dofs": n})

    # (3) no other zero-energy mode: restrain a statically determinate support set, K_ff - mu I > 0
    sup = certs.pick_support(R)
    free = [i for i in range(n) if i not in set(sup)]
    Kff = K[np.ix_(free, free)]
    mu = 1e-7 * float(np.abs(np.diag(K)).max())

    def cert(label, A, shiftval, what, keyname):
        status, vec, inf = certs.definiteness_certificate(A, shiftval, f"{key} {label}")

        def replay(env, A=A, vec=vec, shiftval=shiftval):
            if vec is None:
                return False, {"note": "no offending vector"}
            val, nv = certs.rayleigh_exact(A, vec, shiftval)
            return val <= 0, {"what": what, "rayleigh_quotient_minus_shift": float(val / nv), "shift": shiftval, "vector_norm2": float(nv), **inf}

        if status == "held":
            res.record(f"{key} {label}", Outcome("held", how="certificate+LRA"), replay, key=keyname,
                       sample={"config": key, "obligation": f"for all x != 0: x^T ({label}) x > 0  via exact congruence W A W^T and row-wise relaxation", **inf})
        else:
            res.record(f"{key} {label}", Outcome("cex", env={}, how="certificate failed"), replay, key=keyname)

    cert("K_ff - mu I (supports removed)", Kff, mu, "spurious zero-energy mode / singular restrained stiffness", f"{key} no spurious mode")
    # (4) K PSD: K + tau I > 0
    tau = 1e-9 * float(np.abs(np.diag(K)).max())
    cert("K + tau I", K, -tau, "negative-energy mode of K", f"{key} K positive semi-definite")
    # (5) mass / capacity matrix
    if kind == "beam":
        mt = 1e-9 * float(np.abs(np.diag(Mass)).max())
        cert("M + tau I", Mass, -mt, "negative-energy mode of the beam mass matrix", f"{key} M positive semi-definite")
    else:
        mm = 1e-7 * float(np.abs(np.diag(Mass)).max())
        cert("M - mu I", Mass, mm, "singular / indefinite consistent mass matrix", f"{kind} {cfg['elem']} consistent mass matrix positive definite")
    # (6) translational mass
    rho = Fraction(float(simu.rho))
    if kind == "beam":
        expected = rho * Fraction(info["area"]) * Fraction(info["measure"])
        ndir = min(dim, 3)
    elif kind == "thermal":
        expected = rho * Fraction(1.3) * Fraction(info["measure"]) * (Fraction(info["thickness"]) if dim == 2 else 1)
        ndir = 1
    else:
        expected = rho * Fraction(info["measure"]) * (Fraction(info["thickness"]) if dim == 2 else 1)
        ndir = dim
    for d in range(ndir):
        r = np.zeros((coords.shape[0], dof_n))
        r[:, d] = 1
        r = r.ravel()
        tot = Fraction(0)
        idx = np.nonzero(r)[0]
        for i in idx:
            for j in idx:
                if Mass[i, j] != 0.0:
                    tot += Fraction(float(Mass[i, j]))
        ok = abs(tot - expected) <= Fraction(1, 10 ** 9) * abs(expected)
        res.record(f"{key} translational mass direction {d}", Outcome("held", how="ground-exact") if ok else Outcome("cex", env={}, how="ground"),
                   lambda env, tot=tot, d=d: (abs(float(tot) - float(expected)) > 0.5e-9 * float(expected), {"direction": d, "sum_of_mass_entries": float(tot), "rho*measure*thickness": float(expected)}),
                   key=f"{key} translational mass")
    # twin: the certificate must fail on the unrestrained stiffness (it has a kernel)
    st, vec, inf = certs.definiteness_certificate(K, mu, "twin")
    res.twin(f"{key} unrestrained K is not positive definite", st == "fail")
    res.paths = 1
    return res


def job_symbolic_mass(cfg):
    """Mass matrix as an identity in symbolic density and thickness (real UV operator on symbols)."""
    from EasyFEA import Simulations

    res = JobResult(cfg)
    c = new_context()
    facade.install()
    et = cfg["elem"]
    mesh = simlib.small_mesh({"TRI3": "tri4", "QUAD4": "quad2", "TETRA4": "tetra2", "TRI6": "tri6_2"}[et])
    dim = mesh.dim
    rho = c.var("rho", Fraction(1, 10), 100)
    t = c.var("thickness", Fraction(1, 10), 10)
    res.symbols = 2
    mark = c.mark()
    with facade.symbolic():
        mat = make_material("iso_stress" if dim == 2 else "iso", dim)
        if dim == 2:
            mat.thickness = t
        simu = Simulations.Elastic(mesh, mat, verbosity=False)
        simu.rho = rho
        K, Cm, M, F = simu.Get_K_C_M_F()
    pcs = c.pc_since(mark)
    Md = M.a if isinstance(M, facade.SymMatrix) else np.asarray(M.toarray(), dtype=object)
    measure = Fraction(float(mesh.area if dim == 2 else mesh.volume))
    key = f"symbolic mass {et}"
    res.functions |= {"Bilinear.UV", "Elastic.Construct_local_matrix_system", "_Simu.rho (descriptor)", "_Simu.Assembly"}

    def replay(env):
        rf = float(as_sym(rho).eval({k: float(v) for k, v in {**c.shadow, **(env or {})}.items()}))
        tf = float(as_sym(t).eval({k: float(v) for k, v in {**c.shadow, **(env or {})}.items()}))
        m2 = make_material("iso_stress" if dim == 2 else "iso", dim)
        if dim == 2:
            m2.thickness = tf
        s2 = Simulations.Elastic(simlib.small_mesh({"TRI3": "tri4", "QUAD4": "quad2", "TETRA4": "tetra2", "TRI6": "tri6_2"}[et]), m2, verbosity=False)
        s2.rho = rf
        Mf = s2.Get_K_C_M_F()[2].toarray()
        tot = Mf[0::dim, 0::dim].sum()
        want = rf * float(measure) * (tf if dim == 2 else 1)
        return abs(tot - want) > 1e-9 * want, {"rho": rf, "thickness": tf, "sum_M_xx": float(tot), "expected": want}

    for d in range(dim):
        tot = as_sym(0)
        for i in range(d, Md.shape[0], dim):
            for j in range(d, Md.shape[1], dim):
                tot = tot + Md[i, j]
        want = rho * measure * (t if dim == 2 else 1)
        res.record(f"{key} direction {d}", prove_abs_le(tot - want, Fraction(1, 10 ** 9) * 1000, pcs, key), replay, key=f"{key} sum M = rho * measure * thickness",
                   sample=None if d else {"config": key, "obligation": "for all rho in [0.1,100], thickness in [0.1,10]: |sum_ij M_ij(direction) - rho * measure * thickness| <= 1e-6"})
    res.paths, res.path_conditions = 1, len(pcs)
    res.stubs |= facade.USED_STUBS
    return res


def run(cfg):
    return job_symbolic_mass(cfg) if cfg.get("symbolic_mass") else job(cfg)


def main():
    t0 = time.time()
    tier = harness.tier()
    configs = []
    if tier == "quick":
        el2 = ["TRI3", "TRI6", "TRI15", "QUAD4", "QUAD8", "MIXED"]
        el3 = ["TETRA4", "HEXA8", "PRISM6"]
        th = ["SEG2", "SEG3", "SEG4", "SEG5", "TRI10", "TRI15", "QUAD9", "TETRA10"]
        segs = ["SEG2", "SEG3"]
    else:
        el2 = ["TRI3", "TRI6", "TRI10", "TRI15", "QUAD4", "QUAD8", "QUAD9", "MIXED"]
        el3 = ["TETRA4", "TETRA10", "HEXA8", "HEXA20", "HEXA27", "PRISM6", "PRISM15", "PRISM18"]
        th = ["SEG2", "SEG3", "SEG4", "SEG5"] + el2 + el3
        segs = ["SEG2", "SEG3", "SEG4", "SEG5"]
    laws2 = ["iso_stress", "aniso", "ortho", "trans", "iso_strain"]
    laws3 = ["iso", "aniso", "trans", "ortho"]
    for i, et in enumerate(el2):
        configs.append({"sim": "elastic", "elem": et, "law": laws2[i % len(laws2)]})
    for i, et in enumerate(el3):
        configs.append({"sim": "elastic", "elem": et, "law": laws3[i % len(laws3)]})
    for et in th:
        configs.append({"sim": "thermal", "elem": et})
    for et, law in ((("TRI3", "iso_stress"), ("QUAD4", "aniso"), ("HEXA8", "iso")) if tier == "quick" else (("TRI3", "iso_stress"), ("TRI6", "ortho"), ("QUAD4", "aniso"), ("QUAD8", "trans"), ("TETRA4", "aniso"), ("HEXA8", "iso"))):
        configs.append({"sim": "elastic", "elem": et, "law": law, "mirror": True})
    for et in (["TRI6"] if tier == "quick" else ["TRI3", "TRI6", "QUAD9", "TETRA10"]):
        configs.append({"sim": "thermal", "elem": et, "mirror": True})
    # a single row of regular elements: the mesh on which a reduced stiffness rule shows its hourglass modes
    for et, law in ((("QUAD8", "iso_stress"), ("QUAD9", "iso_strain"), ("HEXA8", "iso"), ("HEXA20", "iso")) if tier == "quick" else
                    (("QUAD4", "iso_stress"), ("QUAD8", "iso_stress"), ("QUAD9", "iso_strain"), ("HEXA8", "iso"), ("HEXA20", "iso"), ("HEXA27", "iso"), ("PRISM6", "iso"), ("PRISM15", "iso"), ("PRISM18", "iso"))):
        configs.append({"sim": "elastic", "elem": et, "law": law, "row": True})
    for et in (["QUAD9", "HEXA20"] if tier == "quick" else ["QUAD8", "QUAD9", "HEXA20", "HEXA27", "PRISM15"]):
        configs.append({"sim": "thermal", "elem": et, "row": True})
    # small length units: gmsh's unstructured quadrangles / hexahedra / wedges are not parallelograms, their Jacobian varies inside the element
    for sim_, et, law in ((("elastic", "QUAD4", "iso_stress"), ("thermal", "HEXA8", None), ("elastic", "TRI6", "iso_strain")) if tier == "quick" else
                          (("elastic", "QUAD4", "iso_stress"), ("thermal", "QUAD4", None), ("thermal", "HEXA8", None), ("elastic", "HEXA8", "iso"), ("elastic", "TRI6", "iso_strain"), ("thermal", "QUAD9", None), ("thermal", "PRISM6", None))):
        configs.append({"sim": sim_, "elem": et, "micro": True, **({"law": law} if law else {})})
    for et in segs:
        for dim in (1, 2, 3):
            for tim in (False, True):
                configs.append({"sim": "beam", "elem": et, "dim": dim, "timoshenko": tim})
    for et in ["TRI3", "QUAD4", "TETRA4"] + (["TRI6"] if tier == "thorough" else []):
        configs.append({"symbolic_mass": True, "elem": et})
    results = harness.run_jobs(run, configs)
    harness.finish(
        PID, results, t0=t0,
        explanation="Bounded check with solver-decided certificates. K, C, M are produced by the real Get_K_C_M_F on real meshes (floats taken at their exact binary value). "
                    "Kernel: |K r(theta)| <= tol for all symbolic rigid-motion parameters (QF_LRA). Definiteness: a numerical Cholesky-inverse W gives Ahat = W A W^T computed exactly "
                    "in rationals; z3 refutes 'exists w, ||w||_inf = 1, w^T Ahat w <= 0' in a sound row-wise linear relaxation, which proves x^T A x > 0 for ALL x (K_ff - mu I after "
                    "restraining a statically determinate support set = no spurious mode and unique solvability; K + tau I; M - mu I). Mass sums are exact rational facts, and identities in "
                    "symbolic density / thickness where the operators run on symbols. Failed certificates give an offending vector whose Rayleigh quotient is replayed exactly.",
        bound={"configs": len(configs), "meshes": "real gmsh meshes (one layer in 3-D), affinely distorted; 3-element segment meshes; TRI3+QUAD4 mixed mesh; 2-element inclined beams (3-4-5, 2-3-6)",
               "mu": "1e-7 max diag", "tau": "1e-9 max diag", "kernel_tolerance": "1e-9 max|K| coordinate scale"},
        symbolic=["rigid-motion parameters (translations, rotations)", "the vector x of the quadratic form (all of R^n, through the certificate)", "density, thickness (symbolic-mass jobs)"],
        assumptions=["material laws fixed SPD instances (dependence on the moduli: C11)", "meshes enumerated, not symbolic", "the certificate is a hint: the decision is the solver's unsat; a useless certificate yields a failure, never a pass"],
        source_files=["EasyFEA/FEM/_gauss.py", "EasyFEA/FEM/_group_elem.py", "EasyFEA/FEM/Operators/Bilinear.py", "EasyFEA/Simulations/_simu.py", "EasyFEA/Simulations/_elastic.py",
                      "EasyFEA/Simulations/_thermal.py", "EasyFEA/Simulations/_beam.py", "EasyFEA/FEM/Elems/_beam.py"],
        rule="one job per (simulation, element type, law / beam family); non-trivial = symbolic rigid-motion parameters or symbolic density/thickness and at least one obligation",
        exhaustive=(tier == "thorough"),
    )


if __name__ == "__main__":
    main()
