"""C11 - linear elastic laws are SPD, mutually inverse, notation- and frame-consistent.

The real law classes (`_Behavior`, `_Update`, `Set_C`, lazy `C`/`S`), `_Apply_basis_transformation`,
`KelvinMandel_Matrix`, `Heterogeneous_Array`, `Get_Pmat`, `Apply_Pmat` and the `_params` descriptors are executed on
symbolic moduli / Poisson ratios (domains = the code's own checkers, recorded as path conditions) or on symbolic
material matrices.  `np.linalg.inv` on a symbolic matrix is exact fraction-free elimination (facade).
"""

import time
from fractions import Fraction

import numpy as np

from engine import harness, smt, facade
from engine.harness import JobResult
from engine.oblig import prove_abs_le, prove_cond, Outcome
from engine.poly import Poly
from engine.sym import Sym, as_sym, ctx, new_context, _vid, Cond, sym_array, has_sym
from engine import linsolve

PID = "C11"
IDX2 = [0, 1, 5]
TOL = Fraction(1, 10 ** 11)
AXES2 = [((1, 0, 0), (0, 1, 0)), ((3 / 5, 4 / 5, 0), (-4 / 5, 3 / 5, 0)), ((5 / 13, -12 / 13, 0), (12 / 13, 5 / 13, 0))]
AXES3 = [((1, 0, 0), (0, 1, 0)), ((2 / 7, 3 / 7, 6 / 7), (3 / 7, -6 / 7, 2 / 7)), ((1 / 9, 4 / 9, 8 / 9), (4 / 9, 7 / 9, -4 / 9)), ((3 / 5, 4 / 5, 0), (-4 / 5, 3 / 5, 0))]


def fval(c, env, s):
    return float(as_sym(s).eval({k: float(v) for k, v in {**c.shadow, **(env or {})}.items()}))


def farr(c, env, a):
    a = np.asarray(a, dtype=object)
    out = np.empty(a.shape)
    for idx in np.ndindex(*a.shape):
        out[idx] = fval(c, env, a[idx])
    return out


def minors_positive(res, M, pcs, label, replay, extra_assume=()):
    """all leading principal minors of the symbolic symmetric matrix M are > 0 (Sylvester) on the domain"""
    n = M.shape[0]
    for k in range(1, n + 1):
        d = as_sym(linsolve.det_sym(M[:k, :k])) if k > 1 else as_sym(M[0, 0])
        if d.d.is_const():
            goal = Cond(d.n.scale(1 / d.d.const_value()), ">")
        else:
            goal = ("or", [("and", [Cond(d.d, ">"), Cond(d.n, ">")]), ("and", [Cond(d.d, "<"), Cond(d.n, "<")])])
        res.record(f"{label} minor {k} > 0", prove_cond(goal, list(pcs) + list(extra_assume), f"{label} minor{k}", timeout_ms=60000), replay, key=f"{label} positive definite",
                   sample=None if k != n else {"law": label, "obligation": f"leading principal minor {k} of C > 0 for all admissible parameters (QF_NRA)", "minor": repr(d)[:300]})


def identity_check(res, A, B, pcs, label, replay, tol=0, key=None):
    """A == B entrywise"""
    A = np.asarray(A, dtype=object)
    B = np.asarray(B, dtype=object)
    if A.shape != B.shape:
        res.record(label, Outcome("cex", env={}, how="structure"), replay, key=key or label)
        return
    worst = None
    for idx in np.ndindex(*A.shape):
        o = prove_abs_le(as_sym(A[idx]) - as_sym(B[idx]), tol, pcs, label)
        if o.status != "held":
            worst = o
            break
    res.record(label, worst or Outcome("held", how="normal-form" if tol == 0 else "exact"), replay, key=key or label)


def job_iso(cfg):
    from EasyFEA import Models

    res = JobResult(cfg)
    c = new_context()
    facade.install()
    dim, ps = cfg["dim"], cfg["planeStress"]
    E = c.var("E", Fraction(1, 100), 10 ** 4)
    v = c.var("v", Fraction(-99, 100), Fraction(49, 100))
    res.symbols = 2
    label = f"Isotropic dim={dim} planeStress={ps}"
    res.functions |= {"Isotropic._Behavior", "Isotropic.get_lambda", "Isotropic.get_mu", "_Elastic.C", "_Elastic.S", "Models._utils.KelvinMandel_Matrix",
                      "Models._utils.Heterogeneous_Array", "Utilities._params descriptors"}
    mark = c.mark()
    with facade.symbolic():
        m = Models.Elastic.Isotropic(dim, E=E, v=v, planeStress=ps)
        C, S = m.C, m.S
        m3 = Models.Elastic.Isotropic(3, E=E, v=v)  # the 3-D law of the same material
        C3, S3 = m3.C, m3.S
    pcs = c.pc_since(mark)
    res.paths, res.path_conditions = 1, len(pcs)

    def replay(env):
        Ef, vf = fval(c, env, E), fval(c, env, v)
        m2 = Models.Elastic.Isotropic(dim, E=Ef, v=vf, planeStress=ps)
        Cf, Sf = m2.C, m2.S
        m3f = Models.Elastic.Isotropic(3, E=Ef, v=vf)
        C3f, S3f = m3f.C, m3f.S
        eig = np.linalg.eigvalsh(Cf).min()
        errs = {"min_eig_C": float(eig), "CS-I": float(np.abs(Cf @ Sf - np.eye(Cf.shape[0])).max()), "sym": float(np.abs(Cf - Cf.T).max())}
        if dim == 2:
            red = np.linalg.inv(S3f[np.ix_(IDX2, IDX2)]) if ps else C3f[np.ix_(IDX2, IDX2)]
            errs["2D_vs_3D_reduction"] = float(np.abs(Cf - red).max() / np.abs(Cf).max())
        bad = eig <= 0 or errs["CS-I"] > 1e-9 or errs["sym"] > 1e-9 * abs(Ef) or errs.get("2D_vs_3D_reduction", 0) > 1e-9
        return bad, {"E": Ef, "v": vf, **errs}

    identity_check(res, C, C.T, pcs, f"{label} C symmetric", replay)
    identity_check(res, C @ S, np.eye(C.shape[0], dtype=int).astype(object), pcs, f"{label} C S = I", replay)
    minors_positive(res, C, pcs, label, replay)
    if dim == 2:
        if ps:
            # zero out-of-plane stress: the in-plane compliance is the 3-D compliance restricted to (xx, yy, xy)
            identity_check(res, S, S3[np.ix_(IDX2, IDX2)], pcs, f"{label} = plane-stress reduction of the 3-D law", replay)
        else:
            identity_check(res, C, C3[np.ix_(IDX2, IDX2)], pcs, f"{label} = plane-strain restriction of the 3-D law", replay)
    # changing a parameter changes the law on next read
    E2 = c.var("E2", Fraction(1, 100), 10 ** 4)
    with facade.symbolic():
        m.E = E2
        Cn = m.C
        fresh = Models.Elastic.Isotropic(dim, E=E2, v=v, planeStress=ps).C
    identity_check(res, Cn, fresh, c.pc_since(mark), f"{label} parameter change is seen on next read", replay)
    # heterogeneous: per-element moduli give per-element laws
    Ee = sym_array("Ee", (2,), Fraction(1, 100), 10 ** 4)
    with facade.symbolic():
        mh = Models.Elastic.Isotropic(dim, E=Ee, v=v, planeStress=ps)
        Ch = mh.C
        singles = [Models.Elastic.Isotropic(dim, E=Ee[e], v=v, planeStress=ps).C for e in range(2)]
    identity_check(res, Ch, np.array(singles, dtype=object), c.pc_since(mark), f"{label} per-element field of E", replay)
    # the user's array is updated IN PLACE and assigned again (the same object): the next read is the law of the new values
    Enew = c.var("Enew", Fraction(1, 100), 10 ** 4)
    with facade.symbolic():
        Ee[0] = Enew
        mh.E = Ee
        Ch2 = mh.C
        singles2 = [Models.Elastic.Isotropic(dim, E=Ee[e], v=v, planeStress=ps).C for e in range(2)]

    def replay_inplace(env):
        arr = np.array([fval(c, env, Ee[1]) * 0.5 + 1.0, fval(c, env, Ee[1])])
        vf = fval(c, env, v)
        mm = Models.Elastic.Isotropic(dim, E=arr, v=vf, planeStress=ps)
        _ = mm.C
        arr[0] = fval(c, env, Enew)
        mm.E = arr
        got = np.asarray(mm.C)
        want = np.array([Models.Elastic.Isotropic(dim, E=float(arr[e]), v=vf, planeStress=ps).C for e in range(2)])
        err = float(np.abs(got - want).max() / np.abs(want).max())
        return err > 1e-9, {"E_field_after_in_place_update": arr.tolist(), "v": vf, "relative_error_C_after_reassigning_the_same_array": err}

    identity_check(res, Ch2, np.array(singles2, dtype=object), c.pc_since(mark), f"{label} per-element field updated in place and assigned again", replay_inplace)
    # twin
    o = prove_abs_le(as_sym(C[0, 0]) - as_sym(C[1, 1]) * 2, 0, pcs, "twin")
    res.twin(f"{label} twin", o.status == "cex")
    res.stubs |= facade.USED_STUBS
    return res


def job_trans(cfg):
    from EasyFEA import Models

    res = JobResult(cfg)
    c = new_context()
    facade.install()
    dim, ps = cfg["dim"], cfg["planeStress"]
    El = c.var("El", Fraction(1, 10), 1000, shadow=Fraction(300))
    Et = c.var("Et", Fraction(1, 10), 1000, shadow=Fraction(120))
    Gl = c.var("Gl", Fraction(1, 10), 1000, shadow=Fraction(70))
    vl = c.var("vl", Fraction(-49, 100), Fraction(49, 100), shadow=Fraction(1, 5))
    vt = c.var("vt", Fraction(-99, 100), Fraction(99, 100), shadow=Fraction(7, 20))
    res.symbols = 5
    label = f"TransverselyIsotropic dim={dim} planeStress={ps}"
    res.functions |= {"TransverselyIsotropic._Behavior", "TransverselyIsotropic.kt", "TransverselyIsotropic.Gt", "_Elastic._Apply_basis_transformation",
                      "Models._utils.Get_Pmat", "Models._utils.Apply_Pmat", "Models._utils.Heterogeneous_Array"}
    mark = c.mark()
    raised = None
    with facade.symbolic():
        try:
            m = Models.Elastic.TransverselyIsotropic(dim, El, Et, Gl, vl, vt, planeStress=ps)
            C, S = m.C, m.S
            m3 = Models.Elastic.TransverselyIsotropic(3, El, Et, Gl, vl, vt)
            C3, S3 = m3.C, m3.S
        except AssertionError as e:
            raised = e
    pcs = c.pc_since(mark)
    res.paths, res.path_conditions = 1, len(pcs)
    # standard thermodynamic admissibility (kt > 0): (1 - vt) El - 2 vl^2 Et > 0  -- stated assumption
    adm = [Cond(((1 - vt) * El - 2 * vl * vl * Et).n, ">", "admissibility kt > 0")]

    def replay(env):
        vals = [fval(c, env, x) for x in (El, Et, Gl, vl, vt)]
        try:
            m2 = Models.Elastic.TransverselyIsotropic(dim, *vals, planeStress=ps)
            Cf, Sf = m2.C, m2.S
            m3f = Models.Elastic.TransverselyIsotropic(3, *vals)
            C3f, S3f = m3f.C, m3f.S
        except AssertionError as e:
            return True, {"parameters": vals, "code_raised": repr(e)[:200]}
        eig = np.linalg.eigvalsh(Cf).min()
        errs = {"min_eig_C": float(eig), "CS-I": float(np.abs(Cf @ Sf - np.eye(Cf.shape[0])).max()), "sym": float(np.abs(Cf - Cf.T).max() / np.abs(Cf).max())}
        if dim == 2:
            red = np.linalg.inv(S3f[np.ix_(IDX2, IDX2)]) if ps else C3f[np.ix_(IDX2, IDX2)]
            errs["2D_vs_3D_reduction"] = float(np.abs(Cf - red).max() / np.abs(Cf).max())
        bad = eig <= 0 or errs["CS-I"] > 1e-9 or errs["sym"] > 1e-9 or errs.get("2D_vs_3D_reduction", 0) > 1e-9
        return bad, {"parameters": vals, **errs}

    if raised is not None:
        res.record(f"{label} constructor raised on admissible parameters", Outcome("cex", env=dict(c.shadow), how="shadow"), replay, key=f"{label} internal consistency assert")
        return res
    identity_check(res, C, C.T, pcs, f"{label} C symmetric", replay)
    identity_check(res, C @ S, np.eye(C.shape[0], dtype=int).astype(object), pcs, f"{label} C S = I (independently written C and S)", replay)
    minors_positive(res, C, pcs, label, replay, adm)
    if dim == 2:
        if ps:
            identity_check(res, S, S3[np.ix_(IDX2, IDX2)], pcs, f"{label} = plane-stress reduction of the 3-D law", replay)
        else:
            identity_check(res, C, C3[np.ix_(IDX2, IDX2)], pcs, f"{label} = plane-strain restriction of the 3-D law", replay)
    vl2 = c.var("vl2", Fraction(-49, 100), Fraction(49, 100))
    with facade.symbolic():
        m.vl = vl2
        Cn = m.C
        fresh = Models.Elastic.TransverselyIsotropic(dim, El, Et, Gl, vl2, vt, planeStress=ps).C
    identity_check(res, Cn, fresh, c.pc_since(mark), f"{label} parameter change is seen on next read", replay)
    o = prove_abs_le(as_sym(C[0, 0]) - as_sym(C[1, 1]), 0, pcs, "twin")
    res.twin(f"{label} twin", o.status == "cex")
    res.stubs |= facade.USED_STUBS
    return res


def job_ortho(cfg):
    from EasyFEA import Models

    res = JobResult(cfg)
    c = new_context()
    facade.install()
    dim, ps = cfg["dim"], cfg["planeStress"]
    names = ["E1", "E2", "E3", "G23", "G13", "G12"]
    sh = [300, 150, 100, 40, 50, 60]
    mods = [c.var(n, Fraction(s) * Fraction(9, 10), Fraction(s) * Fraction(11, 10), shadow=Fraction(s)) for n, s in zip(names, sh)]
    nus = [c.var(n, Fraction(s) - Fraction(1, 20), Fraction(s) + Fraction(1, 20), shadow=Fraction(s)) for n, s in zip(["v23", "v13", "v12"], [Fraction(1, 5), Fraction(1, 4), Fraction(3, 10)])]
    res.symbols = 9
    label = f"Orthotropic dim={dim} planeStress={ps}"
    res.functions |= {"Orthotropic._Behavior", "Orthotropic._c11.._c66", "_Elastic._Apply_basis_transformation"}
    mark = c.mark()
    raised = None
    with facade.symbolic():
        try:
            m = Models.Elastic.Orthotropic(dim, *mods, *nus, planeStress=ps)
            C, S = m.C, m.S
            m3 = Models.Elastic.Orthotropic(3, *mods, *nus)
            C3, S3 = m3.C, m3.S
        except AssertionError as e:
            raised = e
    pcs = [p for p in c.pc_since(mark)]
    res.paths, res.path_conditions = 1, len(pcs)

    def replay(env):
        vals = [fval(c, env, x) for x in mods + nus]
        try:
            m2 = Models.Elastic.Orthotropic(dim, *vals, planeStress=ps)
            Cf, Sf = m2.C, m2.S
            m3f = Models.Elastic.Orthotropic(3, *vals)
            C3f, S3f = m3f.C, m3f.S
        except AssertionError as e:
            return True, {"parameters": vals, "code_raised": repr(e)[:200]}
        eig = np.linalg.eigvalsh(Cf).min()
        errs = {"min_eig_C": float(eig), "CS-I": float(np.abs(Cf @ Sf - np.eye(Cf.shape[0])).max()), "sym": float(np.abs(Cf - Cf.T).max() / np.abs(Cf).max())}
        if dim == 2:
            red = np.linalg.inv(S3f[np.ix_(IDX2, IDX2)]) if ps else C3f[np.ix_(IDX2, IDX2)]
            errs["2D_vs_3D_reduction"] = float(np.abs(Cf - red).max() / np.abs(Cf).max())
        bad = eig <= 0 or errs["CS-I"] > 1e-9 or errs["sym"] > 1e-9 or errs.get("2D_vs_3D_reduction", 0) > 1e-9
        return bad, {"parameters": vals, **errs}

    if raised is not None:
        res.record(f"{label} constructor raised on admissible parameters", Outcome("cex", env=dict(c.shadow), how="shadow"), replay, key=f"{label} internal consistency assert")
        return res
    # only the polynomial part of the path condition (aux-free) is used as assumption; the box is a neighbourhood of an admissible material
    pcs_poly = [p for p in pcs if not any(c.kind.get(v) == "aux" for v in p.vars())]
    identity_check(res, C, C.T, pcs_poly, f"{label} C symmetric", replay)
    identity_check(res, C @ S, np.eye(C.shape[0], dtype=int).astype(object), pcs_poly, f"{label} C S = I (independently written C and S)", replay)
    if dim == 2:
        if ps:
            identity_check(res, S, S3[np.ix_(IDX2, IDX2)], pcs_poly, f"{label} = plane-stress reduction of the 3-D law", replay)
        else:
            identity_check(res, C, C3[np.ix_(IDX2, IDX2)], pcs_poly, f"{label} = plane-strain restriction of the 3-D law", replay)
    # SPD of the compliance (polynomial in 1/E): minors of S with positive moduli
    minors_positive(res, S, pcs_poly, label + " (compliance)", replay)
    o = prove_abs_le(as_sym(C[0, 0]) - as_sym(C[1, 1]), 0, pcs_poly, "twin")
    res.twin(f"{label} twin", o.status == "cex")
    res.stubs |= facade.USED_STUBS
    return res


def sym_symmetric(name, n, lo=-1, hi=1, diag=(2, 4)):
    c = ctx()
    M = np.empty((n, n), dtype=object)
    for i in range(n):
        for j in range(i, n):
            if i == j:
                M[i, j] = c.var(f"{name}{i}{j}", diag[0], diag[1])
            else:
                M[i, j] = M[j, i] = c.var(f"{name}{i}{j}", lo, hi)
    return M


def rot4_oracle(Cm, a1, a2, a3):
    """Kelvin-Mandel matrix of Q-rotated 4th-order tensor: C'_ijkl = Q_ia Q_jb Q_kc Q_ld C_abcd, Q = [a1 a2 a3] columns."""
    Q = np.array([a1, a2, a3], dtype=object).T  # global components of material axes
    e = [(0, 0), (1, 1), (2, 2), (1, 2), (0, 2), (0, 1)]
    r2 = Fraction(float(np.sqrt(2)))

    def w(I):
        return 1 if I < 3 else r2

    # 4th-order tensor from KM matrix
    T = {}
    for I, (i, j) in enumerate(e):
        for J, (k, l) in enumerate(e):
            val = Cm[I, J] / (w(I) * w(J))
            for (p, q) in {(i, j), (j, i)}:
                for (r, s) in {(k, l), (l, k)}:
                    T[(p, q, r, s)] = val
    out = np.empty((6, 6), dtype=object)
    for I, (i, j) in enumerate(e):
        for J, (k, l) in enumerate(e):
            tot = 0
            for (a, b, cc, d), val in T.items():
                coef = Q[i, a] * Q[j, b] * Q[k, cc] * Q[l, d]
                if coef != 0:
                    tot = tot + coef * val
            out[I, J] = tot * (w(I) * w(J))
    return out


def job_frame(cfg):
    """_Apply_basis_transformation / Get_Pmat / Apply_Pmat with symbolic material matrices and enumerated exact rational axes."""
    from EasyFEA import Models
    from EasyFEA.Models._utils import Get_Pmat, Apply_Pmat

    res = JobResult(cfg)
    c = new_context()
    facade.install()
    a1, a2 = [np.array([Fraction(x).limit_denominator(1000) for x in ax], dtype=object) for ax in cfg["axes"]]
    a3 = np.array([a1[1] * a2[2] - a1[2] * a2[1], a1[2] * a2[0] - a1[0] * a2[2], a1[0] * a2[1] - a1[1] * a2[0]], dtype=object)
    label = f"frame axes={tuple(map(str, a1))}/{tuple(map(str, a2))}"
    Cm = sym_symmetric("c", 6)
    res.symbols = 21
    res.functions |= {"Models._utils.Get_Pmat", "Models._utils.Apply_Pmat", "_Elastic._Apply_basis_transformation", "Anisotropic._Behavior", "Anisotropic.Set_C"}
    af1 = np.array([float(x) for x in a1])
    af2 = np.array([float(x) for x in a2])
    mark = c.mark()
    facade.OPAQUE_INV_FROM = 4
    with facade.symbolic():
        P = Get_Pmat(af1, af2)
        Cg = Apply_Pmat(P, Cm, toGlobal=True)
        back = Apply_Pmat(P, Cg, toGlobal=False)
        # the anisotropic law with the same matrix (Kelvin-Mandel input) and rotated axes
        an = Models.Elastic.Anisotropic(3, Cm, useVoigtNotation=False, axis1=af1, axis2=af2)
        Can = an.C
    pcs = c.pc_since(mark)
    res.paths, res.path_conditions = 1, len(pcs)

    def replay(env):
        Cf = farr(c, env, Cm)
        Pf = Get_Pmat(af1, af2)
        Cgf = Apply_Pmat(Pf, Cf, toGlobal=True)
        want = np.array(rot4_oracle(Cf, af1, af2, np.cross(af1, af2)), dtype=float)
        an2 = Models.Elastic.Anisotropic(3, Cf, useVoigtNotation=False, axis1=af1, axis2=af2)
        errs = {"P_orthogonality": float(np.abs(Pf @ Pf.T - np.eye(6)).max()), "rotation_vs_tensor_oracle": float(np.abs(Cgf - want).max()),
                "anisotropic_law_vs_oracle": float(np.abs(an2.C - want).max()), "roundtrip": float(np.abs(Apply_Pmat(Pf, Cgf, toGlobal=False) - Cf).max())}
        return max(errs.values()) > 1e-9, errs

    Pm = np.asarray(P, dtype=object)
    identity_check(res, np.array([[sum(as_sym(Pm[i, k]) * as_sym(Pm[j, k]) for k in range(6)) for j in range(6)] for i in range(6)], dtype=object),
                   np.eye(6, dtype=int).astype(object), pcs, f"{label} P orthogonal", replay, tol=TOL)
    want = rot4_oracle(Cm, a1, a2, a3)
    identity_check(res, Cg, want, pcs, f"{label} Apply_Pmat = Q-rotated 4th-order tensor", replay, tol=TOL * 100)
    identity_check(res, back, Cm, pcs, f"{label} toGlobal=False inverts toGlobal=True", replay, tol=TOL * 100)
    identity_check(res, Can, want, pcs, f"{label} Anisotropic law with rotated axes = rotated tensor", replay, tol=TOL * 100)
    res.samples.append({"config": label, "obligation": "for all symmetric C (21 symbolic entries): |Apply_Pmat(P, C)[I,J] - (Q x Q x Q x Q : C)[I,J]| <= 1e-9 (QF_LRA)"})
    # axes of any length give the law of the unit axes (through the public constructors)
    for scale in (2.0, 0.25, 1000.0):
        try:
            with facade.symbolic():
                an_s = Models.Elastic.Anisotropic(3, Cm, useVoigtNotation=False, axis1=af1 * scale, axis2=af2 * (scale + 1))
                Cs = an_s.C
        except AssertionError as e:  # perpendicular axes of that length refused: 'axes of any length' is violated by a raise, recorded and replayed
            def replay_len(env, scale=scale):
                try:
                    Models.Elastic.Anisotropic(3, farr(c, env, Cm), useVoigtNotation=False, axis1=af1 * scale, axis2=af2 * (scale + 1))
                    return False, {}
                except AssertionError as e2:
                    return True, {"axis1": (af1 * scale).tolist(), "axis2": (af2 * (scale + 1)).tolist(), "dot_product_over_norms": float((af1 @ af2) / (np.linalg.norm(af1) * np.linalg.norm(af2))), "raised": repr(e2)[:200]}
            res.record(f"{label} axes scaled by {scale} give the same law", Outcome("cex", env=dict(c.shadow), how="structure", detail=repr(e)[:100]), replay_len, key=f"{label} axes scaled by {scale} give the same law")
            continue
        identity_check(res, Cs, Can, c.pc_since(mark), f"{label} axes scaled by {scale} give the same law", replay, tol=TOL * 100)
    o = prove_abs_le(as_sym(Cg[0, 0]) - as_sym(want[1, 1]) - 1, TOL, pcs, "twin")
    res.twin(f"{label} twin", o.status == "cex")
    res.stubs |= facade.USED_STUBS
    return res


def job_pmat_unnormalised(cfg):
    """Get_Pmat's own contract: 'normalize those vectors' - orthogonal P for orthogonal axes of any length."""
    from EasyFEA.Models._utils import Get_Pmat

    res = JobResult(cfg)
    c = new_context()
    facade.install()
    s1 = c.var("len1", Fraction(1, 2), 3, shadow=2)
    s2 = c.var("len2", Fraction(1, 2), 3, shadow=Fraction(3, 2))
    res.symbols = 2
    base1 = np.array([Fraction(3, 5), Fraction(4, 5), 0], dtype=object)
    base2 = np.array([Fraction(-4, 5), Fraction(3, 5), 0], dtype=object)
    mark = c.mark()
    with facade.symbolic():
        P = Get_Pmat(base1 * s1, base2 * s2)
        P1 = Get_Pmat(np.array([0.6, 0.8, 0.0]), np.array([-0.8, 0.6, 0.0]))
    pcs = c.pc_since(mark)
    res.paths, res.path_conditions = 1, len(pcs)
    res.functions.add("Models._utils.Get_Pmat")

    def replay(env):
        l1, l2 = fval(c, env, s1), fval(c, env, s2)
        Pf = Get_Pmat(np.array([0.6, 0.8, 0.0]) * l1, np.array([-0.8, 0.6, 0.0]) * l2)
        Pu = Get_Pmat(np.array([0.6, 0.8, 0.0]), np.array([-0.8, 0.6, 0.0]))
        err = float(np.abs(Pf - Pu).max())
        return err > 1e-9, {"axis_lengths": [l1, l2], "max_difference_to_P_of_unit_axes": err, "orthogonality_defect": float(np.abs(Pf @ Pf.T - np.eye(6)).max())}

    identity_check(res, P, P1, pcs, "Get_Pmat of unnormalised axes = Get_Pmat of unit axes", replay, tol=TOL, key="Get_Pmat with axes of length != 1")
    res.stubs |= facade.USED_STUBS
    return res


def job_notation(cfg):
    """Voigt input and Kelvin-Mandel input of the same tensor give the same law."""
    from EasyFEA import Models

    res = JobResult(cfg)
    c = new_context()
    facade.install()
    dim = cfg["dim"]
    n = 3 if dim == 2 else 6
    V = sym_symmetric("cv", n)  # Voigt matrix
    res.symbols = n * (n + 1) // 2
    r2 = Fraction(float(np.sqrt(2)))
    w = [1] * dim + [r2] * (n - dim)
    KM = np.array([[V[i, j] * w[i] * w[j] for j in range(n)] for i in range(n)], dtype=object)
    label = f"Anisotropic dim={dim} Voigt vs Kelvin-Mandel"
    res.functions |= {"Anisotropic._Behavior", "Anisotropic.Set_C", "Models._utils.KelvinMandel_Matrix"}
    mark = c.mark()
    facade.OPAQUE_INV_FROM = 4
    with facade.symbolic():
        a = Models.Elastic.Anisotropic(dim, V, useVoigtNotation=True)
        b = Models.Elastic.Anisotropic(dim, KM, useVoigtNotation=False)
        Ca, Cb = a.C, b.C
        Sa = a.S
    pcs = c.pc_since(mark)
    res.paths, res.path_conditions = 1, len(pcs)

    def replay(env):
        Vf = farr(c, env, V)
        wf = np.array([float(x) for x in w])
        KMf = Vf * np.outer(wf, wf)
        A = Models.Elastic.Anisotropic(dim, Vf, useVoigtNotation=True).C
        B = Models.Elastic.Anisotropic(dim, KMf, useVoigtNotation=False).C
        err = float(np.abs(A - B).max())
        return err > 1e-9, {"C_voigt_input": Vf.tolist(), "max_difference_between_the_two_laws": err}

    identity_check(res, Ca, Cb, pcs, label, replay, tol=TOL * 100, key=label)
    if n < 4:
        identity_check(res, Ca @ Sa, np.eye(n, dtype=int).astype(object), pcs, f"{label} C S = I", replay, tol=0)
    res.samples.append({"config": label, "obligation": "for all symmetric Voigt matrices: law(Voigt input) == law(Kelvin-Mandel input of the same tensor)"})
    o = prove_abs_le(as_sym(Ca[0, 0]) - as_sym(Cb[0, 0]) - as_sym(V[0, 0]), TOL, pcs, "twin")
    res.twin(f"{label} twin", o.status == "cex")
    res.stubs |= facade.USED_STUBS
    return res


def job_tilted(cfg):
    """2-D law = plane-stress / plane-strain reduction of the 3-D law when the material axes are tilted out of the plane
    (exact rational 3-D frames); one modulus symbolic, the others concrete."""
    from EasyFEA import Models

    res = JobResult(cfg)
    c = new_context()
    facade.install()
    law, ps = cfg["law"], cfg["planeStress"]
    a1, a2 = [np.array([float(Fraction(x).limit_denominator(1000)) for x in ax]) for ax in cfg["axes"]]
    E = c.var("E_l", 250, 350, shadow=300)
    res.symbols = 1
    label = f"{law} dim=2 planeStress={ps} tilted axes {cfg['axes'][0]}"
    res.functions |= {"_Elastic._Apply_basis_transformation", "Models._utils.Get_Pmat", "Models._utils.Apply_Pmat"}

    def make(dim, Ev, planeStress=True):
        if law == "aniso6":
            # a full 3-D (6, 6) Kelvin-Mandel stiffness handed to a 2-D model: the 2-D law is the plane-strain restriction of the ROTATED 3-D law
            rng = np.random.default_rng(11)
            Bm = np.round(rng.uniform(-1, 1, (6, 6)) * 8) / 8
            C6c = Bm @ Bm.T * 20 + np.eye(6) * 100
            C6m = np.array([[Ev * Fraction(float(C6c[i, j])) / 300 if not isinstance(Ev, float) else Ev * C6c[i, j] / 300 for j in range(6)] for i in range(6)], dtype=object if not isinstance(Ev, float) else float)
            return Models.Elastic.Anisotropic(dim, C6m, useVoigtNotation=False, axis1=a1, axis2=a2)
        if law == "trans":
            return Models.Elastic.TransverselyIsotropic(dim, Ev, 120.0, 70.0, 0.2, 0.35, axis_l=a1, axis_t=a2, planeStress=planeStress)
        return Models.Elastic.Orthotropic(dim, Ev, 150.0, 100.0, 40.0, 50.0, 60.0, 0.2, 0.25, 0.3, axis_1=a1, axis_2=a2, planeStress=planeStress)

    mark = c.mark()
    raised = None
    with facade.symbolic():
        try:
            m2 = make(2, E, ps)
            C2, S2 = m2.C, m2.S
            m3 = make(3, E)
            C3, S3 = m3.C, m3.S
        except AssertionError as e:
            raised = e
    pcs = [p_ for p_ in c.pc_since(mark) if not any(c.kind.get(v) == "aux" for v in p_.vars())]
    res.paths, res.path_conditions = 1, len(pcs)

    def replay(env):
        Ef = fval(c, env, E)
        try:
            A, B = make(2, Ef, ps), make(3, Ef)
            if ps:
                err = float(np.abs(A.S - B.S[np.ix_(IDX2, IDX2)]).max() / np.abs(A.S).max())
            else:
                err = float(np.abs(A.C - B.C[np.ix_(IDX2, IDX2)]).max() / np.abs(A.C).max())
        except AssertionError as e:
            return True, {"E": Ef, "code_raised": repr(e)[:200]}
        return err > 1e-9, {"E_l": Ef, "relative_difference_2D_law_vs_reduction_of_3D_law": err}

    if raised is not None:
        res.record(f"{label} constructor raised", Outcome("cex", env=dict(c.shadow), how="shadow"), replay, key=f"{label} reduction")
        return res
    scale = Fraction(1, 10 ** 4)  # compliance entries ~1e-2 .. 1e-3
    if ps:
        identity_check(res, S2, S3[np.ix_(IDX2, IDX2)], pcs, f"{label}: S_2D = in-plane block of the 3-D compliance (zero out-of-plane stress)", replay, tol=TOL * scale, key=f"{label} reduction")
    else:
        identity_check(res, C2, C3[np.ix_(IDX2, IDX2)], pcs, f"{label}: C_2D = in-plane block of the 3-D stiffness (zero out-of-plane strain)", replay, tol=TOL * 1000, key=f"{label} reduction")
    res.samples.append({"config": label, "obligation": "for all E_l in [250,350]: 2-D law equals the reduction of the 3-D law with the same tilted axes (rational identity in E_l, tolerance)"})
    res.stubs |= facade.USED_STUBS
    return res


def job_inplane(cfg):
    """2-D transversely isotropic / orthotropic law whose material axes are rotated IN the plane by a symbolic angle (c, s):
    the compliance (plane stress) / stiffness (plane strain) equals the in-plane block of the tensor-rotated 3-D matrices of the
    axis-aligned law, and C S = I, for all angles."""
    from EasyFEA import Models
    from engine import oblig

    res = JobResult(cfg)
    c = new_context()
    facade.install()
    law, ps = cfg["law"], cfg["planeStress"]
    th, cs, sn = oblig.angle("theta")
    res.symbols = 2
    label = f"{law} dim=2 planeStress={ps} axes rotated in the plane by a symbolic angle"
    res.functions |= {"_Elastic._Apply_basis_transformation", "Models._utils.Get_Pmat", "Models._utils.Apply_Pmat", "TransverselyIsotropic._Behavior", "Orthotropic._Behavior"}

    def make(dim, a1, a2, planeStress=True):
        if law == "trans":
            return Models.Elastic.TransverselyIsotropic(dim, 300.0, 120.0, 70.0, 0.2, 0.35, axis_l=a1, axis_t=a2, planeStress=planeStress)
        return Models.Elastic.Orthotropic(dim, 300.0, 150.0, 100.0, 40.0, 50.0, 60.0, 0.2, 0.25, 0.3, axis_1=a1, axis_2=a2, planeStress=planeStress)

    ref = make(3, (1, 0, 0), (0, 1, 0))
    C3, S3 = ref.C, ref.S  # concrete, material axes = global axes
    a1 = np.array([cs, sn, 0], dtype=object)
    a2 = np.array([-sn, cs, 0], dtype=object)
    a3 = np.array([0, 0, 1], dtype=object)
    mark = c.mark()
    facade.OPAQUE_INV_FROM = None
    linsolve.CRAMER_FORM[0] = True  # inverse = adjugate / det: the pivots of the rotated compliance block vanish for some angles, det never does
    with facade.symbolic():
        m2 = make(2, a1.copy(), a2.copy(), ps)
        C2, S2 = m2.C, m2.S
    pcs = [p_ for p_ in c.pc_since(mark) if not any(c.kind.get(v) == "aux" for v in p_.vars())]
    res.paths, res.path_conditions = 1, len(pcs)
    Cq = np.array([[Fraction(float(x)) for x in row] for row in C3], dtype=object)
    Sq = np.array([[Fraction(float(x)) for x in row] for row in S3], dtype=object)
    Crot = rot4_oracle(Cq, a1, a2, a3)
    Srot = rot4_oracle(Sq, a1, a2, a3)

    def replay(env):
        import math

        cf, sf = fval(c, env, cs), fval(c, env, sn)
        n = math.hypot(cf, sf)
        cf, sf = cf / n, sf / n
        A = make(2, (cf, sf, 0), (-sf, cf, 0), ps)
        Q = np.array([[cf, -sf, 0], [sf, cf, 0], [0, 0, 1]])
        ref_t = rot4_oracle(np.array(Sq if ps else Cq, dtype=object), np.array([cf, sf, 0]), np.array([-sf, cf, 0]), np.array([0, 0, 1.0]))
        want = np.array(ref_t, dtype=float)[np.ix_(IDX2, IDX2)]
        got = A.S if ps else A.C
        err = float(np.abs(got - want).max() / np.abs(want).max())
        inv_err = float(np.abs(A.C @ A.S - np.eye(3)).max())
        return err > 1e-9 or inv_err > 1e-9, {"angle_deg": math.degrees(math.atan2(sf, cf)), "relative_difference_with_tensor_rotated_law": err, "C_S_minus_I": inv_err}

    if ps:
        identity_check(res, S2, Srot[np.ix_(IDX2, IDX2)], pcs, f"{label}: S_2D = in-plane block of the tensor-rotated 3-D compliance", replay, tol=TOL * Fraction(1, 100), key=f"{label} rotation")
        # the 2-D stiffness is the inverse of that block:  C_2D . S_oracle = I
        prod = facade._matmul(np.asarray(C2, dtype=object), np.asarray(Srot[np.ix_(IDX2, IDX2)], dtype=object))
        identity_check(res, prod, np.eye(3, dtype=int).astype(object), pcs, f"{label}: C_2D . (rotated compliance block) = I", replay, tol=TOL * 100, key=f"{label} stiffness")
    else:
        identity_check(res, C2, Crot[np.ix_(IDX2, IDX2)], pcs, f"{label}: C_2D = in-plane block of the tensor-rotated 3-D stiffness", replay, tol=TOL * 1000, key=f"{label} rotation")
        prod = facade._matmul(np.asarray(Crot[np.ix_(IDX2, IDX2)], dtype=object), np.asarray(S2, dtype=object))
        identity_check(res, prod, np.eye(3, dtype=int).astype(object), pcs, f"{label}: (rotated stiffness block) . S_2D = I", replay, tol=TOL * 100, key=f"{label} compliance")
    res.samples.append({"config": label, "obligation": "for all angles (c^2 + s^2 = 1): the 2-D law with in-plane rotated axes equals the in-plane reduction of the tensor-rotated 3-D law (tolerance)"})
    o = prove_abs_le(as_sym(np.asarray(S2 if ps else C2, dtype=object)[0, 0]) - as_sym((Srot if ps else Crot)[1, 1]), TOL, pcs, "twin")
    res.twin(f"{label} twin", o.status == "cex")
    res.stubs |= facade.USED_STUBS
    return res


def job(cfg):
    return {"tilted": job_tilted, "inplane": job_inplane, "iso": job_iso, "trans": job_trans, "ortho": job_ortho, "frame": job_frame, "pmat": job_pmat_unnormalised, "notation": job_notation}[cfg["kind"]](cfg)


def main():
    t0 = time.time()
    tier = harness.tier()
    configs = []
    for dim, ps in ((2, True), (2, False), (3, False)):
        configs.append({"kind": "iso", "dim": dim, "planeStress": ps})
        configs.append({"kind": "trans", "dim": dim, "planeStress": ps})
        configs.append({"kind": "ortho", "dim": dim, "planeStress": ps})
    for dim in (2, 3):
        configs.append({"kind": "notation", "dim": dim})
    axes = AXES3 if tier == "thorough" else AXES3[:2] + AXES3[3:]
    # axis-aligned frames other than the identity (signed permutations of the axes: quarter turn about z, cyclic permutation, half turn + swap)
    axes = list(axes) + [((0, 1, 0), (-1, 0, 0)), ((0, 1, 0), (0, 0, 1))] + ([((0, 0, 1), (0, -1, 0)), ((-1, 0, 0), (0, 0, 1))] if tier == "thorough" else [])
    for ax in axes:
        configs.append({"kind": "frame", "axes": ax})
    configs.append({"kind": "pmat"})
    tilted = [((2 / 7, 3 / 7, 6 / 7), (3 / 7, -6 / 7, 2 / 7)), ((1 / 9, 4 / 9, 8 / 9), (4 / 9, 7 / 9, -4 / 9))]
    for law in ("trans", "ortho"):
        for ps in (True, False):
            for ax in (tilted if tier == "thorough" else tilted[:1]):
                configs.append({"kind": "tilted", "law": law, "planeStress": ps, "axes": ax})
    for ax in (tilted if tier == "thorough" else tilted[:1]):
        configs.append({"kind": "tilted", "law": "aniso6", "planeStress": False, "axes": ax})
    for law in ("trans", "ortho"):
        for ps in (True, False):
            configs.append({"kind": "inplane", "law": law, "planeStress": ps})
    results = harness.run_jobs(job, configs)
    harness.finish(
        PID, results, t0=t0,
        explanation="Bounded symbolic execution + SMT. The real law classes run on symbolic moduli and Poisson ratios (domains enforced by the code's own parameter checkers, "
                    "recorded as path conditions) and on symbolic material matrices; C = C^T, C S = I (for the transversely isotropic and orthotropic laws the two matrices are "
                    "written independently in the code), plane-stress / plane-strain reductions of the 3-D law, parameter change seen on next read, per-element parameter fields, "
                    "Voigt vs Kelvin-Mandel input, rotated axes = Q-rotated 4th-order tensor (explicit oracle), P orthogonal and its inverse application are rational identities or "
                    "tolerance queries (QF_LRA in the 21 matrix entries); positive definiteness is decided through all leading principal minors (QF_NRA, z3 nlsat).",
        bound={"laws": ["Isotropic", "TransverselyIsotropic", "Orthotropic", "Anisotropic"], "dims": ["2 plane stress", "2 plane strain", "3"],
               "axes": [str(a) for a in axes], "orthotropic_box": "+-10 % (moduli) / +-0.05 (Poisson ratios) around an admissible material", "tolerance": "0 (exact identities) / 1e-9 (frames with sqrt(2) floats)"},
        symbolic=["E, v", "El, Et, Gl, vl, vt", "E1..G12, v23, v13, v12", "21 (6) entries of a symmetric anisotropic matrix", "axis lengths"],
        assumptions=["strictly positive moduli; transversely isotropic: admissibility (1-vt) El - 2 vl^2 Et > 0 (k_t > 0) is a stated assumption (the setters do not enforce it)",
                     "3-D axis frames are enumerated exact rational rotations", "np.linalg.inv on symbolic matrices = exact elimination (facade)"],
        source_files=["EasyFEA/Models/Elastic/_laws.py", "EasyFEA/Models/_utils.py", "EasyFEA/Utilities/_params.py"],
        rule="one job per (law, dimension, simplification) / notation / axis frame; non-trivial = symbolic parameters and at least one obligation",
        exhaustive=True,
    )


if __name__ == "__main__":
    main()
