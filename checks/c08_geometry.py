"""C08 - geometry, orientation and point location are consistent across element groups.

(A) measure: the real `Mesh.Translate/Rotate/Symmetry` (-> `Geoms.Rotate/Symmetry/_Rotation_matrix`, coordinate setters,
    cache reset) run with a symbolic translation, a symbolic rotation angle (algebraic pair c, s with c^2+s^2=1; axis
    enumerated) and a symbolic reflection-plane offset; `area/volume` of the moved mesh must equal the exact measure.
(B) orientation: with the area-weighted normals of the boundary groups (`Get_normals_e_pg(normalize=False)`, no square
    root) the boundary must close (sum int n dS = 0) and the flux of the position vector must be +dim x measure, before
    and after the motion.
(C) point location: `Mesh.Evaluate_dofsValues_at_coordinates` (-> `_Get_Mapping` direct branch, `Get_pointsInElem`,
    `_Eval_Functions`) with SYMBOLIC query points (interior, on an edge, on a node; single and batched) and a polynomial
    nodal field with symbolic coefficients must reproduce the polynomial.
"""

import itertools
import time
from fractions import Fraction
from itertools import product

import numpy as np

from engine import harness, smt, facade, oblig
from engine.harness import JobResult
from engine.oblig import prove_abs_le, Outcome, reduce_mod_sides
from engine.poly import Poly
from engine.sym import Sym, as_sym, ctx, new_context, _vid, Cond, sym_array
from checks import simlib
from checks.common import monomials_total

PID = "C08"
TOL = Fraction(1, 10 ** 9)


def boundary_integrals(mesh, signs=None):
    """(sum int n dS, int x.n dS) from the un-normalised (area-weighted) normals of the boundary groups.
    signs: optional per-group list of per-element +-1 factors (orientation of each boundary element on the unmoved mesh)."""
    from EasyFEA.FEM import MatrixType

    dim = mesh.dim
    tot = np.zeros(3, dtype=object)
    flux = 0
    for gi, g in enumerate(mesh.Get_list_groupElem(dim - 1)):
        nraw = np.asarray(g.Get_normals_e_pg(MatrixType.mass, normalize=False), dtype=object)
        w = g.Get_weight_pg(MatrixType.mass)
        x = np.asarray(g.Get_GaussCoordinates_e_pg(MatrixType.mass), dtype=object)
        Ne, nPg = nraw.shape[:2]
        for e in range(Ne):
            se = 1 if signs is None else int(signs[gi][e])
            for p in range(nPg):
                wp = Fraction(float(w[p])) * se
                for d in range(3):
                    tot[d] = tot[d] + nraw[e, p, d] * wp
                    flux = flux + nraw[e, p, d] * x[e, p, d] * wp
    return tot, flux


def element_orientation(mesh):
    """+1 / -1 per boundary element of the (concrete, unmoved) mesh: does its normal point away from the domain centre?"""
    from EasyFEA.FEM import MatrixType

    dim = mesh.dim
    centre = np.asarray(mesh.coord, dtype=float).mean(axis=0)
    out = []
    for g in mesh.Get_list_groupElem(dim - 1):
        n = np.asarray(g.Get_normals_e_pg(MatrixType.mass, normalize=False), dtype=float).mean(axis=1)
        xc = np.asarray(g.Get_GaussCoordinates_e_pg(MatrixType.mass), dtype=float).mean(axis=1)
        out.append(np.where(np.einsum("ei,ei->e", n, xc - centre) > 0, 1, -1))
    return out


def job_motion(cfg):
    from EasyFEA.FEM import MatrixType

    res = JobResult(cfg)
    c = new_context()
    facade.install()
    et, motion = cfg["elem"], cfg["motion"]
    def base_mesh():
        m0 = simlib.gmsh_mesh(et, layers=1) if et != "MIXED" else simlib.transform_mesh(simlib.mixed_mesh_interior(), np.diag([0.5, 0.5, 1.0]))
        if cfg.get("merged"):
            # half model + mirror image glued with the library's own Symmetry + Merge: one element group then mixes both numbering orientations
            from EasyFEA import Mesh

            other = m0.copy()
            other.Symmetry((1.0, 0.0, 0.0), (1.0, 0.0, 0.0))
            m0 = Mesh.Merge([m0, other])
        return m0

    mesh = base_mesh()
    dim = mesh.dim
    exact_measure = Fraction(2 if cfg.get("merged") else 1)
    key = f"{et} {motion}" + (" half + mirrored half" if cfg.get("merged") else "")
    res.functions |= {"Mesh.Translate", "Mesh.Rotate", "Mesh.Symmetry", "Geoms._utils.Rotate", "Geoms._utils.Symmetry", "Geoms._utils._Rotation_matrix", "_GroupElem.coord (setter)",
                      "_GroupElem.Get_F_e_pg", "_GroupElem.Get_jacobian_e_pg", "_GroupElem.area/volume", "_GroupElem.Get_normals_e_pg", "_GroupElem.inDim"}
    d = [c.var(f"d{i}", -1, 1) for i in range(3)]
    th, cs, sn = oblig.angle("theta")
    off = c.var("plane_offset", -1, 1)
    axis = {2: (0, 0, 1)}.get(dim, cfg.get("axis", (2, 3, 6)))
    normal = (3, 4, 0) if dim == 2 else (2, 3, 6)
    res.symbols = 3 + 2 + 1
    signs = element_orientation(mesh)
    n_in = int(sum((sg == -1).sum() for sg in signs))
    n_all = int(sum(sg.size for sg in signs))
    det = -1 if "S" in motion else 1
    mark = c.mark()
    with facade.symbolic():
        if "T" in motion:
            mesh.Translate(d[0], d[1], d[2] if dim == 3 else 0)
        if "R" in motion:
            mesh.Rotate(th, (0.3, 0.2, 0.0 if dim == 2 else 0.1), axis)
        if "S" in motion:
            nn = np.asarray(normal, dtype=float) / np.linalg.norm(normal)
            pt = np.array([Fraction(float(v)) * off for v in nn], dtype=object)
            mesh.Symmetry(pt, normal)
        measure = mesh.area if dim == 2 else mesh.volume
        nsum, flux = boundary_integrals(mesh)
        nsum_c, flux_c = boundary_integrals(mesh, [sg * det for sg in signs])
    pcs = c.pc_since(mark)
    res.paths, res.path_conditions = 1, len(pcs)

    def fval(env, s):
        return float(as_sym(s).eval({kk: float(v) for kk, v in {**c.shadow, **(env or {})}.items()}))

    def moved(env):
        import math

        m2 = base_mesh()
        df = [fval(env, x) for x in d]
        cf, sf = fval(env, cs), fval(env, sn)
        ang = math.degrees(math.atan2(sf, cf))
        if "T" in motion:
            m2.Translate(df[0], df[1], df[2] if dim == 3 else 0)
        if "R" in motion:
            m2.Rotate(ang, (0.3, 0.2, 0.0 if dim == 2 else 0.1), axis)
        if "S" in motion:
            nn = np.asarray(normal, dtype=float) / np.linalg.norm(normal)
            m2.Symmetry(nn * fval(env, off), normal)
        return m2, {"rotation_deg": ang, "translation": df}

    def replay(env):
        m2, info = moved(env)
        meas = float(m2.area if dim == 2 else m2.volume)
        ns, fl = boundary_integrals(m2, [sg * det for sg in signs])
        ns = np.array([float(v) for v in ns])
        return (abs(meas - 1.0) > 1e-9 or float(np.abs(ns).max()) > 1e-9 or abs(float(fl) - dim * 1.0) > 1e-9), \
            {"measure": meas, "oriented_sum_int_n": ns.tolist(), "oriented_flux": float(fl), "expected_flux": dim * 1.0, **info}

    def replay_literal(env):
        m2, info = moved(env)
        ns, fl = boundary_integrals(m2)
        ns = np.array([float(v) for v in ns])
        return (float(np.abs(ns).max()) > 1e-9 or abs(float(fl) - dim * 1.0) > 1e-9), \
            {"sum_int_n": ns.tolist(), "flux_of_position_vector": float(fl), "expected_flux": dim * 1.0, "boundary_elements_pointing_inward_on_the_unmoved_mesh": f"{n_in}/{n_all}", **info}

    if cfg.get("merged"):
        def replay_m(env):
            m2, info = moved(env)
            meas = float(m2.area if dim == 2 else m2.volume)
            return abs(meas - 2.0) > 1e-9, {"measure": meas, "exact": 2.0, **info}

        res.record(f"{key}: measure is the exact measure", prove_abs_le(as_sym(measure) - exact_measure, TOL, pcs, key), replay_m, key=f"{key} measure")
        o = prove_abs_le(as_sym(measure) - exact_measure * Fraction(1001, 1000), TOL, pcs, "twin")
        res.twin(f"{key} twin", o.status == "cex")
        res.stubs |= facade.USED_STUBS
        return res  # the glued interface keeps interior boundary elements: the closure / flux obligations are for meshes of a whole domain
    res.record(f"{key}: measure is the exact measure", prove_abs_le(as_sym(measure) - exact_measure, TOL, pcs, key), replay, key=f"{key} measure",
               sample={"config": key, "obligation": "for all translations, all rotation angles (c^2+s^2=1), all reflection offsets: |measure(moved mesh) - exact measure| <= 1e-9"})
    # the motion itself transports the boundary correctly: with the orientation each boundary element has on the unmoved mesh
    # (and the sign of the motion's determinant) the boundary closes and the flux is + dim x measure for ALL motion parameters
    for k in range(3):
        res.record(f"{key}: oriented boundary closes after the motion, component {k}", prove_abs_le(as_sym(nsum_c[k]), TOL, pcs, key), replay, key=f"{key} transported closure")
    res.record(f"{key}: oriented flux after the motion = dim * measure", prove_abs_le(as_sym(flux_c) - dim * exact_measure, TOL * 10, pcs, key), replay, key=f"{key} transported flux")
    # the property's literal statement: outward normals that close the domain, before and after the motion
    fam = "2-D" if dim == 2 else "3-D extruded"
    mir = " mirrored" if "S" in motion else ""
    lit_ok = True
    for k in range(3):
        o_ = prove_abs_le(as_sym(nsum[k]), TOL, pcs, key)
        res.record(f"{key}: boundary closes (sum int n dS = 0), component {k}", o_, replay_literal, key=f"boundary orientation {fam}{mir}: closure")
    res.record(f"{key}: flux of x.n = + dim * measure (outward normals)", prove_abs_le(as_sym(flux) - dim * exact_measure, TOL * 10, pcs, key), replay_literal,
               key=f"boundary orientation {fam}{mir}: outward flux")
    o = prove_abs_le(as_sym(measure) - exact_measure * Fraction(1001, 1000), TOL, pcs, "twin")
    res.twin(f"{key} twin", o.status == "cex")
    res.stubs |= facade.USED_STUBS
    return res


def job_locate(cfg):
    """symbolic query points through Evaluate_dofsValues_at_coordinates (direct inverse map)"""
    res = JobResult(cfg)
    c = new_context()
    facade.install()
    et = cfg["elem"]
    if et in ("TRI3", "TRI6", "QUAD4", "TETRA4"):
        # QUAD4: the hand-built quad2 mesh is distorted -> use a parallelogram image of a structured mesh instead
        mesh = simlib.small_mesh({"TRI3": "tri4", "TRI6": "tri6_2", "TETRA4": "tetra2"}.get(et, "tri4")) if et != "QUAD4" else None
    else:
        mesh = None
    if mesh is None:
        base = simlib.gmsh_mesh(et, layers=1)
        mesh = base
    g = mesh.groupElem
    dim, order, nPe = g.dim, g.order, g.nPe
    X = mesh.coord
    key = f"{et} point location"
    res.functions |= {"Mesh.Evaluate_dofsValues_at_coordinates", "_GroupElem.Get_Mapping", "_GroupElem._Get_Mapping", "_GroupElem.Get_pointsInElem", "_GroupElem._Get_coord_Near",
                      "_GroupElem._Eval_Functions", "_GroupElem.Get_invF_e_pg", "_GroupElem._Get_sysCoord_e"}
    # polynomial field of the element's order with symbolic coefficients
    monos = monomials_total(dim, order)
    coef = [c.var("f" + "".join(map(str, m)), -1, 1) for m in monos]

    def field(pt):
        tot = 0
        for cf, m in zip(coef, monos):
            t = cf
            for dd, e in enumerate(m):
                if e:
                    t = t * pt[dd] ** e
            tot = tot + t
        return tot

    nodal = np.array([field([Fraction(float(v)) for v in X[n, :dim]]) for n in range(mesh.Nn)], dtype=object)
    # query points in element `e0`: interior (barycentric weights symbolic), on an edge (parameter symbolic), on a node
    e0 = cfg.get("element", 0)
    conn = g.connect[e0]
    nv = {"TRI": 3, "QUAD": 4, "TETRA": 4, "HEXA": 8, "PRISM": 6}[et.rstrip("0123456789")]
    V = [np.array([Fraction(float(v)) for v in X[conn[i]]], dtype=object) for i in range(nv)]
    lam = [c.var(f"lam{i}", Fraction(1, 20), Fraction(1, 4), shadow=Fraction(1, 6 + i)) for i in range(dim)]
    tau = c.var("tau", Fraction(1, 10), Fraction(9, 10))
    res.symbols = len(coef) + 2 * dim + 1
    if et.startswith(("TRI", "TETRA")):
        interior = V[0] * (1 - sum(lam)) + sum(V[i + 1] * lam[i] for i in range(dim))
    else:
        # parallelogram / parallelepiped elements: point = V0 + sum lam_i (V_i - V0) along the edges from V0
        nb = {"QUAD": [1, 3], "HEXA": [1, 3, 4], "PRISM": [1, 2, 3]}[et.rstrip("0123456789")]
        interior = V[0] + sum((V[j] - V[0]) * lam[i] for i, j in enumerate(nb))
    edge = V[0] * (1 - tau) + V[1] * tau
    node = V[2]
    shift = None
    if cfg.get("moved"):
        # the mesh is used first (caches of every matrix type warmed, a point located), THEN translated by a symbolic vector
        # with a non-zero out-of-plane component; the queries are the translated points, the nodal field is unchanged
        from EasyFEA.FEM import MatrixType

        _ = mesh.center, (mesh.area if dim == 2 else mesh.volume)
        for mt in (MatrixType.mass, MatrixType.rigi):
            g.Get_invF_e_pg(mt), g.Get_jacobian_e_pg(mt), g.Get_dN_e_pg(mt)
        mesh.Evaluate_dofsValues_at_coordinates(np.array([X[conn[:nv]].mean(axis=0)]), np.zeros(mesh.Nn), elements=np.array([e0]))
        shift = [c.var("tx", -1, 1), c.var("ty", -1, 1), c.var("tz", Fraction(1, 10), 1)]
        with facade.symbolic():
            mesh.Translate(*shift)
        key += " after an out-of-plane translation (warm caches)"
        res.functions |= {"Mesh.Translate", "_GroupElem.coord (setter)", "Utilities._cache"}
    lam2 = [c.var(f"mu{i}", Fraction(1, 20), Fraction(1, 4), shadow=Fraction(1, 9 + i)) for i in range(dim)]
    if et.startswith(("TRI", "TETRA")):
        interior2 = V[0] * (1 - sum(lam2)) + sum(V[i + 1] * lam2[i] for i in range(dim))
    else:
        interior2 = V[0] + sum((V[j] - V[0]) * lam2[i] for i, j in enumerate(nb))
    pts0 = np.array([interior, edge, node, interior2], dtype=object)
    pts = pts0 if shift is None else np.array([[p[k] + shift[k] for k in range(3)] for p in pts0], dtype=object)
    labels = ["interior point", "point on an edge", "point on a node", "second interior point"]
    mark = c.mark()
    from engine.sym import OutOfReach, Concretised

    def fval(env, s):
        return float(as_sym(s).eval({kk: float(v) for kk, v in {**c.shadow, **(env or {})}.items()}))

    def concrete(env, idx):
        cf = [fval(env, x) for x in coef]
        P = np.array([[fval(env, x) for x in pts[i]] for i in idx])
        P0 = np.array([[fval(env, x) for x in pts0[i]] for i in idx])
        nod = np.array([sum(cc * np.prod([X[n, dd] ** e for dd, e in enumerate(m)]) for cc, m in zip(cf, monos)) for n in range(mesh.Nn)])
        want = np.array([sum(cc * np.prod([p[dd] ** e for dd, e in enumerate(m)]) for cc, m in zip(cf, monos)) for p in P0])
        mesh_c = mesh
        if shift is not None:
            from EasyFEA.FEM import MatrixType as _MT

            mesh_c = simlib.small_mesh({"TRI3": "tri4", "TRI6": "tri6_2", "TETRA4": "tetra2"}[et]) if et in ("TRI3", "TRI6", "TETRA4") else simlib.gmsh_mesh(et, layers=1)
            gc = mesh_c.groupElem
            _ = mesh_c.center
            for mt in (_MT.mass, _MT.rigi):
                gc.Get_invF_e_pg(mt), gc.Get_jacobian_e_pg(mt), gc.Get_dN_e_pg(mt)
            mesh_c.Evaluate_dofsValues_at_coordinates(np.array([X[conn[:nv]].mean(axis=0)]), np.zeros(mesh_c.Nn), elements=np.array([e0]))
            mesh_c.Translate(*[fval(env, t_) for t_ in shift])
        try:
            got = mesh_c.Evaluate_dofsValues_at_coordinates(P, nod, elements=np.array([e0]))[:, 0]
        except Exception as e:
            return True, {"query_points": P.tolist(), "raised": repr(e)[:200]}
        err = float(np.abs(got - want).max())
        return err > 1e-9, {"query_points": P.tolist(), "interpolated": got.tolist(), "exact_polynomial": want.tolist(), "max_error": err}

    # every batch size from 1 to 4 (so that the number of points in the element also hits the coincidences n == dim, n == nPe ...)
    batches = [[0], [1], [2], [0, 1], [0, 3], [1, 2], [0, 1, 2], [0, 1, 3], [0, 1, 2, 3]]
    val = None
    for idx in batches:
        lab = "+".join(labels[i] for i in idx)
        try:
            with facade.symbolic():
                val = mesh.Evaluate_dofsValues_at_coordinates(pts[idx], nodal, elements=np.array([e0]))
        except (OutOfReach, Concretised, TypeError) as e:  # iterative inverse map (scipy least_squares) or other FFI: outside
            res.out_of_reach.append({"label": f"{key} [{lab}]", "detail": repr(e)[:200]})
            continue
        except Exception as e:
            res.record(f"{key}: batch [{lab}] raised {type(e).__name__}", Outcome("cex", env=dict(c.shadow), how="raised"), lambda env, idx=idx: concrete(env, idx),
                       key=f"{key} batch of {len(idx)} points")
            continue
        pcs = c.pc_since(mark)
        for k, i in enumerate(idx):
            want = field(list(pts0[i][:dim]))
            res.record(f"{key}: {labels[i]} in batch [{lab}]", prove_abs_le(as_sym(val[k, 0]) - want, TOL, pcs, key), lambda env, idx=idx: concrete(env, idx),
                       key=f"{key} batch of {len(idx)} points",
                       sample=None if len(res.samples) else {"config": key, "obligation": f"for all query points in the element (barycentric box) and all degree-{order} polynomial fields: interpolated value == polynomial",
                                                              "batch": lab, "path_condition_size": len(pcs)})
    pcs = c.pc_since(mark)
    res.paths, res.path_conditions = 1, len(pcs)
    if val is None:
        res.notes.append(f"{key}: every batch is outside the claim (iterative inverse map)")
        return res
    batch = val
    o = prove_abs_le(as_sym(batch[0, 0]) - field(list(pts0[0][:dim])) - coef[0], TOL, pcs, "twin") if res.obligations else Outcome("cex")
    res.twin(f"{key} twin", o.status == "cex")
    res.stubs |= facade.USED_STUBS
    return res


def job_search(cfg):
    """point location THROUGH the element search (no `elements` argument): enumerated concrete query points - interior, on shared edges / faces, on nodes -
    evaluated one by one and in small batches, with SYMBOLIC polynomial field coefficients; the search (KD-tree, FFI) runs concretely on the real code"""
    res = JobResult(cfg)
    c = new_context()
    facade.install()
    et = cfg["elem"]
    mesh = simlib.gmsh_mesh(et, layers=1) if not cfg.get("fine") else simlib.gmsh_mesh(et, size=0.26 if et.startswith("TRI") else 0.4, layers=2)
    if cfg.get("mixed"):
        # two element groups of the main dimension (QUAD4 + TRI3): a batch holds points of both groups, in interleaved order
        mesh = simlib.mixed_mesh_interior()
    if cfg.get("distorted"):
        # general (non-parallelogram) quadrangles / hexahedra with straight edges and planar faces: taper x' = x (1 + 0.3 y) [, y' = y (1 + 0.2 z)];
        # the library inverts the isoparametric map numerically (scipy least_squares, run concretely)
        Xd = np.array(mesh.coord, dtype=float)
        x0_, y0_, z0_ = Xd[:, 0].copy(), Xd[:, 1].copy(), Xd[:, 2].copy()
        Xd[:, 0] = x0_ * (1 + 0.3 * y0_)
        if mesh.dim == 3:
            Xd[:, 1] = y0_ * (1 + 0.2 * z0_)
        mesh = simlib.mesh_from_arrays([(gg.elemType.name, gg.connect) for gg in mesh.dict_groupElem.values()], Xd)
    if cfg.get("motion") == "R":
        mesh.Rotate(float(np.degrees(np.arctan2(0.8, 0.6))), (0.3, 0.2, 0.0))
    if cfg.get("motion") == "S":
        mesh.Symmetry((0.3, 0.0, 0.0), (1.0, 0.0, 0.0))
    if cfg.get("motion") == "Z":
        # a plane mesh moved OUT of the plane z = 0 (translation along z, then a rotation about a skew axis): surface elements embedded in 3-D
        mesh.Translate(0.0, 0.0, 0.75)
        if cfg.get("skew"):
            mesh.Rotate(float(np.degrees(np.arctan2(0.8, 0.6))), (0.3, 0.2, 0.0), (2.0, 3.0, 6.0))
    g = mesh.groupElem if not cfg.get("mixed") else mesh.Get_list_groupElem(mesh.dim)[0]
    dim, order = g.dim, g.order
    X = mesh.coord
    key = f"{et} point location through the element search" + ({"R": " (rotated mesh)", "S": " (mirrored mesh)", "Z": " (plane mesh moved out of the plane z = 0" + (", skew rotation" if cfg.get("skew") else "") + ")"}.get(cfg.get("motion"), "")) + (" (tapered, non-parallelogram elements)" if cfg.get("distorted") else "") + (" (finer mesh: candidate sets that are not contiguous ranges)" if cfg.get("fine") else "") + (" (mesh with two element groups, QUAD4 + TRI3)" if cfg.get("mixed") else "")
    tol_q = TOL if not (cfg.get("distorted") or cfg.get("mixed")) else Fraction(1, 10 ** 8)  # iterative inverse map: its own stopping tolerance
    res.functions |= {"Mesh.Evaluate_dofsValues_at_coordinates", "_GroupElem.Get_Mapping", "_GroupElem._Get_Mapping", "_GroupElem._Get_nearby_elements", "_GroupElem.Get_Elements_Nodes", "_GroupElem._Get_coord_Near"}
    if cfg.get("distorted") or cfg.get("mixed"):
        # on a non-affine element only the fields contained in the isoparametric space are reproduced exactly: the linear ones, for every
        # element type (a quadratic in x, y is a quartic in the reference coordinates once the geometry itself is bilinear / biquadratic)
        order = 1
    monos = monomials_total(dim, order)
    coef = [c.var("f" + "".join(map(str, m)), -1, 1) for m in monos]
    res.symbols = len(coef)

    def field(pt):
        tot = 0
        for cf, m in zip(coef, monos):
            t = cf
            for dd, e in enumerate(m):
                if e:
                    t = t * Fraction(float(pt[dd])) ** e
            tot = tot + t
        return tot

    nodal = np.array([field(X[n]) for n in range(mesh.Nn)], dtype=object)
    nv = {"TRI": 3, "QUAD": 4, "TETRA": 4, "HEXA": 8, "PRISM": 6}[et.rstrip("0123456789")]
    conn = g.connect[:, :nv]
    pts, kinds = [], []
    elem_list = [(g, e) for e in (range(min(g.Ne, 6)) if not cfg.get("fine") else range(0, g.Ne, max(1, g.Ne // 12)))]
    if cfg.get("mixed"):
        groups = mesh.Get_list_groupElem(mesh.dim)
        per = [[(gg, e) for e in range(gg.Ne)] for gg in groups]
        elem_list = [x for tup in itertools.zip_longest(*per) for x in tup if x is not None]  # interleaved: group 0, group 1, group 0, ...
    for gg, e in elem_list:
        nvg = {"TRI": 3, "QUAD": 4, "TETRA": 4, "HEXA": 8, "PRISM": 6}[gg.elemType.name.rstrip("0123456789")]
        V = X[gg.connect[e, :nvg]]
        pts.append(V[0] * 0.5 + V[1] * 0.25 + V[2] * 0.25 if gg.elemType.name.startswith(("TRI", "TETRA")) else V.mean(axis=0))
        kinds.append("interior")
        pts.append(0.5 * (V[0] + V[1]))
        kinds.append("on an edge")
        pts.append(0.25 * V[1] + 0.75 * V[2])
        kinds.append("on an edge")
        pts.append(V[e % nvg].copy())
        kinds.append("on a node")
    rng = np.random.default_rng(harness.seed() + 5)
    n_struct = len(pts)
    if cfg.get("scatter"):
        # seed-drawn interior points of EVERY element (the candidate search starts from the closest nodes: a point whose closest node is not a
        # node of its element must still be found)
        for e in range(g.Ne):
            V = X[conn[e]]
            for _ in range(cfg["scatter"]):
                w = rng.dirichlet(np.ones(nv) * 0.5)
                pts.append((w[:, None] * V).sum(0))
                kinds.append("interior (scattered)")
    pts = np.array(pts)
    batches = [[i] for i in range(len(pts))] + [sorted(rng.choice(n_struct, size=5, replace=False).tolist()) for _ in range(4)] + [list(range(n_struct))]
    if cfg.get("scatter"):
        batches.append(list(range(n_struct, len(pts))))
    # batches of one kind (points on nodes / on edges / interior belong to several candidate elements in different numbers): chunks of 5 and 3
    for kd in ("on a node", "on an edge", "interior"):
        ids = [i for i in range(n_struct) if kinds[i] == kd]
        for size in (5, 3):
            for k0 in range(0, len(ids), size):
                if len(ids[k0:k0 + size]) > 1:
                    batches.append(ids[k0:k0 + size])
    mark = c.mark()

    def concrete(env, idx):
        full = {kk: float(v) for kk, v in {**c.shadow, **(env or {})}.items()}
        cf = [float(as_sym(x).eval(full)) for x in coef]
        nod = np.array([sum(cc * np.prod([X[n, dd] ** e for dd, e in enumerate(m)]) for cc, m in zip(cf, monos)) for n in range(mesh.Nn)])
        want = np.array([sum(cc * np.prod([p[dd] ** e for dd, e in enumerate(m)]) for cc, m in zip(cf, monos)) for p in pts[idx]])
        try:
            got = np.asarray(mesh.Evaluate_dofsValues_at_coordinates(pts[idx], nod))[:, 0]
        except Exception as e:
            return True, {"query_points": pts[idx].tolist(), "raised": repr(e)[:200]}
        err = float(np.abs(got - want).max())
        return err > float(tol_q), {"query_points": pts[idx].tolist(), "kinds": [kinds[i] for i in idx], "interpolated": got.tolist(), "exact_polynomial": want.tolist(), "max_error": err}

    import contextlib

    val = None
    # distorted elements: the numerical inverse map (scipy) must see plain float arrays, so the façade's symbolic mode stays off; the nodal values
    # are symbolic all the same (object array) and flow through the interpolation N(xi) . values
    mode = facade.symbolic
    for idx in batches:
        with mode():
            try:
                val = np.asarray(mesh.Evaluate_dofsValues_at_coordinates(pts[idx], nodal), dtype=object)
            except Exception as e:
                res.record(f"{key}: batch of {len(idx)} points is evaluated", Outcome("cex", env={}, how="structure", detail=repr(e)[:200]), lambda env, idx=idx: concrete(env, idx), key=f"{key}: evaluation raises")
                continue
        pcs = c.pc_since(mark)
        worst = None
        for k, i in enumerate(idx):
            o = prove_abs_le(as_sym(val[k, 0]) - field(pts[i]), tol_q, pcs, key)
            if o.status != "held":
                worst = o
                break
        what = kinds[idx[0]] if len(idx) == 1 else f"batch of {len(idx)}"
        res.record(f"{key}: {what} ({len(idx)} point(s)) reproduces every polynomial of degree {order}", worst or Outcome("held", how="exact"), lambda env, idx=idx: concrete(env, idx),
                   key=f"{key}: {'single point ' + kinds[idx[0]] if len(idx) == 1 else 'batch'}",
                   sample=None if len(res.samples) else {"config": key, "obligation": f"for all polynomial fields of degree {order} (symbolic coefficients): value interpolated at the concrete point(s) = polynomial"})
    if val is not None:
        o = prove_abs_le(as_sym(val[0, 0]) - field(pts[idx[0]]) - coef[0], TOL, c.pc_since(mark), "twin")
        res.twin(f"{key} twin", o.status == "cex")
    res.paths, res.path_conditions = 1, len(c.pc_since(mark))
    res.stubs |= facade.USED_STUBS
    return res


def job_reconstruct(cfg):
    """Boundary faces rebuilt from the volume elements (`MeshIO.Surface_reconstruction`) of extruded NON-star-shaped domains (C shape, plate with
    a through hole): one consistent orientation, i.e. the rebuilt boundary closes (sum int n dS = 0) and |int x.n dS| = 3 V.  The rebuilt mesh is
    then translated by a SYMBOLIC vector: flux(d) = flux(0) + d . sum int n dS, so `|flux| = 3 V for all d` is decided by the solver and ties the
    two facts together."""
    from EasyFEA import ElemType
    from EasyFEA.Geoms import Points, Point, Domain
    from EasyFEA.Utilities import MeshIO

    res = JobResult(cfg)
    c = new_context()
    facade.install()
    shape, et = cfg["shape"], cfg["elem"]
    key = f"reconstructed boundary of an extruded {shape} ({et})"
    res.functions |= {"MeshIO.Surface_reconstruction", "_GroupElem.faces", "_GroupElem.Get_normals_e_pg", "Mesh.Translate"}
    h, thick = 0.9, 1.25
    if shape == "C":
        contour, incl, area = Points([(0, 0), (3, 0), (3, 1), (1, 1), (1, 2), (3, 2), (3, 3), (0, 3)], h), [], 7.0
    elif shape == "hole":
        contour, incl, area = Domain(Point(0, 0), Point(3, 3), h), [Domain(Point(1.25, 1.0), Point(2.0, 2.25), h)], 9 - 0.75 * 1.25
    else:
        contour, incl, area = Points([(0, 0), (2, 0), (2, 1), (1, 1), (1, 2), (0, 2)], h), [], 3.0

    def build():
        return MeshIO.Surface_reconstruction(contour.Mesh_Extrude(incl, [0, 0, thick], [2], elemType=ElemType[et]))

    mesh = build()
    vol = Fraction(area) * Fraction(thick)
    d = [c.var(f"d{i}", -2, 2) for i in range(3)]
    res.symbols = 3
    ns0, fl0 = boundary_integrals(mesh)
    sgn = 1 if float(as_sym(fl0).const_value() if as_sym(fl0).is_const() else as_sym(fl0).shadow()) >= 0 else -1
    mark = c.mark()
    with facade.symbolic():
        mesh.Translate(d[0], d[1], d[2])
        nsum, flux = boundary_integrals(mesh)
    pcs = c.pc_since(mark)
    res.paths, res.path_conditions = 1, len(pcs)

    def replay(env):
        m2 = build()
        df = [float(as_sym(x).eval({kk: float(v) for kk, v in {**c.shadow, **(env or {})}.items()})) for x in d]
        m2.Translate(*df)
        ns, fl = boundary_integrals(m2)
        ns = np.array([float(v) for v in ns])
        return (float(np.abs(ns).max()) > 1e-9 or abs(abs(float(fl)) - 3 * float(vol)) > 1e-8), {"translation": df, "sum_int_n": ns.tolist(), "flux_of_position_vector": float(fl), "three_times_volume": 3 * float(vol),
                                                                                                    "boundary_faces": int(sum(g.Ne for g in m2.Get_list_groupElem(2)))}

    for k in range(3):
        res.record(f"{key}: rebuilt boundary closes, component {k}", prove_abs_le(as_sym(nsum[k]), TOL, pcs, key), replay, key=f"reconstructed boundary {shape}: closure")
    res.record(f"{key}: |flux of x.n| = 3 V for all translations", prove_abs_le(as_sym(flux) - sgn * 3 * vol, TOL * 100, pcs, key), replay, key=f"reconstructed boundary {shape}: flux",
               sample={"config": key, "obligation": "for all translations d in [-2,2]^3 of the rebuilt mesh: |sum int n dS| <= 1e-9 and | int x.n dS -+ 3 V | <= 1e-7 (the sign is the single orientation of the rebuilt boundary)"})
    o = prove_abs_le(as_sym(flux) - sgn * 3 * vol * Fraction(1001, 1000), TOL * 100, pcs, "twin")
    res.twin(f"{key} twin", o.status == "cex")
    res.stubs |= facade.USED_STUBS
    return res


def job(cfg):
    return {"reconstruct": job_reconstruct, "locate": job_locate, "motion": job_motion, "search": job_search}[cfg["kind"]](cfg)


def main():
    t0 = time.time()
    tier = harness.tier()
    configs = []
    el2 = ["TRI3", "QUAD4", "TRI6", "MIXED"] + (["TRI10", "TRI15", "QUAD8", "QUAD9"] if tier == "thorough" else [])
    el3 = ["TETRA4", "HEXA8", "PRISM6"] + (["TETRA10", "HEXA20", "PRISM15"] if tier == "thorough" else [])
    motions = ["T", "R", "S", "TRS"]
    for shape, et in ((("C", "TETRA4"), ("hole", "PRISM6"), ("L", "HEXA8")) if tier == "quick" else
                      (("C", "TETRA4"), ("C", "HEXA8"), ("hole", "PRISM6"), ("hole", "TETRA10"), ("L", "HEXA8"), ("C", "PRISM6"))):
        configs.append({"kind": "reconstruct", "shape": shape, "elem": et})
    for i, et in enumerate(el2 + el3):
        for m in (motions if tier == "thorough" else [motions[i % 2 + 1], "TRS"] if et not in ("TRI3", "TETRA4") else motions):
            configs.append({"kind": "motion", "elem": et, "motion": m})
    for et in ["TRI3", "TRI6", "TETRA4"] + (["TRI10", "TRI15", "TETRA10", "QUAD4", "HEXA8", "PRISM6"] if tier == "thorough" else ["TRI10"]):
        configs.append({"kind": "locate", "elem": et})
    # (cubic elements: the float reference gradients do not sum to exactly zero, a symbolic translation then enters every Jacobian with 1e-17
    #  coefficients and the tolerance queries are not decided within the budget -> first- and second-order elements only)
    for et in ["TRI3", "QUAD4", "TETRA4"] + (["TRI6", "HEXA8", "PRISM6"] if tier == "thorough" else []):
        configs.append({"kind": "motion", "elem": et, "motion": "TR", "merged": True})
    for et in ["TRI3", "TRI6", "TETRA4"] + (["TRI10", "TETRA10"] if tier == "thorough" else []):
        configs.append({"kind": "search", "elem": et})
    configs.append({"kind": "search", "elem": "TRI3", "motion": "R"})
    for et in ["TRI3", "TETRA4"] + (["QUAD4", "HEXA8", "PRISM6"] if tier == "thorough" else []):
        configs.append({"kind": "search", "elem": et, "motion": "S"})
    for et in ["TETRA4"] + (["TETRA10", "TRI3", "PRISM6"] if tier == "thorough" else []):
        configs.append({"kind": "search", "elem": et, "scatter": 8})
    for et in ["TRI3", "TETRA4"] + (["TRI6", "QUAD4"] if tier == "thorough" else []):
        configs.append({"kind": "search", "elem": et, "fine": True})
    configs.append({"kind": "search", "elem": "QUAD4", "mixed": True})
    for et in ["QUAD4", "HEXA8"] + (["QUAD8", "QUAD9", "HEXA20"] if tier == "thorough" else []):
        configs.append({"kind": "search", "elem": et, "distorted": True})
    # ... and the same after a reflection (signed Jacobians all negative) or a rotation
    for et in ["QUAD4", "HEXA8"] + (["QUAD8", "QUAD9", "HEXA20"] if tier == "thorough" else []):
        configs.append({"kind": "search", "elem": et, "distorted": True, "motion": "S"})
    for et in ["QUAD4"] + (["HEXA8", "QUAD8"] if tier == "thorough" else []):
        configs.append({"kind": "search", "elem": et, "distorted": True, "motion": "R"})
    # ... and plane meshes moved out of the plane z = 0 (embedded surface elements; tapered quadrangles take the numerical inverse map there too)
    for et in ["QUAD4", "TRI3"] + (["QUAD8", "QUAD9", "TRI6"] if tier == "thorough" else []):
        configs.append({"kind": "search", "elem": et, "distorted": et.startswith("QUAD"), "motion": "Z"})
    configs.append({"kind": "search", "elem": "QUAD4", "distorted": True, "motion": "Z", "skew": True})
    for et in ["TRI3", "TRI6", "TETRA4"]:
        configs.append({"kind": "locate", "elem": et, "moved": True})
    # elements whose first edge is not along x: their local frame (_Get_sysCoord_e) differs from the global one once the mesh leaves z = 0
    configs.append({"kind": "locate", "elem": "TRI3", "moved": True, "element": 1})
    configs.append({"kind": "locate", "elem": "TRI6", "moved": True, "element": 1})
    if tier == "thorough":
        configs.append({"kind": "locate", "elem": "TRI3", "moved": True, "element": 2})
        configs.append({"kind": "locate", "elem": "TRI3", "moved": True, "element": 3})
    results = harness.run_jobs(job, configs)
    harness.finish(
        PID, results, t0=t0,
        explanation="Bounded symbolic execution + SMT. Mesh rigid motions run with a symbolic translation, a symbolic rotation (cos/sin of the angle are the algebraic pair c, s with "
                    "c^2+s^2=1; identities are reduced modulo that relation) and a symbolic reflection-plane offset on real meshes; measure, boundary closure and outward flux are "
                    "polynomial identities in these symbols. Point location runs with symbolic query points (interior / edge / node, batched and single) and symbolic polynomial "
                    "coefficients through the real inverse map (direct branch); the element-membership tests the code performs become recorded path conditions.",
        bound={"elements_2d": el2, "elements_3d": el3, "motions": motions, "rotation_axes": "z (2-D); (2,3,6)/7 (3-D)", "reflection_normals": "(3,4,0)/5, (2,3,6)/7",
               "point_location_elements": "one element per mesh, direct inverse map only", "tolerance": "1e-9"},
        symbolic=["translation d", "rotation (c, s)", "reflection-plane offset", "query point (barycentric coordinates, edge parameter)", "polynomial field coefficients"],
        assumptions=["iterative inverse map of distorted QUAD/HEXA (scipy.least_squares) and the KD-tree candidate search are outside (elements passed explicitly)",
                     "MeshIO boundary reconstruction is outside", "meshes are real gmsh meshes of the unit square / cube (exact measure 1)"],
        source_files=["EasyFEA/FEM/_group_elem.py", "EasyFEA/FEM/_mesh.py", "EasyFEA/Geoms/_utils.py", "EasyFEA/FEM/Elems"],
        rule="one job per (element type, motion) / (element type, point location); non-trivial = symbolic motion parameters or query points",
        exhaustive=(tier == "thorough"),
    )


if __name__ == "__main__":
    main()
