"""C05 - each time scheme satisfies its documented update rule and its discrete equation of motion.

The real `_Simu` time-integration code (Solver_Set_*_Algorithm, _Solver_Evaluate_u_v_a_for_time_scheme,
_Solver_Get_K_C_M_coefs_for_time_scheme, _Solver_Apply_Neumann/_Dirichlet, Solvers.__Solver_1,
_Solver_Update_solutions) is executed on a real simulation whose element matrices, previous state, loads,
prescribed values and scheme parameters are all symbolic.  The linear solve is the ideal-solver stub.
Every assertion is a rational identity (tolerance 0) or, for backward Euler, a QF_NRA inequality.
"""

import time
from fractions import Fraction

import numpy as np

from engine import harness, smt, facade, stubs
from engine.harness import JobResult
from engine.oblig import prove_abs_le, prove_cond, Outcome
from engine.poly import Poly
from engine.sym import Sym, as_sym, ctx, new_context, _vid, Cond, sym_array, has_sym
from checks import simlib

PID = "C05"
HYPER = ["newmark", "midpoint", "hht", "hht_newmark", "euler_implicit", "euler_explicit"]
ALGOS = ["parabolic"] + HYPER


PINS = {  # parameter values a user types as plain numbers: the library's defaults and the documented degenerate cases (exact float tests in the code land here)
    "hht": [{"alpha": 0.5}, {"alpha": 0.0}, {"alpha": 0.5, "beta": 0.25, "gamma": 0.5}],
    "newmark": [{"beta": 0.25, "gamma": 0.5}],
    "parabolic": [{"alpha": 0.5}, {"alpha": 1.0}],
    "hht_newmark": [{"alpha": 0.0}],
}


def _params(c, algo, tag="", pin=None):
    dt, alpha, beta, gamma = _params_sym(c, algo, tag)
    pin = pin or {}
    return dt, pin.get("alpha", alpha), (pin.get("beta", beta) if beta is not None else None), (pin.get("gamma", gamma) if gamma is not None else None)


def _params_sym(c, algo, tag=""):
    dt = c.var("dt" + tag, Fraction(1, 100), 10)
    if algo == "hht_newmark":
        alpha = c.var("alpha" + tag, 0, Fraction(1, 3))
        beta = c.var("beta_ignored" + tag, Fraction(1, 10), 1)
        gamma = c.var("gamma_ignored" + tag, Fraction(1, 10), 1)
    elif algo == "parabolic":
        alpha = c.var("alpha" + tag, Fraction(1, 10), 1)
        beta = gamma = None
    else:
        alpha = c.var("alpha" + tag, 0, Fraction(9, 10))
        beta = c.var("beta" + tag, Fraction(1, 10), 1)
        gamma = c.var("gamma" + tag, Fraction(1, 10), 1)
    return dt, alpha, beta, gamma


def _set_algo(simu, algo, dt, alpha, beta, gamma):
    from EasyFEA.Simulations.Solvers import AlgoType

    if algo == "parabolic":
        simu.Solver_Set_Parabolic_Algorithm(dt, alpha)
    else:
        simu.Solver_Set_Hyperbolic_Algorithm(dt, AlgoType(algo), beta=beta, gamma=gamma, alpha=alpha)


def oracle_eval_points(algo, dt, alpha, beta, gamma, un, vn, an, u1):
    """Documented update relations and evaluation points (AlgoType docstrings / Solver_Set_Parabolic_Algorithm),
    written independently of the code. Returns (v1, a1, u_t, v_t, a_t)."""
    if algo == "hht_newmark":
        beta = (1 + alpha) ** 2 / 4
        gamma = Fraction(1, 2) + alpha
    if algo in ("newmark", "hht", "hht_newmark"):
        ut = un + dt * vn + dt ** 2 / 2 * (1 - 2 * beta) * an
        a1 = (u1 - ut) / (beta * dt ** 2)
        v1 = vn + dt * ((1 - gamma) * an + gamma * a1)
        if algo == "newmark":
            return v1, a1, u1, v1, a1
        if algo == "hht":
            return v1, a1, (1 - alpha) * u1 + alpha * un, (1 - alpha) * v1 + alpha * vn, (1 - alpha) * a1 + alpha * an
        return v1, a1, (1 - alpha) * u1 + alpha * un, v1, a1
    if algo == "midpoint":
        v1 = 2 / dt * (u1 - un) - vn
        a1 = 2 / dt * (v1 - vn) - an
        return v1, a1, (u1 + un) / 2, (v1 + vn) / 2, (a1 + an) / 2
    if algo == "euler_implicit":
        v1 = (u1 - un) / dt
        a1 = (v1 - vn) / dt
        return v1, a1, u1, v1, a1
    if algo == "parabolic":
        # u^{n+1} = u^n + dt v^{n+alpha},  v^{n+alpha} = (1-alpha) v^n + alpha v^{n+1}
        v1 = (u1 - un - (1 - alpha) * dt * vn) / (alpha * dt)
        return v1, None, u1, v1, None
    raise ValueError(algo)


def build(c, ne, slots=("K", "C", "M", "F")):
    mesh = simlib.line_mesh(ne, "SEG2", with_points=False)
    simu = simlib.make_symsimu(mesh)
    g = mesh.groupElem
    simu.mats[g.elemType] = simlib.sym_elem_mats(g, "e", slots)
    return mesh, simu, g


def _vec(M):
    """(n,1) SymMatrix / sparse -> 1-D object array"""
    a = M.toarray() if hasattr(M, "toarray") else np.asarray(M)
    return np.asarray(a, dtype=object).reshape(-1)


def _mat(M):
    a = M.toarray() if hasattr(M, "toarray") else np.asarray(M)
    return np.asarray(a, dtype=object)


def _concrete(ne, seq, params, mats, state, gval, fval, gvals=None):
    """The unproxied pipeline with plain floats (scipy spsolve): runs the steps of `seq` and returns the max violation
    of (documented update relations, discrete equation of motion on free dofs, prescribed value)."""
    mesh = simlib.line_mesh(ne, "SEG2", with_points=False)
    simu = simlib.make_symsimu(mesh)
    g = mesh.groupElem
    n = mesh.Nn
    simu.mats[g.elemType] = mats
    pt = simu.problemType
    simu._Set_solutions(pt, *[np.array(x, dtype=float) for x in state])
    simu.add_dirichlet(np.array([0]), [gval], ["t"])
    if fval is not None:
        simu.add_neumann(np.array([n - 1]), [fval], ["t"])
    simu.solver = "scipy"
    worst = 0.0
    for istep, (algo, (dt, alpha, beta, gamma)) in enumerate(zip(seq, params)):
        if gvals is not None:  # the prescribed value changes from step to step (conditions re-entered)
            gval = gvals[istep]
            simu.Bc_Init()
            simu.add_dirichlet(np.array([0]), [gval], ["t"])
            if fval is not None:
                simu.add_neumann(np.array([n - 1]), [fval], ["t"])
        _set_algo(simu, algo, dt, alpha, beta, gamma)
        un, vn, an = simu._Get_u_n(pt), simu._Get_v_n(pt), simu._Get_a_n(pt)
        simu.Solve()
        u1, v1, a1 = simu._Get_u_n(pt), simu._Get_v_n(pt), simu._Get_a_n(pt)
        K, C, M, F = [np.asarray(x.todense()) for x in simu.Get_K_C_M_F()]
        F = F.ravel().copy()
        if fval is not None:
            F[n - 1] += fval
        free = np.arange(1, n)
        # relative to the size of the terms of the equation (homogeneous in the state: no absolute floor, tiny states are judged like any other)
        smax = max([np.abs(x_).max() for x_ in (u1, v1, a1, un, vn, an) if x_ is not None and np.size(x_)] + [float(np.abs(F).max()), abs(gval)])
        scale = max(np.abs(K).max(), np.abs(C).max(), np.abs(M).max(), 1.0) * max(smax, 1e-300)
        if algo == "euler_explicit":
            res = (M @ a1 + C @ vn + K @ un - F)[free]
            viol = [np.abs(res).max(), np.abs(u1 - (un + dt * vn)).max(), np.abs(v1 - (vn + dt * a1))[free].max()]
        else:
            ov1, oa1, ut, vt, at = oracle_eval_points(algo, dt, alpha, beta, gamma, un, vn, an, u1)
            res = K @ ut + C @ vt - F
            if at is not None:
                res = res + M @ at
            viol = [np.abs(res[free]).max(), np.abs(v1 - ov1).max(), abs(u1[0] - gval)]
            if oa1 is not None:
                viol.append(np.abs(a1 - oa1).max())
        worst = max(worst, float(max(viol)) / scale)
    return worst


def _num(c, env, x):
    """float value of a symbolic input (array) at the counterexample / shadow point"""
    full = {k: float(v) for k, v in {**c.shadow, **(env or {})}.items()}
    if x is None:
        return None
    if isinstance(x, np.ndarray):
        out = np.empty(x.shape, dtype=float)
        for idx in np.ndindex(*x.shape):
            out[idx] = float(as_sym(x[idx]).eval(full))
        return out
    return float(as_sym(x).eval(full))


def job_step(cfg):
    """One step of one algorithm from an arbitrary symbolic state."""
    algo, ne, incremental = cfg["algo"], cfg["ne"], cfg.get("incremental", False)
    res = JobResult(cfg)
    c = new_context()
    facade.install()
    from EasyFEA.Simulations import Solvers

    if cfg.get("concrete_mats"):
        # non-commuting concrete rational element matrices (several free dofs, symbolic A would be a dense rational function)
        mesh = simlib.line_mesh(ne, "SEG2", with_points=False)
        simu = simlib.make_symsimu(mesh)
        g = mesh.groupElem
        Fr = Fraction
        def mat(seed, diag):
            a = np.empty((ne, 2, 2), dtype=object)
            for e in range(ne):
                for i in range(2):
                    for j in range(2):
                        a[e, i, j] = Fr(diag) + Fr(e + 1, 7 + seed) if i == j else Fr((3 * e + 2 * i - j + seed) % 5 - 2, 9 + seed)
            return a
        F_e = np.empty((ne, 2, 1), dtype=object)
        for e in range(ne):
            F_e[e, 0, 0], F_e[e, 1, 0] = Fr(1 + e, 3), Fr(-2, 7 + e)
        simu.mats[g.elemType] = (mat(0, 2), mat(1, 1), None if algo == "parabolic" else mat(2, 3), F_e)
    else:
        mesh, simu, g = build(c, ne, ("K", "C", "F") if algo == "parabolic" else ("K", "C", "M", "F"))
    n = mesh.Nn
    dt, alpha, beta, gamma = _params(c, algo, pin=cfg.get("pin"))
    # 'tiny': the same step in units where every state / load value is below 2^-50 ~ 9e-16 (the relations are homogeneous in the state: no
    # absolute magnitude may decide anything)
    sc = Fraction(1, 2 ** 50) if cfg.get("tiny") else Fraction(1)
    if cfg.get("tiny"):
        mats_ = list(simu.mats[g.elemType])
        if mats_[3] is not None:
            mats_[3] = np.asarray(mats_[3], dtype=object) * sc  # element load vectors in the same tiny units
        simu.mats[g.elemType] = tuple(mats_)
    un, vn, an = sym_array("un", n, -sc, sc), sym_array("vn", n, -sc, sc), sym_array("an", n, -sc, sc)
    gD = c.var("gD", -sc, sc)
    fN = c.var("fN", -sc, sc)
    pt = simu.problemType
    res.functions |= {"_Simu.Solver_Set_Hyperbolic_Algorithm", "_Simu.Solver_Set_Parabolic_Algorithm", "_Simu._Solver_Evaluate_u_v_a_for_time_scheme",
                      "_Simu._Solver_Get_K_C_M_coefs_for_time_scheme", "_Simu._Solver_Apply_Neumann", "_Simu._Solver_Apply_Dirichlet",
                      "_Simu._Solver_Update_solutions", "Solvers.Solve_simu", "Solvers.__Solver_1", "_Simu.Assembly", "_Simu.add_dirichlet", "_Simu.add_neumann",
                      "_Simu.Bc_dofs_known_unknown"}
    mark = c.mark()
    with facade.symbolic(), stubs.ideal_linear_solver():
        _set_algo(simu, algo, dt, alpha, beta, gamma)
        simu._Set_solutions(pt, un.copy(), vn.copy(), an.copy())
        simu.add_dirichlet(np.array([0]), [gD], ["t"])
        simu.add_neumann(np.array([n - 1]), [fN], ["t"])
        K, C, M, F = simu.Get_K_C_M_F()
        K, C, M, F = _mat(K), _mat(C), _mat(M), _vec(F).copy()
        F[n - 1] = F[n - 1] + fN
        coefs = simu._Solver_Get_K_C_M_coefs_for_time_scheme()
        # (c) weights = derivatives of the evaluation-point states w.r.t. the new displacement
        w = sym_array("w", n)
        u_t_c, v_t_c, a_t_c = simu._Solver_Evaluate_u_v_a_for_time_scheme(pt, w)
        if incremental:
            simu._Solver_Set_Newton_Raphson_Algorithm()
            simu.residual_mode = True
            u0 = sym_array("u0", n)  # arbitrary current Newton iterate
            simu._Simu__Solver_Set_Newton_Raphson_current_solution(u0.copy())
            simu.Need_Update()
            delta, _ = Solvers.Solve_simu(simu, pt)
            x = u0 + delta
            sols = simu._Solver_Update_solutions(pt, x)
        else:
            x, _ = Solvers.Solve_simu(simu, pt)
            sols = simu._Solver_Update_solutions(pt, x)
    u1, v1, a1 = sols
    pcs = c.pc_since(mark)
    res.paths = 1
    res.path_conditions = len(pcs)
    res.symbols = len(c.input_vids())
    free = list(range(1, n))
    key = f"{algo} ne={ne}" + (" incremental" if incremental else "") + (" tiny state" if cfg.get("tiny") else "") + (" with " + ", ".join(f"{k_} = {v_}" for k_, v_ in cfg["pin"].items()) + " given as plain numbers" if cfg.get("pin") else "")

    def replay(env):
        mats = tuple(_num(c, env, m_) for m_ in simu.mats[g.elemType])
        prm = [tuple(_num(c, env, p_) if p_ is not None else 0.5 for p_ in (dt, alpha, beta, gamma))]
        v = _concrete(ne, [algo], prm, mats, [_num(c, env, un), _num(c, env, vn), _num(c, env, an)], _num(c, env, gD), _num(c, env, fN))
        return v > 1e-9, {"relative_violation_on_concrete_replay": v, "dt_alpha_beta_gamma": prm[0],
                          "note": "same inputs through the unproxied pipeline (floats, scipy spsolve)"}

    def ob(label, expr, sample=None):
        res.record(f"{key}: {label}", prove_abs_le(expr, 0, pcs, f"{key} {label}"), replay, key=f"{key}: {label}", sample=sample)

    # prescribed value holds
    tgt = gD if algo != "euler_explicit" else None
    if algo == "euler_explicit":
        # solve variable is a^n; constrained dof has zero acceleration; u,v updated explicitly
        for i in range(n):
            ob(f"u_np1[{i}] = u_n + dt v_n", u1[i] - (un[i] + dt * vn[i]))
            ob(f"v_np1[{i}] = v_n + dt a_n", v1[i] - (vn[i] + dt * a1[i]))
        ob("constrained dof has zero acceleration", a1[0])
        r = K @ un + C @ vn + M @ a1 - F
        for i in free:
            ob(f"M a_n + C v_n + K u_n = F on free dof {i}", r[i],
               sample={"algo": algo, "obligation": "for all dt, states, element matrices, loads: (M a^n + C v^n + K u^n - F)[free] == 0", "symbols": res.symbols})
        cK, cC, cM = coefs
        ob("coefK", as_sym(cK)); ob("coefC", as_sym(cC)); ob("coefM", as_sym(cM) - 1)
    else:
        ob("constrained dof holds its prescribed value", u1[0] - gD)
        ov1, oa1, ut, vt, at = oracle_eval_points(algo, dt, alpha, beta, gamma, un, vn, an, u1)
        for i in range(n):
            ob(f"documented velocity update [{i}]", v1[i] - ov1[i])
            if oa1 is not None:
                ob(f"documented acceleration update [{i}]", a1[i] - oa1[i])
        r = K @ ut + C @ vt - F
        if at is not None:
            r = r + M @ at
        for i in free:
            ob(f"K u_t + C v_t + M a_t = F on free dof {i}", r[i],
               sample={"algo": algo, "obligation": "for all (dt, alpha, beta, gamma) admissible, all states, element matrices, loads, prescribed value: residual of the discrete equation of motion on free dofs == 0",
                       "symbols": res.symbols, "path_condition": [repr(p) for p in pcs][:6]})
        # code's evaluation points vs documented ones (at the arbitrary new displacement w)
        _, _, dut, dvt, dat = oracle_eval_points(algo, dt, alpha, beta, gamma, un, vn, an, w)
        for i in range(n):
            ob(f"evaluation point u_t[{i}]", u_t_c[i] - dut[i])
            ob(f"evaluation point v_t[{i}]", v_t_c[i] - dvt[i])
            if dat is not None:
                ob(f"evaluation point a_t[{i}]", a_t_c[i] - dat[i])
        cK, cC, cM = coefs
        for i in range(min(n, 2)):
            ob(f"coefK = d u_t/d u_np1 [{i}]", as_sym(cK) - as_sym(u_t_c[i]).diff(w[i]))
            ob(f"coefC = d v_t/d u_np1 [{i}]", as_sym(cC) - as_sym(v_t_c[i]).diff(w[i]))
            if a_t_c is not None:
                ob(f"coefM = d a_t/d u_np1 [{i}]", as_sym(cM) - as_sym(a_t_c[i]).diff(w[i]))
            else:
                ob("coefM = 0 (no acceleration)", as_sym(cM))
    # reachability twin: the same equation with the sign of the load flipped in the oracle must be refuted
    if algo != "euler_explicit":
        r2 = r + 2 * F
        o = prove_abs_le(r2[free[0]], 0, pcs, f"{key} twin")
        res.twin(f"{key} twin", o.status == "cex")
    else:
        o = prove_abs_le(r[free[0]] + 2 * F[free[0]], 0, pcs, f"{key} twin")
        res.twin(f"{key} twin", o.status == "cex")
    res.stubs |= facade.USED_STUBS
    return res


def job_energy(cfg):
    """1-dof oscillator m a + k u = 0, no damping, no load: discrete energy."""
    algo = cfg["algo"]
    res = JobResult(cfg)
    c = new_context()
    facade.install()
    from EasyFEA.Simulations import Solvers

    mesh = simlib.line_mesh(1, "SEG2", with_points=False)
    simu = simlib.make_symsimu(mesh)
    g = mesh.groupElem
    k = c.var("k", 0, 100, shadow=Fraction(7, 3))
    m = c.var("m", Fraction(1, 100), 100, shadow=Fraction(5, 4))
    dt = c.var("dt", Fraction(1, 1000), 100, shadow=Fraction(3, 10))
    u, v = c.var("u", -10, 10), c.var("v", -10, 10)
    z = 0
    K_e = np.array([[[1, z], [z, k]]], dtype=object)
    M_e = np.array([[[1, z], [z, m]]], dtype=object)
    C_e = np.zeros((1, 2, 2), dtype=object)
    simu.mats[g.elemType] = (K_e, C_e, M_e, None)
    pt = simu.problemType
    mark = c.mark()
    with facade.symbolic(), stubs.ideal_linear_solver():
        if algo == "newmark":
            _set_algo(simu, "newmark", dt, Fraction(1, 2), Fraction(1, 4), Fraction(1, 2))
            a = -k * u / m  # consistent acceleration of the previous step
        elif algo == "midpoint":
            _set_algo(simu, "midpoint", dt, Fraction(1, 2), Fraction(1, 4), Fraction(1, 2))
            a = c.var("a_arbitrary", -10, 10)
        else:
            _set_algo(simu, "euler_implicit", dt, Fraction(1, 2), Fraction(1, 4), Fraction(1, 2))
            a = c.var("a_arbitrary", -10, 10)
        un = np.array([0, u], dtype=object)
        vn = np.array([0, v], dtype=object)
        an = np.array([0, a], dtype=object)
        simu._Set_solutions(pt, un, vn, an)
        simu.add_dirichlet(np.array([0]), [0], ["t"])
        x, _ = Solvers.Solve_simu(simu, pt)
        u1, v1, a1 = simu._Solver_Update_solutions(pt, x)
    pcs = c.pc_since(mark)
    res.paths, res.path_conditions, res.symbols = 1, len(pcs), len(c.input_vids())
    res.functions |= {"_Simu._Solver_Apply_Neumann", "_Simu._Solver_Apply_Dirichlet", "_Simu._Solver_Update_solutions", "Solvers.__Solver_1"}
    E0 = (m * v * v + k * u * u) / 2
    E1 = (m * v1[1] * v1[1] + k * u1[1] * u1[1]) / 2

    def replay(env):
        val = lambda s: float(as_sym(s).eval({kk: float(vv) for kk, vv in {**c.shadow, **(env or {})}.items()}))
        kf, mf, dtf, uf, vf = val(k), val(m), val(dt), val(u), val(v)
        af = -kf * uf / mf if algo == "newmark" else 0.3
        s2 = simlib.make_symsimu(simlib.line_mesh(1, "SEG2", with_points=False))
        s2.mats[g.elemType] = (np.array([[[1.0, 0], [0, kf]]]), np.zeros((1, 2, 2)), np.array([[[1.0, 0], [0, mf]]]), None)
        _set_algo(s2, algo, dtf, 0.5, 0.25, 0.5)
        s2._Set_solutions(pt, np.array([0, uf]), np.array([0, vf]), np.array([0, af]))
        s2.add_dirichlet([0], [0], ["t"])
        s2.solver = "scipy"
        s2.Solve()
        uu, vv = s2._Get_u_n(pt)[1], s2._Get_v_n(pt)[1]
        e0, e1 = 0.5 * (mf * vf ** 2 + kf * uf ** 2), 0.5 * (mf * vv ** 2 + kf * uu ** 2)
        bad = (e1 - e0 > 1e-9 * (1 + e0)) if algo == "euler_implicit" else (abs(e1 - e0) > 1e-9 * (1 + e0))
        return bad, {"k": kf, "m": mf, "dt": dtf, "u": uf, "v": vf, "E_n": e0, "E_np1": e1}

    if algo in ("newmark", "midpoint"):
        res.record(f"{algo} conserves energy", prove_abs_le(E1 - E0, 0, pcs, f"{algo} energy"), replay, key=f"{algo} energy conservation",
                   sample={"algo": algo, "obligation": "for all dt>0, k>=0, m>0, u, v: 1/2 m v1^2 + 1/2 k u1^2 == 1/2 m v^2 + 1/2 k u^2"})
    else:
        d = (E1 - E0)
        # E1 - E0 <= 0 : numerator / denominator with the sign of the denominator
        goal = ("or", [("and", [Cond(d.d, ">"), Cond(d.n, "<=")]), ("and", [Cond(d.d, "<"), Cond(d.n, ">=")])]) if not d.d.is_const() else Cond(d.n.scale(1 / d.d.const_value()), "<=")
        res.record("backward Euler never increases energy", prove_cond(goal, pcs, "euler_implicit energy", timeout_ms=60000), replay, key="euler_implicit energy decay",
                   sample={"algo": algo, "obligation": "for all dt>0, k>=0, m>0, u, v: E_{n+1} <= E_n (QF_NRA)"})
    # twin: energy + small perturbation
    o = prove_abs_le(E1 - E0 + dt * u * u / 1000, 0, pcs, "energy twin")
    res.twin(f"{algo} energy twin", o.status == "cex")
    res.stubs |= facade.USED_STUBS
    return res


def job_switch(cfg):
    """Two consecutive steps with different algorithm / step size: the second step is checked from the state left by the first."""
    a1, a2 = cfg["first"], cfg["second"]
    res = JobResult(cfg)
    c = new_context()
    facade.install()
    # concrete (rational) element matrices here: the composed two-step state is a rational function of the scheme
    # parameters and the previous state only; the dependence on K_e, C_e, M_e is covered by the single-step jobs
    mesh = simlib.line_mesh(1, "SEG2", with_points=False)
    simu = simlib.make_symsimu(mesh)
    g = mesh.groupElem
    Fr = Fraction
    K_e = np.array([[[Fr(2), Fr(-1, 3)], [Fr(-1, 5), Fr(7, 4)]]], dtype=object)
    C_e = np.array([[[Fr(1, 2), Fr(1, 7)], [Fr(-1, 9), Fr(3, 5)]]], dtype=object)
    M_e = np.array([[[Fr(3, 2), Fr(1, 11)], [Fr(2, 13), Fr(5, 4)]]], dtype=object)
    F_e = np.array([[[Fr(1, 3)], [Fr(-2, 7)]]], dtype=object)
    simu.mats[g.elemType] = (K_e, C_e, M_e, F_e)
    n = mesh.Nn
    pt = simu.problemType
    un, vn, an = sym_array("un", n), sym_array("vn", n), sym_array("an", n)
    gD = c.var("gD", -1, 1)
    p1 = _params(c, a1, "1")
    p2 = _params(c, a2, "2")
    mark = c.mark()
    with facade.symbolic(), stubs.ideal_linear_solver():
        simu._Set_solutions(pt, un.copy(), vn.copy(), an.copy())
        simu.add_dirichlet(np.array([0]), [gD], ["t"])
        _set_algo(simu, a1, *p1)
        simu.Solve()
        s1 = (simu._Get_u_n(pt), simu._Get_v_n(pt), simu._Get_a_n(pt))
        if cfg.get("release"):
            # the prescribed value of the second step is the plain number 0 (a displacement pulse coming back to rest position): the
            # constrained dof still carries the velocity / acceleration its update relations give it
            simu.Bc_Init()
            simu.add_dirichlet(np.array([0]), [0], ["t"])
        _set_algo(simu, a2, *p2)
        simu.Solve()
        s2 = (simu._Get_u_n(pt), simu._Get_v_n(pt), simu._Get_a_n(pt))
        K, C, M, F = simu.Get_K_C_M_F()
        K, C, M, F = _mat(K), _mat(C), _mat(M), _vec(F)
    pcs = c.pc_since(mark)
    res.paths, res.path_conditions, res.symbols = 1, len(pcs), len(c.input_vids())
    res.functions |= {"_Simu.Solve", "_Simu._Solver_Solve_problemType", "_Simu._Set_solutions", "_Simu.Solver_Set_Hyperbolic_Algorithm"}
    key = f"{a1}->{a2}" + (" (second step prescribes 0)" if cfg.get("release") else "")
    dt, alpha, beta, gamma = p2

    def replay(env):
        mats = tuple(_num(c, env, m_) for m_ in simu.mats[g.elemType])
        prm = [tuple(_num(c, env, p_) if p_ is not None else 0.5 for p_ in pp) for pp in (p1, p2)]
        v = _concrete(1, [a1, a2], prm, mats, [_num(c, env, un), _num(c, env, vn), _num(c, env, an)], _num(c, env, gD), None, gvals=[_num(c, env, gD), 0.0] if cfg.get("release") else None)
        return v > 1e-9, {"relative_violation_on_concrete_replay": v, "parameters": prm,
                          "note": "same two-step sequence through the unproxied pipeline (floats, scipy spsolve)"}

    if a2 == "euler_explicit":
        r = K @ s1[0] + C @ s1[1] + M @ s2[2] - F
        res.record(f"{key}: second step equation", prove_abs_le(r[1], 0, pcs, key), replay, key=f"{key} second-step equation")
        res.record(f"{key}: second step u update", prove_abs_le(s2[0][1] - (s1[0][1] + dt * s1[1][1]), 0, pcs, key), replay, key=f"{key} second-step update")
    else:
        ov1, oa1, ut, vt, at = oracle_eval_points(a2, dt, alpha, beta, gamma, s1[0], s1[1], s1[2], s2[0])
        r = K @ ut + C @ vt - F
        if at is not None:
            r = r + M @ at
        res.record(f"{key}: second step equation", prove_abs_le(r[1], 0, pcs, key), replay, key=f"{key} second-step equation",
                   sample={"sequence": key, "obligation": "second step satisfies its scheme from the state produced by the first"})
        for d in range(n):  # free AND constrained dofs follow the documented update relations
            res.record(f"{key}: second step velocity update (dof {d})", prove_abs_le(s2[1][d] - ov1[d], 0, pcs, key), replay, key=f"{key} second-step v")
            if oa1 is not None:
                res.record(f"{key}: second step acceleration update (dof {d})", prove_abs_le(s2[2][d] - oa1[d], 0, pcs, key), replay, key=f"{key} second-step a")
        if cfg.get("release"):
            res.record(f"{key}: second step holds the prescribed 0", prove_abs_le(s2[0][0], 0, pcs, key), replay, key=f"{key} second-step constrained dof")
    res.stubs |= facade.USED_STUBS
    return res


def job(cfg):
    return {"step": job_step, "energy": job_energy, "switch": job_switch}[cfg["kind"]](cfg)


def main():
    t0 = time.time()
    tier = harness.tier()
    configs = []
    for algo in ALGOS:
        configs.append({"kind": "step", "algo": algo, "ne": 1})
        if algo != "euler_explicit":
            configs.append({"kind": "step", "algo": algo, "ne": 1, "incremental": True})
    for algo in (ALGOS if tier == "thorough" else ["newmark", "hht", "midpoint", "parabolic"]):
        configs.append({"kind": "step", "algo": algo, "ne": 1, "tiny": True})
    for algo, pins in PINS.items():
        for pin in pins:
            configs.append({"kind": "step", "algo": algo, "ne": 1, "pin": pin})
            if tier == "thorough":
                configs.append({"kind": "step", "algo": algo, "ne": 1, "pin": pin, "incremental": True})
    for algo in ("newmark", "midpoint", "euler_implicit"):
        configs.append({"kind": "energy", "algo": algo})
    switches = [("newmark", "hht"), ("hht", "midpoint"), ("midpoint", "newmark"), ("euler_implicit", "newmark"),
                # same algorithm, different step size / parameters (anything cached per algorithm shows up here)
                ("newmark", "newmark"), ("hht", "hht"), ("midpoint", "midpoint"), ("parabolic", "parabolic"), ("euler_implicit", "euler_implicit"),
                ("hht_newmark", "hht_newmark")]
    if tier == "thorough":
        for algo in ALGOS:
            configs.append({"kind": "step", "algo": algo, "ne": 2, "concrete_mats": True})
            configs.append({"kind": "step", "algo": algo, "ne": 3, "concrete_mats": True})
        switches += [("hht_newmark", "euler_implicit"), ("newmark", "euler_explicit"), ("euler_explicit", "newmark"), ("hht", "hht_newmark")]
    for a, b in switches:
        configs.append({"kind": "switch", "first": a, "second": b})
    for a, b in ([("newmark", "newmark"), ("hht", "hht"), ("midpoint", "midpoint"), ("euler_implicit", "euler_implicit"), ("parabolic", "parabolic")] + ([("hht_newmark", "hht_newmark"), ("newmark", "hht")] if tier == "thorough" else [])):
        configs.append({"kind": "switch", "first": a, "second": b, "release": True})
    results = harness.run_jobs(job, configs)
    harness.finish(
        PID, results, t0=t0,
        explanation="Bounded symbolic execution + SMT. One real time step (and two-step sequences) of every algorithm is executed with symbolic dt, alpha, beta, gamma "
                    "(domains = the code's own asserts, recorded as path conditions), symbolic previous state, symbolic element matrices K_e, C_e, M_e, F_e, "
                    "prescribed value and load; the linear solve is the ideal-solver stub (adjugate/determinant form, det != 0 recorded). Update relations, the "
                    "discrete equation of motion, evaluation points, K/C/M weights (= derivatives by Sym.diff), the Newton-incremental path from an arbitrary iterate, and "
                    "energy conservation / decay are rational identities (tolerance 0) or a QF_NRA inequality decided by z3.",
        bound={"algorithms": ALGOS + ["(elliptic through C04)"], "free_dofs": "1 with fully symbolic element matrices (quick); additionally 2 and 3 free dofs with concrete non-commuting rational element matrices (thorough)", "two_step_sequences": [f"{a}->{b}" for a, b in switches],
               "paths": ["direct", "Newton-incremental (one linear iteration from an arbitrary iterate)"], "tolerance": 0},
        symbolic=["dt, alpha, beta, gamma", "u_n, v_n, a_n", "all entries of K_e, C_e, M_e, F_e", "prescribed value, nodal load", "current Newton iterate"],
        assumptions=["linear solver backends honour A x = b (stub); the assumption det(A) != 0 is recorded in the path condition",
                     "parabolic scheme: documented as u^{n+1} = u^n + dt v^{n+alpha} with the equation written at n+1 (Solver_Set_Parabolic_Algorithm docstring)",
                     "loads are taken as given for the evaluation point (the code uses the F supplied by the user)"],
        source_files=["EasyFEA/Simulations/_simu.py", "EasyFEA/Simulations/Solvers.py"],
        rule="one job per (algorithm, path, mesh size) / energy case / two-step sequence; non-trivial = symbolic variables and at least one obligation",
        exhaustive=True,
    )


if __name__ == "__main__":
    main()
