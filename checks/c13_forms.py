"""C13 - user-written weak forms assemble the same matrices as the built-in operators.

The real `BiLinearForm/LinearForm.Integrate_e/Assemble`, `Field` (activation of one (node, dof) pair, grad,
Sym_Grad, Trace, transpose) and the built-in `Bilinear`/`Linear` operators run with symbolic coefficients
(constants, polynomial-in-position coefficient fields with symbolic coefficients, Lame parameters); per form,
`Integrate_e` must equal the built-in operator's element array with the same quadrature (or an independent
per-Gauss-point oracle), `Assemble` must equal the scatter-add, and `Simulations.WeakForms(...).Get_K_C_M_F()`
must equal the dedicated simulation's matrices as identities in the material symbols.
"""

import time
from fractions import Fraction

import numpy as np

from engine import harness, smt, facade
from engine.harness import JobResult
from engine.oblig import prove_abs_le, Outcome
from engine.poly import Poly
from engine.sym import Sym, as_sym, ctx, new_context, _vid, Cond, sym_array, has_sym
from checks import simlib

PID = "C13"
TOL = Fraction(1, 10 ** 10)


def get_mesh(et):
    if et in ("TRI3", "QUAD4", "TRI6", "TETRA4"):
        return simlib.small_mesh({"TRI3": "tri4", "QUAD4": "quad2", "TRI6": "tri6_2", "TETRA4": "tetra2"}[et])
    return simlib.gmsh_mesh(et, layers=1)


def compare_arrays(res, label, got, want, pcs, replay, tol, key=None):
    got = np.asarray(got, dtype=object)
    want = np.asarray(want, dtype=object)
    if got.shape != want.shape:
        try:
            want = want.reshape(got.shape)
        except ValueError:
            res.record(label, Outcome("cex", env={}, how="structure"), lambda env: (True, {"shape_form": list(got.shape), "shape_operator": list(want.shape)}), key=key or label)
            return
    worst = None
    n = 0
    for idx in np.ndindex(*got.shape):
        d = as_sym(got[idx]) - as_sym(want[idx])
        o = prove_abs_le(d, tol, pcs, label)
        n += 1
        if o.status != "held":
            worst = o
            break
    res.record(label, worst or Outcome("held", how="exact" if tol else "normal-form"), replay, key=key or label,
               sample=None if len(res.samples) >= 2 else {"obligation": label + f": all {n} element entries equal for all coefficient values (tolerance {float(tol):.1e})"})


def scatter_add(groupElem, dof_n, data, is_matrix=True):
    Ndof = groupElem.Ncoords * dof_n
    conn = groupElem.connect
    nd = groupElem.nPe * dof_n
    out = np.zeros((Ndof, Ndof if is_matrix else 1), dtype=object)
    dofs = np.array([[int(conn[e, i // dof_n]) * dof_n + i % dof_n for i in range(nd)] for e in range(groupElem.Ne)])
    data = np.asarray(data, dtype=object)
    for e in range(groupElem.Ne):
        for i in range(nd):
            if is_matrix:
                for j in range(nd):
                    out[dofs[e, i], dofs[e, j]] = out[dofs[e, i], dofs[e, j]] + data[e, i, j]
            else:
                out[dofs[e, i], 0] = out[dofs[e, i], 0] + data.reshape(groupElem.Ne, nd)[e, i]
    return out


def poly_coef(coefs, x, y, z, dim):
    """c0 + c1 x + c2 y (+ c3 z) evaluated on (Ne, nPg) coordinate fields"""
    v = coefs[0] + coefs[1] * x + coefs[2] * y
    if dim == 3:
        v = v + coefs[3] * z
    return v


def job_scalar(cfg):
    from EasyFEA.FEM import Field, BiLinearForm, LinearForm, MatrixType, FeArray
    from EasyFEA.FEM.Operators import Bilinear, Linear

    res = JobResult(cfg)
    c = new_context()
    facade.install()
    et = cfg["elem"]
    mesh = get_mesh(et)
    g = mesh.groupElem
    dim = g.dim
    k = c.var("k", Fraction(1, 10), 10)
    pc_ = sym_array("p", (dim + 1,), Fraction(-1), Fraction(1))
    A = sym_array("A", (dim, dim), -1, 1)
    res.symbols = 1 + dim + 1 + dim * dim
    res.functions |= {"BiLinearForm.Integrate_e", "BiLinearForm.Assemble", "LinearForm.Integrate_e", "LinearForm.Assemble", "Field.__call__", "Field.grad", "Field arithmetic",
                      "Bilinear.GradUGradV", "Bilinear.UV", "Bilinear.GradU_A_GradV", "Linear.V", "_GroupElem.Get_dN_e_pg", "_GroupElem.Get_DiffusePart_e_pg", "_GroupElem.Get_ReactionPart_e_pg"}
    key = f"scalar field {et}"
    mark = c.mark()

    def fval(env, s):
        return float(as_sym(s).eval({kk: float(v) for kk, v in {**c.shadow, **(env or {})}.items()}))

    def make_replay(form_builder, op_builder, mt):
        def replay(env):
            kf = fval(env, k)
            pf = [fval(env, x) for x in pc_]
            Af = np.array([[fval(env, A[i, j]) for j in range(dim)] for i in range(dim)])
            m2 = get_mesh(et)
            g2 = m2.groupElem
            f2 = Field(g2, 1, mt)
            got = form_builder(kf, pf, Af, f2).Integrate_e(f2)
            want = np.asarray(op_builder(kf, pf, Af, g2, f2), dtype=float).reshape(got.shape)
            d = float(np.abs(got - want).max())
            return d > 1e-9, {"k": kf, "p": pf, "max_abs_difference_form_vs_operator": d}
        return replay

    def make_replay_asm(form_builder, mt):
        def replay(env):
            kf = fval(env, k)
            pf = [fval(env, x) for x in pc_]
            Af = np.array([[fval(env, A[i, j]) for j in range(dim)] for i in range(dim)])
            m2 = get_mesh(et)
            g2 = m2.groupElem
            f2 = Field(g2, 1, mt)
            form = form_builder(kf, pf, Af, f2)
            asm2 = np.asarray(form.Assemble(f2).toarray(), dtype=float)
            ref = scatter_add(g2, 1, form.Integrate_e(f2)).astype(float)
            d = float(np.abs(asm2 - ref).max())
            return d > 1e-9, {"k": kf, "max_abs_difference_Assemble_vs_scatter_add": d}
        return replay

    cases = []
    # 1. k * grad u . grad v  (rigi quadrature)
    cases.append(("k grad(u).grad(v)", MatrixType.rigi,
                  lambda kk, pp, AA, f: BiLinearForm(lambda u, v: kk * u.grad.dot(v.grad)),
                  lambda kk, pp, AA, gg, f: Bilinear.GradUGradV(gg, coef=kk, matrixType=MatrixType.rigi)))
    # 2. u v  (mass quadrature)
    cases.append(("k u v", MatrixType.mass,
                  lambda kk, pp, AA, f: BiLinearForm(lambda u, v: kk * u.dot(v)),
                  lambda kk, pp, AA, gg, f: Bilinear.UV(gg, coef=kk, dof_n=1, matrixType=MatrixType.mass)))
    # 3. position-dependent conductivity
    def op3(kk, pp, AA, gg, f):
        x, y, z = f.Get_coords()
        return Bilinear.GradUGradV(gg, coef=poly_coef(pp, x, y, z, dim), matrixType=MatrixType.mass)
    cases.append(("(p0+p1 x+p2 y..) grad(u).grad(v)", MatrixType.mass,
                  lambda kk, pp, AA, f: BiLinearForm(lambda u, v: poly_coef(pp, *f.Get_coords(), dim) * u.grad.dot(v.grad)), op3))
    # 4. anisotropic diffusion tensor
    cases.append(("grad(u).A.grad(v)", MatrixType.rigi,
                  lambda kk, pp, AA, f: BiLinearForm(lambda u, v: (u.grad @ AA).dot(v.grad)),
                  lambda kk, pp, AA, gg, f: Bilinear.GradU_A_GradV(gg, np.asarray(AA), matrixType=MatrixType.rigi)))
    # 4b. the same tensor applied from the LEFT to the test gradient (plain matrix @ field: the reflected operator): grad(u) . (A grad(v))
    cases.append(("grad(u).(A @ grad(v))", MatrixType.rigi,
                  lambda kk, pp, AA, f: BiLinearForm(lambda u, v: u.grad.dot(np.asarray(AA) @ v.grad)),
                  lambda kk, pp, AA, gg, f: Bilinear.GradU_A_GradV(gg, np.asarray(AA), matrixType=MatrixType.rigi)))
    # 5. position-dependent reaction
    def op5(kk, pp, AA, gg, f):
        x, y, z = f.Get_coords()
        return Bilinear.UV(gg, coef=poly_coef(pp, x, y, z, dim), dof_n=1, matrixType=MatrixType.mass)
    cases.append(("(p0+p1 x+..) u v", MatrixType.mass,
                  lambda kk, pp, AA, f: BiLinearForm(lambda u, v: poly_coef(pp, *f.Get_coords(), dim) * u.dot(v)), op5))
    with facade.symbolic():
        for name, mt, fb, ob in cases:
            field = Field(g, 1, mt)
            form = fb(k, pc_, A, field)
            got = form.Integrate_e(field)
            want = ob(k, pc_, A, g, field)
            pcs = c.pc_since(mark)
            compare_arrays(res, f"{key}: {name}", got, want, pcs, make_replay(fb, ob, mt), TOL, key=f"{key}: {name}")
            if name == "k grad(u).grad(v)":
                asm = form.Assemble(field)
                asm = asm.a if isinstance(asm, facade.SymMatrix) else np.asarray(asm.toarray(), dtype=object)
                compare_arrays(res, f"{key}: Assemble = scatter-add", asm, scatter_add(g, 1, got), pcs, make_replay_asm(fb, mt), TOL, key=f"{key}: BiLinearForm.Assemble")
        # linear forms
        field = Field(g, 1, MatrixType.mass)
        lf = LinearForm(lambda v: poly_coef(pc_, *field.Get_coords(), dim) * v)
        gotF = lf.Integrate_e(field)
        x, y, z = field.Get_coords()
        wantF = Linear.V(g, poly_coef(pc_, x, y, z, dim), dof_n=1, matrixType=MatrixType.mass)
        pcs = c.pc_since(mark)

        def replay_lin(env):
            pf = [fval(env, x_) for x_ in pc_]
            m2 = get_mesh(et)
            g2 = m2.groupElem
            f2 = Field(g2, 1, MatrixType.mass)
            got = LinearForm(lambda v: poly_coef(pf, *f2.Get_coords(), dim) * v).Integrate_e(f2)
            xx, yy, zz = f2.Get_coords()
            want = np.asarray(Linear.V(g2, poly_coef(pf, xx, yy, zz, dim), dof_n=1, matrixType=MatrixType.mass)).reshape(got.shape)
            d = float(np.abs(got - want).max())
            return d > 1e-9, {"p": pf, "max_abs_difference": d}

        compare_arrays(res, f"{key}: linear form f v", gotF, wantF, pcs, replay_lin, TOL, key=f"{key}: linear form f v")

        def replay_asm(env):
            m2 = get_mesh(et)
            g2 = m2.groupElem
            f2 = Field(g2, 1, MatrixType.mass)
            lf2 = LinearForm(lambda v: 1.0 * v)
            try:
                vec = lf2.Assemble(f2)
            except Exception as e:
                return True, {"LinearForm.Assemble_raised": repr(e)[:200]}
            ref = scatter_add(g2, 1, lf2.Integrate_e(f2), False).astype(float)
            d = float(np.abs(np.asarray(vec.todense()) - ref).max())
            return d > 1e-9, {"max_abs_difference_vs_scatter_add": d}

        try:
            asmF = lf.Assemble(field)
            asmF = asmF.a if isinstance(asmF, facade.SymMatrix) else np.asarray(asmF.toarray(), dtype=object)
            compare_arrays(res, f"{key}: LinearForm.Assemble = scatter-add", asmF, scatter_add(g, 1, gotF, False), c.pc_since(mark), replay_asm, TOL, key=f"LinearForm.Assemble {et}")
        except (AssertionError, ValueError, IndexError) as e:
            res.record(f"{key}: LinearForm.Assemble = scatter-add", Outcome("cex", env={}, how="raised"), replay_asm, key=f"LinearForm.Assemble {et}")
    res.paths, res.path_conditions = 1, len(c.pc_since(mark))
    # twin
    o = prove_abs_le(as_sym(np.asarray(got, dtype=object).flat[0]) * 2 - as_sym(np.asarray(want, dtype=object).flat[0]), TOL, pcs, "twin")
    res.twin(f"{key} twin", o.status == "cex")
    res.stubs |= facade.USED_STUBS
    return res


def job_vector(cfg):
    from EasyFEA.FEM import Field, BiLinearForm, MatrixType, FeArray, Sym_Grad, Trace
    from EasyFEA.FEM.Operators import Bilinear

    res = JobResult(cfg)
    c = new_context()
    facade.install()
    et = cfg["elem"]
    mesh = get_mesh(et)
    g = mesh.groupElem
    dim = g.dim
    lmbda = c.var("lmbda", Fraction(1, 10), 100)
    mu = c.var("mu", Fraction(1, 10), 100)
    res.symbols = 2
    key = f"vector field {et}"
    res.functions |= {"BiLinearForm.Integrate_e", "Field.grad (vector)", "_field.Sym_Grad", "_linalg.Trace", "FeArray.ddot", "FeArray.T", "Bilinear.LinearizedElasticity",
                      "_GroupElem.Get_B_e_pg", "_GroupElem.Get_leftDispPart_e_pg"}
    mark = c.mark()
    mt = MatrixType.rigi

    def hooke(lm, m_):
        # Kelvin-Mandel matrix of sigma = 2 mu eps + lambda tr(eps) I  (plane strain in 2-D)
        n = 3 if dim == 2 else 6
        C = np.zeros((n, n), dtype=object)
        for i in range(dim):
            for j in range(dim):
                C[i, j] = lm + (2 * m_ if i == j else 0)
        for i in range(dim, n):
            C[i, i] = 2 * m_
        return C

    def elasticity_form(lm, m_):
        def S(u):
            Eps = Sym_Grad(u)
            return 2 * m_ * Eps + lm * Trace(Eps) * np.eye(dim)
        return BiLinearForm(lambda u, v: S(u).ddot(Sym_Grad(v)))

    def fval(env, s):
        return float(as_sym(s).eval({kk: float(v) for kk, v in {**c.shadow, **(env or {})}.items()}))

    def replay(env):
        lf, mf = fval(env, lmbda), fval(env, mu)
        m2 = get_mesh(et)
        g2 = m2.groupElem
        f2 = Field(g2, dim, mt)
        got = elasticity_form(lf, mf).Integrate_e(f2)
        want = Bilinear.LinearizedElasticity(g2, hooke(lf, mf).astype(float), mt)
        d = float(np.abs(got - want).max())
        return d > 1e-8 * (abs(lf) + abs(mf)), {"lambda": lf, "mu": mf, "max_abs_difference_form_vs_LinearizedElasticity": d}

    with facade.symbolic():
        field = Field(g, dim, mt)
        got = elasticity_form(lmbda, mu).Integrate_e(field)
        want = Bilinear.LinearizedElasticity(g, hooke(lmbda, mu), mt)
        pcs = c.pc_since(mark)
        compare_arrays(res, f"{key}: (2 mu eps(u) + lambda tr eps(u) I) : eps(v)  vs LinearizedElasticity", got, want, pcs, replay, TOL * 1000, key=f"{key}: elasticity form")
        # independent per-Gauss-point oracles for forms without a built-in counterpart
        dN = np.asarray(g.Get_dN_e_pg(mt), dtype=object)  # (Ne, nPg, dim, nPe)
        wJ = np.asarray(g.Get_weightedJacobian_e_pg(mt), dtype=object)
        Ne, nPg, _, nPe = dN.shape
        nd = nPe * dim

        def oracle(kind):
            out = np.zeros((Ne, nd, nd), dtype=object)
            for e in range(Ne):
                for a in range(nPe):
                    for da in range(dim):
                        for b in range(nPe):
                            for db in range(dim):
                                s = 0
                                for p in range(nPg):
                                    ga, gb = dN[e, p, :, a], dN[e, p, :, b]
                                    if kind == "div":      # div u div v
                                        t = ga[da] * gb[db]
                                    elif kind == "gradgrad":  # grad u : grad v
                                        t = sum(ga[i] * gb[i] for i in range(dim)) if da == db else 0
                                    else:                   # grad u^T : grad v = u_i,j v_j,i
                                        t = ga[db] * gb[da]
                                    s = s + wJ[e, p] * t
                                out[e, a * dim + da, b * dim + db] = s
            return out

        Aw = sym_array("Aw", (dim, dim), -1, 1)

        def oracle_A():
            out = np.zeros((Ne, nd, nd), dtype=object)
            for e in range(Ne):
                for a in range(nPe):
                    for b in range(nPe):
                        s_ = 0
                        for p in range(nPg):
                            ga, gb = dN[e, p, :, a], dN[e, p, :, b]
                            s_ = s_ + wJ[e, p] * sum(Aw[i, k] * ga[k] * gb[i] for i in range(dim) for k in range(dim))
                        for dd in range(dim):
                            out[e, a * dim + dd, b * dim + dd] = s_
            return out

        formA = BiLinearForm(lambda u, v: (Aw @ u.grad).ddot(v.grad))
        gotA = formA.Integrate_e(field)

        def replay_A(env):
            Af = np.array([[fval(env, Aw[i, k]) for k in range(dim)] for i in range(dim)])
            m2 = get_mesh(et)
            g2 = m2.groupElem
            f2 = Field(g2, dim, mt)
            gk = BiLinearForm(lambda u, v: (Af @ u.grad).ddot(v.grad)).Integrate_e(f2)
            dNf = np.asarray(g2.Get_dN_e_pg(mt))
            wJf = np.asarray(g2.Get_weightedJacobian_e_pg(mt))
            ref = np.zeros_like(gk)
            blk = np.einsum("ep,ik,epka,epib->eab", wJf, Af, dNf, dNf)
            for dd in range(dim):
                ref[:, dd::dim, dd::dim] = blk
            d = float(np.abs(gk - ref).max())
            return d > 1e-9, {"A": Af.tolist(), "max_abs_difference_vs_per_gauss_point_oracle": d}

        compare_arrays(res, f"{key}: (A grad u):grad v with a non-symmetric symbolic A vs per-Gauss-point oracle", gotA, oracle_A(), c.pc_since(mark), replay_A, TOL, key=f"{key}: non-symmetric A form")
        asmA = formA.Assemble(field)
        asmA = asmA.a if isinstance(asmA, facade.SymMatrix) else np.asarray(asmA.toarray(), dtype=object)
        compare_arrays(res, f"{key}: Assemble of the non-symmetric form = scatter-add", asmA, scatter_add(g, dim, gotA), c.pc_since(mark), replay_A, 0, key=f"{key}: non-symmetric A form assembly")
        forms = {
            "div": BiLinearForm(lambda u, v: Trace(Sym_Grad(u)) * Trace(Sym_Grad(v))),
            "gradgrad": BiLinearForm(lambda u, v: u.grad.ddot(v.grad)),
            "gradT": BiLinearForm(lambda u, v: u.grad.T.ddot(v.grad)),
        }
        for kind, form in forms.items():
            gotk = form.Integrate_e(field)

            def replay_k(env, kind=kind):
                m2 = get_mesh(et)
                g2 = m2.groupElem
                f2 = Field(g2, dim, mt)
                gk = forms[kind].Integrate_e(f2)
                d = float(np.abs(gk - oracle(kind).astype(float)).max())
                return d > 1e-9, {"form": kind, "max_abs_difference_vs_per_gauss_point_oracle": d}

            compare_arrays(res, f"{key}: {kind} form vs per-Gauss-point oracle", gotk, oracle(kind), pcs, replay_k, TOL, key=f"{key}: {kind} form")
        # vector mass form rho u.v (the form of examples/WeakForms/LinearElasticity2.py) against the built-in operator UV with dof_n = dim
        rho_s = c.var("rho", Fraction(1, 10), 10)
        res.symbols += 1
        fieldM = Field(g, dim, MatrixType.mass)
        try:
            gotM, errM = BiLinearForm(lambda u, v: rho_s * u.dot(v)).Integrate_e(fieldM), None
        except Exception as e:
            gotM, errM = None, e

        def replay_M(env):
            rf = fval(env, rho_s)
            g2 = get_mesh(et).groupElem
            try:
                gk = BiLinearForm(lambda u, v: rf * u.dot(v)).Integrate_e(Field(g2, dim, MatrixType.mass))
            except Exception as e2:
                return True, {"rho": rf, "raised": repr(e2)[:200]}
            ref = np.asarray(Bilinear.UV(g2, rf, dim, MatrixType.mass), dtype=float)
            d = float(np.abs(np.asarray(gk, dtype=float) - ref).max())
            return d > 1e-9 * abs(rf), {"rho": rf, "max_abs_difference_form_vs_UV": d, "form_block_node0_node0": np.asarray(gk, dtype=float)[0, :dim, :dim].tolist(), "UV_block_node0_node0": ref[0, :dim, :dim].tolist()}

        if errM is not None:
            res.record(f"{key}: rho u.v evaluates", Outcome("cex", env=dict(c.shadow), how="structure", detail=repr(errM)[:120]), replay_M, key=f"{key}: vector mass form")
        else:
            compare_arrays(res, f"{key}: rho u.v  vs UV(dof_n = dim)", gotM, Bilinear.UV(g, rho_s, dim, MatrixType.mass), c.pc_since(mark), replay_M, TOL, key=f"{key}: vector mass form")
    res.paths, res.path_conditions = 1, len(c.pc_since(mark))
    o = prove_abs_le(as_sym(np.asarray(got, dtype=object)[0, 0, 0]) - as_sym(np.asarray(want, dtype=object)[0, 0, 0]) - mu, TOL, pcs, "twin")
    res.twin(f"{key} twin", o.status == "cex")
    res.stubs |= facade.USED_STUBS
    return res


def job_simu(cfg):
    """WeakForms simulation matrices = dedicated simulation matrices (identities in the material symbols)."""
    from EasyFEA import Models, Simulations
    from EasyFEA.FEM import Field, BiLinearForm, MatrixType, Sym_Grad, Trace

    res = JobResult(cfg)
    c = new_context()
    facade.install()
    et, which = cfg["elem"], cfg["which"]
    mesh = get_mesh(et)
    g = mesh.groupElem
    dim = g.dim
    key = f"WeakForms vs {which} {et}"
    t = c.var("thickness", Fraction(1, 2), 2)
    mark = c.mark()

    def dense(M):
        return M.a if isinstance(M, facade.SymMatrix) else np.asarray(M.toarray(), dtype=object)

    def fval(env, s):
        return float(as_sym(s).eval({kk: float(v) for kk, v in {**c.shadow, **(env or {})}.items()}))

    if which == "thermal":
        k = c.var("k", Fraction(1, 10), 10)
        cap = c.var("c", Fraction(1, 10), 10)
        rho = c.var("rho", Fraction(1, 10), 10)
        res.symbols = 4

        def build(kk, cc, rr, tt, mesh_):
            gg = mesh_.groupElem
            th = Simulations.Thermal(mesh_, Models.Thermal(k=kk, c=cc, thickness=tt), verbosity=False)
            th.rho = rr
            fieldK = Field(gg, 1, MatrixType.rigi)
            wfK = Simulations.WeakForms(mesh_, Models.WeakForms(fieldK, BiLinearForm(lambda u, v: kk * u.grad.dot(v.grad)), thickness=tt), verbosity=False)
            fieldC = Field(gg, 1, MatrixType.mass)
            wfC = Simulations.WeakForms(mesh_, Models.WeakForms(fieldC, BiLinearForm(lambda u, v: 0 * u.dot(v)), computeC=BiLinearForm(lambda u, v: rr * cc * u.dot(v)), thickness=tt), verbosity=False)
            return th, wfK, wfC

        with facade.symbolic():
            th, wfK, wfC = build(k, cap, rho, t, mesh)
            Kt, Ct, _, _ = th.Get_K_C_M_F()
            Kw = wfK.Get_K_C_M_F()[0]
            Cw = wfC.Get_K_C_M_F()[1]
        pcs = c.pc_since(mark)

        def replay(env):
            th2, wfK2, wfC2 = build(fval(env, k), fval(env, cap), fval(env, rho), fval(env, t), get_mesh(et))
            dK = float(np.abs(th2.Get_K_C_M_F()[0].toarray() - wfK2.Get_K_C_M_F()[0].toarray()).max())
            dC = float(np.abs(th2.Get_K_C_M_F()[1].toarray() - wfC2.Get_K_C_M_F()[1].toarray()).max())
            return max(dK, dC) > 1e-9, {"max_difference_K": dK, "max_difference_C": dC, "thickness": fval(env, t)}

        compare_arrays(res, f"{key}: conductivity matrix", dense(Kw), dense(Kt), pcs, replay, TOL * 100, key=f"{key}: K")
        compare_arrays(res, f"{key}: capacity matrix", dense(Cw), dense(Ct), pcs, replay, TOL * 100, key=f"{key}: C")
        res.functions |= {"WeakForms.Construct_local_matrix_system", "Thermal.Construct_local_matrix_system", "_Simu.Assembly"}
    else:
        lmbda = c.var("lmbda", Fraction(1, 10), 100)
        mu = c.var("mu", Fraction(1, 10), 100)
        res.symbols = 3
        n = 3 if dim == 2 else 6

        def build(lm, m_, tt, mesh_):
            gg = mesh_.groupElem
            C = np.zeros((n, n), dtype=object if isinstance(lm, Sym) else float)
            for i in range(dim):
                for j in range(dim):
                    C[i, j] = lm + (2 * m_ if i == j else 0)
            for i in range(dim, n):
                C[i, i] = 2 * m_
            mat = Models.Elastic.Anisotropic(dim, C, useVoigtNotation=False, thickness=tt if dim == 2 else 1.0)
            el = Simulations.Elastic(mesh_, mat, verbosity=False)
            field = Field(gg, dim, MatrixType.rigi)

            def S(u):
                Eps = Sym_Grad(u)
                return 2 * m_ * Eps + lm * Trace(Eps) * np.eye(dim)

            wf = Simulations.WeakForms(mesh_, Models.WeakForms(field, BiLinearForm(lambda u, v: S(u).ddot(Sym_Grad(v))), thickness=tt), verbosity=False)
            return el, wf

        facade.OPAQUE_INV_FROM = 3
        with facade.symbolic():
            el, wf = build(lmbda, mu, t, mesh)
            Ke = el.Get_K_C_M_F()[0]
            Kw = wf.Get_K_C_M_F()[0]
        pcs = c.pc_since(mark)

        def replay(env):
            el2, wf2 = build(fval(env, lmbda), fval(env, mu), fval(env, t), get_mesh(et))
            d = float(np.abs(el2.Get_K_C_M_F()[0].toarray() - wf2.Get_K_C_M_F()[0].toarray()).max())
            return d > 1e-8 * (fval(env, lmbda) + fval(env, mu)), {"max_difference_K": d}

        compare_arrays(res, f"{key}: stiffness matrix", dense(Kw), dense(Ke), pcs, replay, TOL * 10000, key=f"{key}: K")
        res.functions |= {"WeakForms.Construct_local_matrix_system", "Elastic.Construct_local_matrix_system", "_Simu.Assembly"}
    res.paths, res.path_conditions = 1, len(pcs)
    res.stubs |= facade.USED_STUBS
    return res


def job_moved(cfg):
    """a long-lived Field: position-dependent forms are integrated, the mesh is then moved IN PLACE (symbolic translation), and the same Field is
    used again - the forms must equal the built-in operators on the moved mesh (coefficients evaluated at the moved Gauss points)"""
    from EasyFEA.FEM import Field, BiLinearForm, LinearForm, MatrixType
    from EasyFEA.FEM.Operators import Bilinear, Linear

    res = JobResult(cfg)
    c = new_context()
    facade.install()
    et = cfg["elem"]
    mesh = get_mesh(et)
    g = mesh.groupElem
    dim = g.dim
    pc_ = sym_array("p", (dim + 1,), Fraction(-1), Fraction(1))
    t = [c.var(f"t{i}", -1, 1) for i in range(dim)]
    res.symbols = dim + 1 + dim
    res.functions |= {"Field.Get_coords", "BiLinearForm.Integrate_e", "LinearForm.Integrate_e", "Mesh.Translate", "_GroupElem.Get_GaussCoordinates_e_pg", "Bilinear.GradUGradV", "Linear.V"}
    key = f"scalar field {et}, same Field before and after an in-place translation of the mesh"
    mt = MatrixType.mass

    def run(pp, tt, m_, symbolic):
        g_ = m_.groupElem
        field = Field(g_, 1, mt)
        bf = BiLinearForm(lambda u, v: poly_coef(pp, *u.Get_coords(), dim) * u.grad.dot(v.grad))
        lf = LinearForm(lambda v: poly_coef(pp, *field.Get_coords(), dim) * v)
        bf.Integrate_e(field), lf.Integrate_e(field)  # first use on the mesh as generated
        m_.Translate(*tt, *([0.0] * (3 - dim)))
        gotK, gotF = bf.Integrate_e(field), lf.Integrate_e(field)
        xyz = np.moveaxis(np.asarray(g_.Get_GaussCoordinates_e_pg(mt), dtype=object if symbolic else float), -1, 0)
        coef = poly_coef(pp, xyz[0], xyz[1], xyz[2], dim)
        wantK = Bilinear.GradUGradV(g_, coef=coef, matrixType=mt)
        wantF = Linear.V(g_, coef, dof_n=1, matrixType=mt)
        return gotK, wantK, gotF, wantF

    mark = c.mark()
    with facade.symbolic():
        gotK, wantK, gotF, wantF = run(pc_, t, mesh, True)
    pcs = c.pc_since(mark)
    res.paths, res.path_conditions = 1, len(pcs)

    def replay(env):
        full = {kk: float(v) for kk, v in {**c.shadow, **(env or {})}.items()}
        pf = [float(as_sym(x).eval(full)) for x in pc_]
        tf = [float(as_sym(x).eval(full)) for x in t]
        gK, wK, gF, wF = run(pf, tf, get_mesh(et), False)
        dK = float(np.abs(np.asarray(gK, dtype=float) - np.asarray(wK, dtype=float).reshape(np.shape(gK))).max())
        dF = float(np.abs(np.asarray(gF, dtype=float) - np.asarray(wF, dtype=float).reshape(np.shape(gF))).max())
        return max(dK, dF) > 1e-9, {"translation": tf, "p": pf, "max_abs_difference_bilinear_form_vs_operator": dK, "max_abs_difference_linear_form_vs_operator": dF}

    compare_arrays(res, f"{key}: (p0+p1 x+..) grad(u).grad(v)", gotK, wantK, pcs, replay, TOL, key=f"scalar field {et} moved mesh: position-dependent bilinear form")
    compare_arrays(res, f"{key}: (p0+p1 x+..) v", gotF, wantF, pcs, replay, TOL, key=f"scalar field {et} moved mesh: position-dependent linear form")
    o = prove_abs_le(as_sym(np.asarray(gotF, dtype=object).flat[0]) * 2 - as_sym(np.asarray(wantF, dtype=object).flat[0]), TOL, pcs, "twin")
    res.twin(f"{key} twin", o.status == "cex")
    res.stubs |= facade.USED_STUBS
    return res


def job_assemble(cfg):
    """direct sparse assembly of a form = scatter-add of its element arrays, at EVERY scale of the coefficient: the forms are
    homogeneous in one symbolic factor k in (0, 10], and the obligation is relative to it, |Assemble - scatter-add| <= tol x k
    (a problem written in small units has small entries; they are entries all the same).  Value-dependent branches on the
    entries (thresholds) split the k-axis into regions that are enumerated (engine/paths.py)."""
    from EasyFEA.FEM import Field, BiLinearForm, LinearForm, MatrixType
    from engine import paths

    res = JobResult(cfg)
    c = new_context()
    facade.install()
    et, dof_n = cfg["elem"], cfg["dof_n"]
    mesh = get_mesh(et)
    g = mesh.groupElem
    k = c.var("k", 0, 10, shadow=Fraction(3, 2))
    res.symbols = 1
    key = f"assembly {et} dof_n={dof_n}"
    res.functions |= {"BiLinearForm.Assemble", "LinearForm.Assemble", "BiLinearForm.Integrate_e", "LinearForm.Integrate_e", "_GroupElem.Get_rows_e", "_GroupElem.Get_columns_e"}

    def forms(kk):
        if dof_n == 1:
            return BiLinearForm(lambda u, v: kk * u.grad.dot(v.grad)), LinearForm(lambda v: kk * v)
        return BiLinearForm(lambda u, v: kk * u.grad.ddot(v.grad)), None  # value forms of vector fields are outside (see the module docstring)

    def dense(M):
        return M.a if isinstance(M, facade.SymMatrix) else np.asarray(M.toarray(), dtype=object)

    def body(i):
        with facade.symbolic():
            out = {}
            for nm, form, mt, is_mat in (("BiLinearForm", forms(k)[0], MatrixType.rigi, True), ("LinearForm", forms(k)[1], MatrixType.mass, False)):
                if form is None:
                    continue
                field = Field(g, dof_n, mt)
                arr = form.Integrate_e(field)
                out[nm] = (dense(form.Assemble(field)), scatter_add(g, dof_n, arr, is_mat))
            return out

    regions, status = paths.explore(body, [k], max_regions=6, label=f"{key} coverage")
    res.paths = len(regions)

    def make_replay(nm):
        def replay(env):
            kf = float(as_sym(k).eval({kk: float(v) for kk, v in {**c.shadow, **(env or {})}.items()}))
            m2 = get_mesh(et)
            g2 = m2.groupElem
            form = forms(kf)[0 if nm == "BiLinearForm" else 1]
            f2 = Field(g2, dof_n, MatrixType.rigi if nm == "BiLinearForm" else MatrixType.mass)
            asm = np.asarray(form.Assemble(f2).toarray(), dtype=float)
            ref = scatter_add(g2, dof_n, form.Integrate_e(f2), nm == "BiLinearForm").astype(float)
            scale = float(np.abs(ref).max())
            d = float(np.abs(asm - ref).max()) / scale if scale > 0 else 0.0
            return d > 1e-9, {"k": kf, "largest_entry_of_the_scatter_add": scale, "relative_difference_Assemble_vs_scatter_add": d}
        return replay

    covered = status.startswith("covered")
    found = False
    for r in regions:
        paths.reshadow(c, r.shadow)
        pcs = list(r.pcs) + list(c.side) + list(c.domain_conds())
        for nm, (asm, ref) in r.result.items():
            worst = None
            for idx in np.ndindex(*ref.shape):
                d = as_sym(asm[idx]) - as_sym(ref[idx])
                if d.n.is_zero():
                    continue
                o = prove_abs_le(d / k, TOL, pcs, f"{key} {nm}")
                if o.status != "held":
                    worst = o
                    break
            found = found or (worst is not None and worst.status == "cex")
            res.record(f"{key} region {r.index}: {nm}.Assemble = scatter-add of its element arrays, relative to the scale k of the form", worst or Outcome("held", how="exact"), make_replay(nm),
                       key=f"{key}: {nm}.Assemble", sample=None if r.index or nm != "BiLinearForm" else {"obligation": f"{key}: for all k in (0, 10]: |Assemble - scatter-add| <= 1e-9 k, entrywise"})
    if covered:
        res.held(f"{key}: {len(regions)} region(s) cover k in (0, 10]", how="exact")
    elif not found:
        res.record(f"{key}: regions cover the scale axis", Outcome("inconclusive", how="exact", detail=status), None, key=f"{key} coverage")
    o = prove_abs_le((as_sym(regions[0].result["BiLinearForm"][0][0, 0]) * 2 - as_sym(regions[0].result["BiLinearForm"][1][0, 0])) / k, TOL, list(regions[0].pcs) + list(c.domain_conds()), "twin")
    res.twin(f"{key} twin", o.status == "cex")
    res.stubs |= facade.USED_STUBS
    return res


def job(cfg):
    if cfg.get("kind") == "assemble":
        return job_assemble(cfg)
    if cfg.get("kind") == "moved":
        return job_moved(cfg)
    return {"scalar": job_scalar, "vector": job_vector, "simu": job_simu}[cfg["kind"]](cfg)


def main():
    t0 = time.time()
    tier = harness.tier()
    elems_s = ["TRI3", "QUAD4", "TRI6", "TETRA4"] + (["TRI10", "QUAD8", "QUAD9", "HEXA8", "PRISM6"] if tier == "thorough" else [])
    elems_v = ["TRI3", "QUAD4", "TETRA4"] + (["TRI6", "QUAD8", "HEXA8"] if tier == "thorough" else [])
    configs = [{"kind": "scalar", "elem": e} for e in elems_s] + [{"kind": "vector", "elem": e} for e in elems_v]
    for e in ["TRI3", "QUAD4", "TETRA4"] + (["TRI6"] if tier == "thorough" else []):
        configs.append({"kind": "simu", "elem": e, "which": "thermal"})
    for e in ["TRI3", "QUAD4"] + (["TETRA4", "TRI6"] if tier == "thorough" else []):
        configs.append({"kind": "simu", "elem": e, "which": "elastic"})
    for e in (["TRI3", "QUAD4"] if tier == "quick" else ["TRI3", "TRI6", "QUAD4", "TETRA4"]):
        configs.append({"kind": "moved", "elem": e})
    for e, dn in (("TRI3", 1), ("TRI6", 1), ("TRI3", 2)) + ((("TETRA4", 1), ("QUAD4", 2)) if tier == "thorough" else ()):
        configs.append({"kind": "assemble", "elem": e, "dof_n": dn})
    results = harness.run_jobs(job, configs)
    harness.finish(
        PID, results, t0=t0,
        explanation="Bounded symbolic execution + SMT. The real form machinery (activation of one (node, dof) pair of trial/test Field, grad, Sym_Grad, Trace, transpose, FeArray algebra, "
                    "Gauss integration) and the built-in operators run with symbolic coefficients (scalars, polynomial-in-position coefficient fields with symbolic coefficients, a symbolic "
                    "diffusion tensor, Lame parameters, thickness, density); each element array / assembled matrix of the user form is compared with the built-in operator (same quadrature) "
                    "or a per-Gauss-point oracle for all coefficient values (tolerance queries decided by z3: QF_LRA / monomial-box relaxation).",
        bound={"scalar_forms": ["k grad u.grad v", "k u.dot(v)", "(p0+p.x) grad u.grad v", "grad u.A.grad v", "(p0+p.x) u v", "linear form (p0+p.x) v"],
               "vector_forms": ["(A grad u):grad v with non-symmetric symbolic A", "(2 mu eps(u)+lambda tr eps(u) I):eps(v)", "div u div v", "grad u:grad v", "grad u^T:grad v"], "elements": {"scalar": elems_s, "vector": elems_v},
               "simulations": "WeakForms vs Thermal (K, C) and vs Elastic (K) on small meshes", "tolerance": "1e-10 x scale"},
        symbolic=["k, coefficient polynomial p, diffusion tensor A (dim x dim)", "lambda, mu", "thickness, density, capacity"],
        assumptions=["geometry concrete (small hand-built / gmsh meshes)", "vector fields: only gradient-based forms (Field.__call__ of a vector field is the scalar shape function by construction)",
                     "forms are compared on the same quadrature (Field.matrixType passed explicitly)"],
        source_files=["EasyFEA/FEM/_forms.py", "EasyFEA/FEM/_field.py", "EasyFEA/FEM/_linalg.py", "EasyFEA/FEM/Operators/Bilinear.py", "EasyFEA/FEM/Operators/Linear.py",
                      "EasyFEA/Simulations/_weakforms.py", "EasyFEA/Models/_weakforms.py"],
        rule="one job per (field kind, element type) / (simulation pair, element type); an obligation = one form identity over all element entries; non-trivial = symbolic coefficients",
        exhaustive=True,
    )


if __name__ == "__main__":
    main()
