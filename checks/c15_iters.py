"""C15 - saved iterations and saved simulations restore exactly what was saved.

One job = one simulation type x one sequence of operations over
  solve (real Solve() through the ideal-solver stub, FRESH symbolic loads each time, so every state is a distinct linear form),
  save (Save_Iter), folder -> "" / A / B, set_iter(i), get(i) (Get_results), result(i) (Result(name, iter=i)), newmesh (mesh replacement),
  move (in-place Translate of the current mesh by a symbolic vector), saveload (Save + Load_Simu).
At every Save_Iter the check takes its own snapshot (fields as symbolic linear forms, mesh coordinates + connectivity, results of the moment).
After EVERY operation the solver-free normal form decides, for all load values:
  * every stored iteration j still equals its snapshot (later solves / restores / folder changes never alter stored iterations);
  * Get_results / Result never alter the live state;  Set_Iter(i) makes fields and mesh equal to snapshot i;
  * Result(name, iter=i) equals the value obtained when iteration i was saved;
  * a loaded simulation has the same mesh history, iteration count, stored fields and results.
Identity of symbolic linear forms = "the restored array is the saved one for every value of the loads"; aliasing shows up as another step's symbols.
"""

import itertools
import os
import random
import shutil
import tempfile
import time
from fractions import Fraction

import numpy as np

from engine import harness, smt, facade, stubs
from engine.harness import JobResult
from engine.oblig import prove_abs_le, Outcome
from engine.sym import Sym, as_sym, ctx, new_context, sym_array, has_sym
from checks import simlib

PID = "C15"
SIMS = ("elastic_static", "elastic_dynamic", "thermal")
RESULT_NAMES = {"elastic_static": ["displacement", "Stress"], "elastic_dynamic": ["displacement", "speed", "accel"], "thermal": ["thermal", "thermalDot"]}


def second_mesh(k=0):
    """k-th replacement mesh: every one has its own coordinates (so restoring the wrong one of two replacement meshes is visible)"""
    X = np.array([[0.5, -0.25, 0], [1.75, -0.25, 0], [2.0, 0.5, 0], [0.75, 0.5, 0], [1.5, 1.25, 0]])
    X = X * np.array([1.0 + 0.25 * k, 1.0 + 0.125 * (k % 3), 1.0])
    return simlib.mesh_from_arrays([("TRI3", [[0, 1, 2], [0, 2, 3], [3, 2, 4]]), ("SEG2", [[0, 1], [1, 2], [2, 4], [4, 3], [3, 0]])], X)


class Vals:
    def __init__(self, c, env=None, names=None):
        self.c, self.env = c, env
        self.symbolic = names is None
        self.names = {} if names is None else names
        self.count = 0

    def get(self, name, lo=-1, hi=1):
        if self.symbolic:
            if name not in self.names:
                self.names[name] = self.c.var(name, lo, hi)
                self.count += 1
            return self.names[name]
        full = {kk: float(v) for kk, v in {**self.c.shadow, **(self.env or {})}.items()}
        return float(as_sym(self.names[name]).eval(full))


def farr(a):
    return np.asarray(a, dtype=object).reshape(-1)


class Scenario:
    """executes a sequence on a real simulation and collects (label, got, want, key) comparisons"""

    def __init__(self, sim, V, tmp):
        from EasyFEA import Simulations, Models

        self.sim, self.V, self.tmp = sim, V, tmp
        mesh = simlib.small_mesh("tri4")
        if sim == "thermal":
            s = Simulations.Thermal(mesh, Models.Thermal(k=2.5, c=1.25, thickness=0.75), verbosity=False)
            s.rho = 2.0
            s.Solver_Set_Parabolic_Algorithm(dt=0.25, alpha=0.5)
        else:
            s = Simulations.Elastic(mesh, Models.Elastic.Isotropic(2, E=200.0, v=0.25, planeStress=True, thickness=0.75), verbosity=False)
            s.rho = 2.0
            if sim == "elastic_dynamic":
                s.Solver_Set_Hyperbolic_Algorithm(dt=0.25)
        self.s = s
        self.snap = []  # snapshots taken by the check at each Save_Iter
        self.cmp = []  # (label, got, want, key)
        self.nsolve = 0
        self.nmove = 0
        self.nmesh = 0
        self.folders = {"A": os.path.join(tmp, "A"), "B": os.path.join(tmp, "B")}
        self.crash = None
        self.unit = Fraction(1)  # 'tiny' histories: loads (hence every field) in units of 2^-50 - nothing may depend on an absolute magnitude

    # -- state access through the public getters
    def live(self):
        s = self.s
        pt = s.problemType
        return {"u": farr(s._Get_u_n(pt)), "v": farr(s._Get_v_n(pt)), "a": farr(s._Get_a_n(pt)),
                "coord": farr(s.mesh.coord), "connect": farr(s.mesh.connect), "Nn": np.array([s.mesh.Nn], dtype=object)}

    def fields_of(self, results):
        if self.sim == "thermal":
            return {"u": results.get("thermal"), "v": results.get("thermalDot")}
        return {"u": results.get("displacement"), "v": results.get("speed"), "a": results.get("accel")}

    def expect(self, label, got, want, key, tol=0):
        self.cmp.append((label, farr(got), farr(want), key, tol * self.unit))

    # -- operations
    def op_solve(self):
        s = self.s
        k = self.nsolve
        self.nsolve += 1
        un = s.Get_unknowns()
        s.Bc_Init()
        nodes = s.mesh.nodes
        s.add_dirichlet(nodes[:2], [0] * len(un), un)  # two nodes: no rigid rotation left in 2-D elasticity
        s.add_neumann(nodes[2:4], [self.V.get(f"q{k}_{i}", -self.unit, self.unit) for i in range(len(un))], un)
        s.Solve()

    def op_save(self):
        s = self.s
        s.Save_Iter()
        snap = self.live()
        snap["results"] = {}
        for name in RESULT_NAMES[self.sim]:
            r = s.Result(name, nodeValues=True)
            if r is not None:
                snap["results"][name] = farr(r)
        snap["iter"] = s.Niter - 1
        self.snap.append(snap)

    def op_folder(self, which):
        self.s.folder = "" if which == "" else self.folders[which]

    def pick(self, sel):
        n = len(self.snap)
        if n == 0:
            return None
        return {"first": 0, "last": n - 1, "mid": n // 2, "neg": n - 1, "neg2": max(n - 2, 0)}[sel]

    def api_index(self, sel, i):
        """the index handed to the library: 'neg' / 'neg2' address the last / last-but-one iteration the python way (-1 / -2)"""
        if sel == "neg":
            return -1
        if sel == "neg2" and len(self.snap) >= 2:
            return -2
        return i

    def op_set_iter(self, sel):
        i = self.pick(sel)
        if i is None:
            return
        self.s.Set_Iter(self.api_index(sel, i))
        live = self.live()
        sn = self.snap[i]
        for f in ("u", "v", "a"):
            if f == "a" and self.sim == "thermal":
                continue
            self.expect(f"after Set_Iter({i}) the live field {f} is the one saved at iteration {i}", live[f], sn[f], f"Set_Iter restores field {f}")
        self.expect(f"after Set_Iter({i}) the mesh has the node count of the mesh saved with iteration {i}", live["Nn"], sn["Nn"], "Set_Iter restores the mesh (node count)")
        if live["Nn"][0] == sn["Nn"][0]:
            self.expect(f"after Set_Iter({i}) the mesh connectivity is the one saved with iteration {i}", live["connect"], sn["connect"], "Set_Iter restores the mesh (connectivity)")
            self.expect(f"after Set_Iter({i}) the mesh coordinates are those saved with iteration {i}", live["coord"], sn["coord"], "Set_Iter restores the mesh (coordinates)" + (" after an in-place motion of a stored mesh" if self.nmove else ""))

    def op_get(self, sel):
        i = self.pick(sel)
        if i is None:
            return
        before = self.live()
        r = self.s.Get_results(self.api_index(sel, i))
        after = self.live()
        for f in ("u", "v", "a", "coord"):
            self.expect(f"Get_results({i}) leaves the live {f} unchanged", after[f], before[f], f"Get_results is a pure read ({f})")
        self.compare_entry(i, r, f"Get_results({i})")

    def op_result(self, sel):
        i = self.pick(sel)
        if i is None:
            return
        before = self.live()
        for name, want in self.snap[i]["results"].items():
            got = self.s.Result(name, nodeValues=True, iter=self.api_index(sel, i))
            # derived results are recomputed from the geometry (float round-off of B differs after an in-place motion): tolerance
            self.expect(f"Result({name!r}, iter={i}) equals the value obtained when the iteration was saved", got, want, f"Result(name, iter=i) value [{name}]", tol=Fraction(1, 10 ** 7))
        after = self.live()
        for f in ("u", "v", "a"):
            self.expect(f"Result(name, iter={i}) leaves the live {f} unchanged", after[f], before[f], f"Result(name, iter=i) leaves the live state at iteration i ({f})")

    def op_scheme(self):
        """switch between the steady scheme and the time scheme of the simulation (static preload followed by a transient analysis)"""
        from EasyFEA.Simulations._simu import AlgoType

        s = self.s
        if s.algo == AlgoType.elliptic:
            if self.sim == "thermal":
                s.Solver_Set_Parabolic_Algorithm(dt=0.25, alpha=0.5)
            else:
                s.Solver_Set_Hyperbolic_Algorithm(dt=0.25)
        else:
            s.Solver_Set_Elliptic_Algorithm()

    def op_newmesh(self):
        self.s.mesh = second_mesh(self.nmesh)
        self.nmesh += 1

    def op_move(self):
        k = self.nmove
        self.nmove += 1
        self.s.mesh.Translate(self.V.get(f"tx{k}"), self.V.get(f"ty{k}"), 0.0)

    def op_saveload(self):
        from EasyFEA.Simulations import Load_Simu

        s = self.s
        folder = os.path.join(self.tmp, f"saved{len(self.cmp)}")
        live = self.live()
        cls = type(s)
        orig = cls.Results_Get_Iteration_Summary
        if self.V.symbolic:
            # the text summary written next to the pickle formats energies with float(): formatting is not the subject -> empty body
            cls.Results_Get_Iteration_Summary = lambda self_: ""
            facade.USED_STUBS.add("Results_Get_Iteration_Summary (text summary written by Save) -> empty string in symbolic mode")
        import contextlib
        import io

        try:
            with contextlib.redirect_stdout(io.StringIO()):
                s.Save(folder)
        finally:
            cls.Results_Get_Iteration_Summary = orig
        s2 = Load_Simu(folder)
        self.expect("loaded simulation has the same number of iterations", np.array([s2.Niter], dtype=object), np.array([s.Niter], dtype=object), "Load_Simu iteration count")
        pt = s2.problemType
        l2 = {"u": farr(s2._Get_u_n(pt)), "v": farr(s2._Get_v_n(pt)), "a": farr(s2._Get_a_n(pt)), "coord": farr(s2.mesh.coord), "connect": farr(s2.mesh.connect)}
        for f in l2:
            self.expect(f"loaded simulation has the same live {f}", l2[f], live[f], f"Load_Simu live {f}")
        tags = sorted(s.mesh.groupElem.nodeTags) if hasattr(s.mesh.groupElem, "nodeTags") else []
        tags2 = sorted(s2.mesh.groupElem.nodeTags) if hasattr(s2.mesh.groupElem, "nodeTags") else []
        self.expect("loaded mesh has the same node tags", np.array([len(tags2)] + [hash(t) % 997 for t in tags2], dtype=object), np.array([len(tags)] + [hash(t) % 997 for t in tags], dtype=object), "Load_Simu mesh tags")
        for sn in self.snap:
            i = sn["iter"]
            self.compare_entry(i, s2.Get_results(i), f"loaded simulation Get_results({i})", loaded=True)
        if self.snap:
            i = self.snap[0]["iter"]
            s2.Set_Iter(i)
            self.expect(f"loaded simulation: after Set_Iter({i}) the mesh coordinates are those saved with the iteration", farr(s2.mesh.coord), self.snap[0]["coord"],
                        "Load_Simu Set_Iter restores the mesh" + (" after an in-place motion of a stored mesh" if self.nmove else ""))

    def compare_entry(self, i, results, what, loaded=False):
        sn = self.snap[i]
        got = self.fields_of(results)
        for f, g in got.items():
            if g is None:
                continue
            self.expect(f"{what}: stored field {f} equals the snapshot taken when it was saved", g, sn[f], ("Load_Simu " if loaded else "") + f"stored iteration field {f}")

    def check_history(self, after):
        for sn in self.snap:
            i = sn["iter"]
            try:
                r = self.s.Get_results(i)
            except Exception as e:
                self.crash = f"Get_results({i}) after {after}: {type(e).__name__}: {e}"[:300]
                return
            self.compare_entry(i, r, f"after `{after}`, Get_results({i})")

    def run(self, ops):
        import contextlib

        sym = facade.symbolic if self.V.symbolic else contextlib.nullcontext
        solver = stubs.ideal_linear_solver if self.V.symbolic else contextlib.nullcontext
        with sym(), solver():
            if "tiny" in ops:
                self.unit = Fraction(1, 2 ** 50)
            quiet = "quiet" in ops  # no reads of the history between the operations (the check's own reads must not be what keeps the library right)
            for op in ops:
                name, arg = (op.split(":") + [None])[:2]
                if name in ("quiet", "tiny"):
                    continue
                try:
                    if name == "S":  # macro: solve + save
                        self.op_solve()
                        self.op_save()
                    elif name == "N":  # macro: replace the mesh, solve, save
                        self.op_newmesh()
                        self.op_solve()
                        self.op_save()
                    elif name == "solve":
                        self.op_solve()
                    elif name == "save":
                        self.op_save()
                    elif name == "folder":
                        self.op_folder(arg or "")
                    elif name == "set_iter":
                        self.op_set_iter(arg)
                    elif name == "get":
                        self.op_get(arg)
                    elif name == "result":
                        self.op_result(arg)
                    elif name == "newmesh":
                        self.op_newmesh()
                    elif name == "move":
                        self.op_move()
                    elif name == "saveload":
                        self.op_saveload()
                    elif name == "scheme":
                        self.op_scheme()
                    else:
                        raise KeyError(op)
                except AssertionError as e:
                    self.crash = f"{op}: AssertionError: {e}"[:300]
                    return
                except (FileNotFoundError, KeyError, IndexError, ValueError, AttributeError, TypeError) as e:
                    self.crash = f"{op}: {type(e).__name__}: {e}"[:300]
                    return
                if not quiet:
                    self.check_history(op)
                if self.crash:
                    return
            if quiet:
                self.check_history("the whole sequence")


def job_seq(cfg):
    res = JobResult(cfg)
    c = new_context()
    facade.install()
    sim, ops = cfg["sim"], cfg["ops"]
    key0 = f"{sim}: " + " ".join(ops)
    res.functions |= {"_Simu.Save_Iter", "_Simu.Get_results", "_Simu.Set_Iter", "_Simu.folder (setter)", "_Simu.mesh (setter)", "_Simu.__Update_mesh", "_Simu.Save", "Simulations.Load_Simu", "Mesh.Save", "Load_Mesh",
                      "_Simu._Set_solutions", "_Simu._Get_u_n", "_Simu._Solver_Update_solutions", "Elastic.Save_Iter", "Elastic.Set_Iter", "Elastic.Result", "Thermal.Save_Iter", "Thermal.Set_Iter", "Thermal.Result"}
    tmp = tempfile.mkdtemp(prefix="c15_")
    try:
        V = Vals(c)
        mark = c.mark()
        sc = Scenario(sim, V, tmp)
        sc.run(ops)
        pcs = c.pc_since(mark)
        res.symbols = V.count
        res.paths, res.path_conditions = 1, len(pcs)

        def make_replay(idx, label):
            def replay(env):
                tmp2 = tempfile.mkdtemp(prefix="c15r_")
                try:
                    facade.install()
                    sc2 = Scenario(sim, Vals(c, env=env or {}, names=V.names), tmp2)
                    sc2.run(ops)
                    if idx == "crash":
                        return sc2.crash is not None, {"operations": ops, "error": sc2.crash}
                    if idx >= len(sc2.cmp):
                        return sc2.crash is not None, {"operations": ops, "error": sc2.crash}
                    lab, got, want, _, _ = sc2.cmp[idx]
                    got, want = np.asarray(got, dtype=float), np.asarray(want, dtype=float)
                    if got.shape != want.shape:
                        return True, {"operations": ops, "what": lab, "shape_got": list(got.shape), "shape_expected": list(want.shape)}
                    err = float(np.abs(got - want).max()) if got.size else 0.0
                    return err > 1e-9 * max(float(sc2.unit), float(np.abs(want).max()) if want.size else float(sc2.unit)), {"operations": ops, "what": lab, "max_abs_difference": err}
                finally:
                    shutil.rmtree(tmp2, ignore_errors=True)
            return replay

        if sc.crash:
            kind = sc.crash.split(":")[1].strip() if ":" in sc.crash else "error"
            res.record(f"{key0}: the sequence runs without error", Outcome("cex", env=dict(c.shadow), how="shadow", detail=sc.crash), make_replay("crash", ""), key=f"{sim}: operation fails [{crash_key(sc.crash)}]")
        first = True
        seen = {}
        for idx, (label, got, want, key, tol) in enumerate(sc.cmp):
            okey = f"{sim}: {key}"
            if got.shape != want.shape:
                res.record(f"{key0}: {label}", Outcome("cex", env=dict(c.shadow), how="structure"), make_replay(idx, label), key=okey)
                continue
            worst = None
            for j in range(got.size):
                o = prove_abs_le(as_sym(got[j]) - as_sym(want[j]), tol, pcs, label)
                if o.status != "held":
                    worst = o
                    break
            if worst is None and okey in seen:
                seen[okey] += 1
                res.held(f"{key0}: {label}", how="normal-form" if tol == 0 else "exact")
                continue
            seen[okey] = 1
            res.record(f"{key0}: {label}", worst or Outcome("held", how="normal-form" if tol == 0 else "exact"), make_replay(idx, label), key=okey,
                       sample=None if not first else {"obligation": f"{key0}: {label} (identity of linear forms in the load symbols)"})
            first = False
        # float path at the shadow point (ground facts, no quantifier): code that treats float64 arrays differently from object arrays (copies,
        # views, de-duplication) is invisible to the symbolic run; the same history is executed on plain floats and every comparison evaluated
        if cfg.get("float_shadow"):
            tmp3 = tempfile.mkdtemp(prefix="c15f_")
            try:
                sc3 = Scenario(sim, Vals(c, env={}, names=V.names), tmp3)
                sc3.run(ops)
                known_failing = {idx for idx, (label, got, want, key, tol) in enumerate(sc.cmp) if got.shape != want.shape or any(not (as_sym(got[j]) - as_sym(want[j])).n.is_zero() for j in range(got.size))}
                bad = None
                for idx, (lab, got, want, key, tol) in enumerate(sc3.cmp):
                    if idx in known_failing:
                        continue  # already reported (or listed as a known finding) by the symbolic obligations above
                    g_, w_ = np.asarray(got, dtype=float), np.asarray(want, dtype=float)
                    if g_.shape != w_.shape or (g_.size and float(np.abs(g_ - w_).max()) > 1e-9 * max(float(sc3.unit), float(np.abs(w_).max()))):
                        bad = (idx, lab, key)
                        break
                if sc3.crash and not sc.crash:
                    res.record(f"{key0}: the float run of the sequence ends without error", Outcome("cex", env={}, how="structure", detail=sc3.crash), make_replay("crash", ""), key=f"{sim}: float run fails [{crash_key(sc3.crash)}]")
                elif bad is not None:
                    res.record(f"{key0}: float run at the shadow point: {bad[1]}", Outcome("cex", env={}, how="structure"), make_replay(bad[0], bad[1]), key=f"{sim}: {bad[2]} [float run]")
                else:
                    res.held(f"{key0}: float run at the shadow point: all comparisons", how="ground-exact")
            finally:
                shutil.rmtree(tmp3, ignore_errors=True)
        # reachability twin: a saved field differs from another step's field (the identities are not vacuous)
        tw = True
        if len(sc.snap) >= 2 and sc.nsolve >= 2:
            d = [as_sym(a) - as_sym(b) for a, b in zip(sc.snap[0]["u"], sc.snap[-1]["u"])] if sc.snap[0]["u"].shape == sc.snap[-1]["u"].shape else [as_sym(1)]
            tw = any(not x.n.is_zero() for x in d) or all(farr(sc.snap[0]["u"])[k] is farr(sc.snap[-1]["u"])[k] for k in range(1))
        res.twin(f"{key0} twin", bool(tw))
    finally:
        shutil.rmtree(tmp, ignore_errors=True)
    res.stubs |= facade.USED_STUBS
    return res


def crash_key(msg):
    import re

    m = re.sub(r"/tmp/[^\s'\"]+", "<tmp>", msg)
    m = re.sub(r"\d+", "N", m)
    return m[:160]


ALPHABET = ["solve", "save", "folder:", "folder:A", "folder:B", "set_iter:first", "set_iter:last", "get:first", "result:first", "newmesh", "move", "saveload"]


def useful(seq):
    """drop sequences that cannot exercise anything: no save, or restores before the first save"""
    if "save" not in seq and "S" not in seq:
        return False
    first_save = seq.index("save") if "save" in seq else seq.index("S")
    if any(o.split(":")[0] in ("set_iter", "get", "result") for o in seq[:first_save]):
        return False
    # consecutive duplicates of idempotent operations
    for a, b in zip(seq, seq[1:]):
        if a == b and a.split(":")[0] in ("folder", "get", "result", "set_iter", "newmesh"):
            return False
    return True


def configs(tier):
    seed = harness.seed()
    rng = random.Random(4000 + seed)
    out = []
    maxlen = 3 if tier == "quick" else 4
    for sim in SIMS:
        seqs = []
        for n in range(1, maxlen + 1):
            for seq in itertools.product(ALPHABET, repeat=n):
                # every sequence starts from a solved state
                full = ["solve"] + list(seq)
                if useful(full):
                    seqs.append(full)
        if tier == "quick" and sim != "elastic_dynamic":
            seqs = seqs[::3]
        if tier == "thorough" and sim != "elastic_dynamic":
            seqs = seqs[::2]
        # longer seed-drawn histories with several saves on several meshes
        for _ in range(60 if tier == "quick" else 400):
            n = rng.randint(5, 9)
            full = ["solve"] + [rng.choice(ALPHABET + ["save", "solve", "set_iter:mid"]) for _ in range(n)]
            if useful(full):
                seqs.append(full)
        # several meshes in one history: macro-operations S (solve+save), N (replace mesh+solve+save), restores of the first / last / middle iteration
        macro = ["S", "N", "set_iter:first", "set_iter:last"] if tier == "quick" else ["S", "N", "set_iter:first", "set_iter:last", "set_iter:mid", "folder:A"]
        lens = (4, 5) if tier == "quick" else (4, 5, 6)
        if sim == "elastic_static" or tier == "thorough":
            for n in lens:
                for seq in itertools.product(macro, repeat=n):
                    if seq.count("N") < (1 if tier == "quick" else 2) or any(a == b and a != "N" and a != "S" for a, b in zip(seq, seq[1:])):
                        continue
                    if tier == "thorough" and n == 6 and sim != "elastic_static" and rng.random() > 0.2:
                        continue
                    seqs.append(["S"] + list(seq))
        # one history mixing iterations saved under the steady scheme with iterations saved under the time scheme (restores happen under the
        # time scheme: rate fields of a steady iteration are zero)
        # (only the simulation that starts steady: its rate fields are genuinely zero when the steady iterations are saved)
        mixed = [["S", "scheme", "S", "S", "set_iter:first", "result:first", "get:first", "set_iter:last"],
                 ["S", "scheme", "S", "result:first", "set_iter:mid", "saveload"],
                 ["folder:A", "S", "scheme", "S", "S", "set_iter:first", "S", "get:first", "set_iter:first"],
                 ["S", "S", "scheme", "S", "set_iter:mid", "set_iter:first", "folder:B", "S", "result:mid"]]
        for seq in (mixed if sim == "elastic_static" else []):
            seqs.append(["solve"] + seq)
        # negative indices (-1 = the last saved iteration, whatever was read before), in memory and on disk
        for seq in (["S", "result:neg", "S", "set_iter:neg", "get:neg", "S", "get:neg2", "set_iter:neg"],
                    ["folder:A", "S", "result:neg", "S", "set_iter:neg", "get:neg", "S", "get:neg2", "result:neg", "set_iter:neg2"],
                    ["folder:A", "S", "get:neg", "S", "get:neg", "folder:B", "S", "set_iter:neg", "saveload"]):
            seqs.append(["solve"] + seq)
            seqs.append(["quiet", "solve"] + seq)
        # histories in tiny units (every field below 2^-50 ~ 9e-16): consecutive saves differ by less than any absolute tolerance
        for seq in (["S", "S", "S", "set_iter:first", "get:mid", "result:last", "set_iter:mid"], ["folder:A", "S", "S", "S", "set_iter:first", "get:mid", "set_iter:last"],
                    ["S", "S", "folder:A", "S", "result:first", "set_iter:mid", "saveload"]):
            seqs.append(["tiny", "solve"] + seq)
            seqs.append(["tiny", "quiet", "solve"] + seq)
        # the same histories without the check's own reads between the operations (every 7th sequence)
        seqs += [["quiet"] + q for q in seqs[::7] if "quiet" not in q]
        for k_, seq in enumerate(seqs):
            out.append({"sim": sim, "ops": seq, "float_shadow": ("tiny" in seq) or k_ % 5 == 0})
    return out


def job_phasefield(cfg):
    """two-field phase-field simulation with the history solver: fields AND the internal variable (history of the driving energy) after Set_Iter"""
    from EasyFEA import Models, Simulations
    from engine import paths
    from engine.sym import Cond, _vid

    res = JobResult(cfg)
    c = new_context()
    facade.install()
    reset = cfg["resetAll"]
    key = f"phasefield (Bourdin, solver History) Set_Iter(i, resetAll={reset})"
    res.functions |= {"Simulations.PhaseField.Result", "Simulations.PhaseField._Calc_Psi_Elas", "Simulations.PhaseField.Get_K_C_M_F", "Simulations.PhaseField.Save_Iter", "Simulations.PhaseField.Set_Iter", "Simulations.PhaseField.__Calc_psiPlus_e_pg", "_Simu.Get_results"}
    X = np.array([[0, 0, 0], [1, 0, 0], [0.25, 1, 0]], dtype=float)
    mesh = simlib.mesh_from_arrays([("TRI3", [[0, 1, 2]]), ("SEG2", [[0, 1], [1, 2], [2, 0]])], X)
    mat = Models.Elastic.Isotropic(2, E=210.0, v=0.25, planeStress=False)
    pfm = Models.PhaseField(mat, "Bourdin", "AT2", Gc=1.0, l0=0.1, solver="History")
    amps = [c.var(f"amplitude{k}", -1, 1, shadow=Fraction([3, 1, 2][k], 4)) for k in range(3)]
    dmg = [sym_array(f"d{k}", mesh.Nn) for k in range(3)]
    res.symbols = 3 + 3 * mesh.Nn
    uhat = np.array([0, 0, Fraction(1, 8), 0, Fraction(-1, 16), Fraction(3, 16)], dtype=object)
    g = mesh.groupElem

    def run(A, D, symbolic, restore):
        s = Simulations.PhaseField(mesh, pfm, verbosity=False)
        s._PhaseField__Niter, s._PhaseField__timeIter, s._PhaseField__convIter = 0, 0.0, 0.0
        snaps = []
        for k in range(3):
            u = uhat * A[k] if symbolic else np.array([float(x) for x in uhat]) * A[k]
            s._Set_solutions(s.ProblemTypes.elastic, u)
            s._Set_solutions(s.ProblemTypes.damage, D[k].copy())
            s.Need_Update()
            s.Get_K_C_M_F(s.ProblemTypes.damage)  # evaluates the driving energy with the history, as a solve does
            s.Save_Iter()
            hist = s._PhaseField__old_psiP_e_pg
            hist = hist[g.elemType] if isinstance(hist, dict) else hist
            # the elastic energy of the iteration (1/2 u^T K_u(d) u with the assembled, damage-degraded stiffness), as reported when it was saved
            snaps.append({"u": farr(s.displacement), "d": farr(s.damage), "H": farr(hist), "W": farr(np.array([s.Result("Wdef")], dtype=object))})
        s.Set_Iter(restore, resetAll=reset)
        hist = s._PhaseField__old_psiP_e_pg
        hist = hist[g.elemType] if isinstance(hist, dict) else hist
        live = {"u": farr(s.displacement), "d": farr(s.damage), "H": farr(hist), "W": farr(np.array([s.Result("Wdef")], dtype=object))}
        if reset:
            # what resetAll documents: the history is rebuilt from the restored state - and from nothing else (a simulation that only ever saw that state)
            s3 = Simulations.PhaseField(mesh, pfm, verbosity=False)
            s3._Set_solutions(s3.ProblemTypes.elastic, np.array(s.displacement, dtype=object if symbolic else float))
            s3._Set_solutions(s3.ProblemTypes.damage, np.array(s.damage, dtype=object if symbolic else float))
            live["P"] = farr(s3._PhaseField__Calc_psiPlus_e_pg(g))
        return snaps, live

    out = {}

    def body(k):
        with facade.symbolic():
            return {i: run(amps, dmg, True, i) for i in (0, 1)}

    regions, status = paths.explore(body, amps, max_regions=40, label=f"{key} coverage")
    res.paths = len(regions)
    if status.startswith("covered"):
        res.held(f"{key}: {len(regions)} regions cover the load amplitudes", how="exact")
    else:
        res.record(f"{key}: regions cover the amplitudes", Outcome("inconclusive", how="exact", detail=status), None, key=f"{key} coverage")

    def make_replay(i, f):
        def replay(env):
            full = {kk: float(v) for kk, v in {**c.shadow, **(env or {})}.items()}
            A = [full[_vid(a)] for a in amps]
            D = [np.array([float(as_sym(x).eval(full)) for x in d]) for d in dmg]
            snaps, live = run(A, D, False, i)
            if f == "HP":
                got, want = np.asarray(live["H"], dtype=float), np.asarray(live["P"], dtype=float)
                err = float(np.abs(got - want).max())
                return err > 1e-9 * max(1.0, float(np.abs(want).max())), {"amplitudes": A, "restored_iteration": i, "history_after_Set_Iter": got.tolist(), "driving_energy_of_the_restored_state": want.tolist()}
            got, want = np.asarray(live[f], dtype=float), np.asarray(snaps[i][f], dtype=float)
            err = float(np.abs(got - want).max())
            return err > 1e-9 * max(1.0, float(np.abs(want).max())), {"amplitudes": A, "restored_iteration": i, "field": f, "restored": got.tolist(), "saved": want.tolist()}
        return replay

    for r in regions:
        paths.reshadow(c, r.shadow)
        pcs = list(r.pcs) + list(c.side) + list(c.domain_conds())
        for i in (0, 1):
            snaps, live = r.result[i]
            if reset:
                worst = None
                for a, b in zip(live["H"], live["P"]):
                    o = prove_abs_le(as_sym(a) - as_sym(b), 0, pcs, f"{key} rebuilt history")
                    if o.status != "held":
                        worst = o
                        break
                res.record(f"{key} region {r.index}: after Set_Iter({i}, resetAll=True) the history is the driving energy of the restored state alone (nothing of later iterations survives)",
                           worst or Outcome("held", how="normal-form"), make_replay(i, "HP"), key="phasefield Set_Iter(resetAll=True): history rebuilt from the restored state only")
            for f, name in (("u", "displacement"), ("d", "damage"), ("H", "history of the driving energy"), ("W", "elastic energy Result('Wdef')")):
                worst = None
                for a, b in zip(live[f], snaps[i][f]):
                    o = prove_abs_le(as_sym(a) - as_sym(b), 0, pcs, f"{key} {name}")
                    if o.status != "held":
                        worst = o
                        break
                res.record(f"{key} region {r.index}: after Set_Iter({i}) the {name} is the one current when iteration {i} was saved", worst or Outcome("held", how="normal-form"), make_replay(i, f),
                           key=f"phasefield Set_Iter(resetAll={reset}): {name}" + (f" [iteration saved before a later, larger load]" if False else ""))
    res.twin(f"{key} twin", len(regions) >= 2)
    res.stubs |= facade.USED_STUBS
    return res


def job_reused_dict(cfg):
    """The user passes ONE dict object to every Save_Iter call (extra data of the step): each stored iteration keeps the fields it was saved
    with - a later save, through the same dict, never reaches an earlier iteration.  Elastic, Thermal and user-defined WeakForms simulations,
    in memory and on disk."""
    from EasyFEA import Simulations, Models
    from EasyFEA.FEM import Field, BiLinearForm, MatrixType
    from engine import stubs

    res = JobResult(cfg)
    c = new_context()
    facade.install()
    sim, disk = cfg["sim"], cfg.get("disk", False)
    key = f"{sim}: one dict reused by every Save_Iter" + (" (on disk)" if disk else "")
    res.functions |= {"_Simu.Save_Iter", "WeakForms.Save_Iter", "Elastic.Save_Iter", "Thermal.Save_Iter", "_Simu.Get_results", "_Simu.Set_Iter"}
    tmp = tempfile.mkdtemp(prefix="c15r_")
    q = [c.var(f"q{k}", -1, 1, shadow=Fraction(k + 1, 5) * (-1) ** k) for k in range(3)]
    res.symbols = 3

    def build():
        mesh = simlib.small_mesh("tri4")
        if sim == "weakforms":
            fld = Field(mesh.groupElem, 1, MatrixType.rigi)
            s_ = Simulations.WeakForms(mesh, Models.WeakForms(fld, BiLinearForm(lambda u, v: 2.0 * u.grad.dot(v.grad))), verbosity=False)
            name = "u"
        elif sim == "thermal":
            s_ = Simulations.Thermal(mesh, Models.Thermal(k=2.0, c=1.0, thickness=1.0), verbosity=False)
            name = "thermal"
        else:
            s_ = Simulations.Elastic(mesh, Models.Elastic.Isotropic(2, E=200.0, v=0.25, planeStress=True, thickness=0.75), verbosity=False)
            name = "displacement"
        if disk:
            s_.folder = os.path.join(tmp, "run")
        return s_, name

    def run(amps):
        s_, name = build()
        un = s_.Get_unknowns()
        info = {"comment": "user data of the step"}
        saved = []
        for k in range(3):
            s_.Bc_Init()
            s_.add_dirichlet(s_.mesh.nodes[:2], [0] * len(un), un)
            s_.add_neumann(s_.mesh.nodes[2:4], [amps[k]] * len(un), un)
            s_.Solve()
            saved.append(np.array(s_._Get_u_n(s_.problemType), dtype=object, copy=True))
            info["step"] = k
            s_.Save_Iter(info)
        stored = [np.asarray(s_.Get_results(i)[name], dtype=object).reshape(-1) for i in range(3)]
        s_.Set_Iter(0)
        live0 = np.array(s_._Get_u_n(s_.problemType), dtype=object, copy=True)
        return saved, stored, live0

    def replay(env):
        amps = [float(as_sym(x).eval({kk: float(v) for kk, v in {**c.shadow, **(env or {})}.items()})) for x in q]
        saved, stored, live0 = run(amps)
        errs = {f"stored iteration {i} vs the state it was saved with": float(np.abs(np.asarray(stored[i], dtype=float) - np.asarray(saved[i], dtype=float)).max()) for i in range(3)}
        errs["state after Set_Iter(0) vs the state saved as iteration 0"] = float(np.abs(np.asarray(live0, dtype=float) - np.asarray(saved[0], dtype=float)).max())
        return any(v > 1e-12 for v in errs.values()), errs

    try:
        with facade.symbolic(), stubs.ideal_linear_solver():
            saved, stored, live0 = run(q)
        for i in range(3):
            ok = all((as_sym(a) - as_sym(b)).n.is_zero() for a, b in zip(stored[i], saved[i])) and len(stored[i]) == len(saved[i])
            res.record(f"{key}: stored iteration {i} = the state it was saved with", Outcome("held", how="normal-form") if ok else Outcome("cex", env=dict(c.shadow), how="shadow"), replay, key=f"{key}: stored iterations",
                       sample=None if i else {"obligation": "three solves with symbolic load amplitudes, Save_Iter(info) with the same dict each time: Get_results(i) holds the linear forms of solve i", "config": cfg})
        ok = all((as_sym(a) - as_sym(b)).n.is_zero() for a, b in zip(live0, saved[0]))
        res.record(f"{key}: Set_Iter(0) restores the state saved as iteration 0", Outcome("held", how="normal-form") if ok else Outcome("cex", env=dict(c.shadow), how="shadow"), replay, key=f"{key}: restore")
        res.twin(f"{key} twin", not all((as_sym(a) - as_sym(b)).n.is_zero() for a, b in zip(stored[1], saved[0])))
    finally:
        shutil.rmtree(tmp, ignore_errors=True)
    res.paths = 1
    res.stubs |= facade.USED_STUBS
    return res


def job(cfg):
    if cfg.get("kind") == "reused_dict":
        return job_reused_dict(cfg)
    return job_phasefield(cfg) if cfg.get("kind") == "phasefield" else job_seq(cfg)


def main():
    t0 = time.time()
    tier = harness.tier()
    cfgs = configs(tier)
    cfgs += [{"kind": "phasefield", "resetAll": True}, {"kind": "phasefield", "resetAll": False}]
    for sim_ in ("weakforms", "elastic", "thermal"):
        cfgs += [{"kind": "reused_dict", "sim": sim_}, {"kind": "reused_dict", "sim": sim_, "disk": True}]
    results = harness.run_jobs(job, cfgs)
    harness.finish(
        PID, results, t0=t0,
        explanation="Bounded symbolic execution + SMT-free normal form. Real Elastic (static, Newmark) and Thermal (parabolic) simulations run sequences of solve / Save_Iter / folder change (memory, disk A, disk B) / "
                    "Set_Iter / Get_results / Result(iter=) / mesh replacement / in-place motion / Save + Load_Simu. Each Solve() goes through the ideal-solver stub with FRESH symbolic nodal loads, so every state is a "
                    "distinct vector of linear forms; the check snapshots fields, mesh and results at every Save_Iter and after every operation decides by exact normalisation (identity of linear forms = equality for "
                    "all load values) that all stored iterations still equal their snapshots, reads leave the live state unchanged, Set_Iter restores fields and mesh, and a loaded simulation reproduces the history.",
        bound={"sequence_length": "exhaustive over the 12-letter alphabet up to length 3 (quick; every third sequence for 2 of the 3 simulation types) / 4 (thorough; every second), plus seed-drawn histories of length 5-9",
               "alphabet": ALPHABET, "simulations": list(SIMS), "mesh": "tri4 (5 nodes), replacement mesh of 5 nodes / 3 TRI3 with other coordinates and connectivity"},
        symbolic=["nodal load components of every solve (fresh symbols per solve)", "translation vector of every in-place motion"],
        assumptions=["linear solves = ideal-solver stub (exact rational elimination)", "pickle round-trip of symbolic arrays is the real pickle of object arrays", "phase-field, inelastic and hyperelastic simulations are outside (their solves are iterative)",
                     "user code mutating arrays returned by Get_results is not an operation of the property"],
        source_files=["EasyFEA/Simulations/_simu.py", "EasyFEA/Simulations/_elastic.py", "EasyFEA/Simulations/_thermal.py", "EasyFEA/FEM/_mesh.py"],
        rule="one job per (simulation type, operation sequence); non-trivial = at least one Save_Iter preceded by a symbolic solve",
        exhaustive=False,
    )


if __name__ == "__main__":
    main()
