"""C18 - hyperelastic stress, tangents and operator tangents are consistent.

The real `HyperElasticState` (F, C, E, invariants and their derivative tables), the laws `Compute_W / dWde / d2Wde` and the
nonlinear element operators run on ONE element (TRI3 in 2-D, TETRA4 in 3-D) whose nodal displacements are symbolic
(fractional powers of I3 as auxiliary roots r^q = I3, log opaque with its derivative rule).  Decided for all displacements
of the box (J > 0 there):
   dW/du_a  =  Sigma . dE/du_a          (Sigma = dWde is the derivative of the stored energy along every admissible direction)
   dSigma/du_a  =  d2Wde . dE/du_a      (the material tangent is the derivative of the stress)
   W(Q F) = W(F)  for a superposed rotation Q (2-D: symbolic angle; 3-D: exact rational rotations)
   W = 0 and Sigma = 0 in the reference configuration for SYMBOLIC material constants
   operator pairs:  K_e = dR_e/du  (SecondPiolaKirchhoffStressTensor, ActiveStressTensor, KelvinVoigtDamping: also C_e = dR_e/dv,
   FollowingPressure) and R_e = d(int W)/du.
Derivatives are exact symbolic derivatives of the executed expressions (chain rule through the auxiliaries).
"""

import time
from fractions import Fraction

import numpy as np

from engine import harness, smt, facade, oblig
from engine.harness import JobResult
from engine.oblig import prove_abs_le, Outcome
from engine.sym import Sym, as_sym, ctx, new_context, sym_array, _vid
from checks import simlib

PID = "C18"
TOL = Fraction(1, 10 ** 9)
LAWS = ["NeoHookean", "MooneyRivlin", "SaintVenantKirchhoff", "CiarletGeymonat"]
LAWS_INVARIANT_FORM = LAWS + ["HolzapfelOgden"]


def make_law(name, dim, consts=None):
    from EasyFEA import Models

    H = Models.HyperElastic
    k = consts or {}
    if name == "NeoHookean":
        return H.NeoHookean(dim, K=k.get("K", 2.0))
    if name == "MooneyRivlin":
        return H.MooneyRivlin(dim, K1=k.get("K1", 1.5), K2=k.get("K2", 0.5), K=k.get("K", 4.0))
    if name == "CiarletGeymonat":
        return H.CiarletGeymonat(dim, K=k.get("K", 4.0), K1=k.get("K1", 1.5), K2=k.get("K2", 0.5))
    if name == "SaintVenantKirchhoff":
        return H.SaintVenantKirchhoff(dim, lmbda=k.get("lmbda", 3.0), mu=k.get("mu", 1.25))
    if name == "HolzapfelOgden":
        return H.HolzapfelOgden(dim, 0.5, 1.25, 0.75, 1.5, 0.25, 2.0, 0.125, 1.0, 4.0, 0.5, 0.25, np.array([0.6, 0.8, 0.0]), np.array([-0.8, 0.6, 0.0]), ks=2.0)
    raise KeyError(name)


def polynomial_law(c, dim, rich=True):
    """a user-written law through the public _HyperElastic interface: W = 1/2 a_ij e_i e_j + 1/6 b_ijk e_i e_j e_k in the Kelvin-Mandel
    components of the Green-Lagrange strain, with SYMBOLIC coefficients; stress and tangent are the exact derivatives (so that the
    operator identities are checked for every energy of the family, independently of the built-in laws)"""
    from EasyFEA.Models.HyperElastic._laws import _HyperElastic
    from EasyFEA.FEM import FeArray
    import itertools

    nd = 3 if dim == 2 else 6
    A, B = {}, {}
    for i, j in itertools.combinations_with_replacement(range(nd), 2):
        A[(i, j)] = c.var(f"a{i}{j}", -2, 2)
    for n_, (i, j, k) in enumerate(itertools.combinations_with_replacement(range(nd), 3)):
        # the reduced family keeps every second cubic coefficient symbolic (the others are fixed numbers)
        B[(i, j, k)] = c.var(f"b{i}{j}{k}", -2, 2) if (rich or n_ % 3 == 0) else Fraction(n_ % 5 - 2, 4)

    def coeffs(full=None):
        if full is None:
            return A, B
        return {k: float(as_sym(v).eval(full)) for k, v in A.items()}, {k: float(as_sym(v).eval(full)) for k, v in B.items()}

    class Poly3(_HyperElastic):
        def __init__(self, Ac, Bc):
            _HyperElastic.__init__(self, dim, 1.0)
            self.Ac, self.Bc = Ac, Bc

        def _e(self, st):
            E = st.Compute_GreenLagrange()
            r2 = float(np.sqrt(2))
            comps = [E[..., 0, 0], E[..., 1, 1], E[..., 0, 1] * r2] if dim == 2 else [E[..., 0, 0], E[..., 1, 1], E[..., 2, 2], E[..., 1, 2] * r2, E[..., 0, 2] * r2, E[..., 0, 1] * r2]
            return comps

        def _a(self, i, j):
            return self.Ac[tuple(sorted((i, j)))]

        def _b(self, i, j, k):
            return self.Bc[tuple(sorted((i, j, k)))]

        def Compute_W(self, st):
            e = self._e(st)
            W = 0
            for i in range(nd):
                for j in range(nd):
                    W = W + self._a(i, j) * e[i] * e[j] * 0.5
                    for k in range(nd):
                        W = W + self._b(i, j, k) * e[i] * e[j] * e[k] * (1 / 8) * (4 / 3)
            return FeArray.asfearray(W)

        def Compute_dWde(self, st):
            e = self._e(st)
            out = []
            for i in range(nd):
                s_ = 0
                for j in range(nd):
                    s_ = s_ + self._a(i, j) * e[j]
                    for k in range(nd):
                        s_ = s_ + self._b(i, j, k) * e[j] * e[k] * 0.5
                out.append(s_)
            return FeArray.asfearray(np.stack(out, axis=-1))

        def Compute_d2Wde(self, st):
            e = self._e(st)
            rows = []
            for i in range(nd):
                row = []
                for j in range(nd):
                    d = self._a(i, j) + 0 * e[0]
                    for k in range(nd):
                        d = d + self._b(i, j, k) * e[k]
                    row.append(d)
                rows.append(np.stack(row, axis=-1))
            return FeArray.asfearray(np.stack(rows, axis=-2))

    law = Poly3(A, B)
    law.nsym = len(A) + sum(isinstance(x, Sym) for x in B.values())
    law.concrete = lambda full: Poly3(*coeffs(full))
    return law


def fibre_field(g):
    from EasyFEA.FEM import FeArray, MatrixType

    nPg = g.Get_gauss(MatrixType.rigi).nPg
    return FeArray.asfearray(np.tile(fibre_dir(g.dim), (g.Ne, nPg, 1)))


def fibre_dir(dim):
    """exact unit vectors; in 3-D all three components differ and none vanishes (every slot of the Kelvin-Mandel vector of T x T is distinct)"""
    return np.array([0.6, 0.8, 0.0]) if dim == 2 else np.array([2 / 7, 3 / 7, 6 / 7])


def one_element(dim):
    if dim == 2:
        X = np.array([[0, 0, 0], [1, 0, 0], [0.25, 1, 0]], dtype=float)
        return simlib.mesh_from_arrays([("TRI3", [[0, 1, 2]])], X)
    X = np.array([[0, 0, 0], [1, 0, 0], [0.25, 1, 0], [0.25, 0.5, 1]], dtype=float)
    return simlib.mesh_from_arrays([("TETRA4", [[0, 1, 2, 3]])], X)


def sym_displacement(c, mesh, dim, free_nodes, half=Fraction(1, 8), name="u"):
    u = np.zeros(mesh.Nn * dim, dtype=object)
    syms = []
    for n in free_nodes:
        for k in range(dim):
            v = c.var(f"{name}{n}{'xyz'[k]}", -half, half)
            u[n * dim + k] = v
            syms.append(v)
    return u, syms


def km_vec(M, dim, r2):
    """symmetric (3,3) matrix -> Kelvin-Mandel vector of the dimension"""
    if dim == 2:
        return [M[0, 0], M[1, 1], M[0, 1] * r2]
    return [M[0, 0], M[1, 1], M[2, 2], M[1, 2] * r2, M[0, 2] * r2, M[0, 1] * r2]


def fenv(c, env):
    return {kk: float(v) for kk, v in {**c.shadow, **(env or {})}.items()}


def fvals(c, env, arr):
    full = fenv(c, env)
    return np.array([float(as_sym(x).eval(full)) for x in np.asarray(arr, dtype=object).reshape(-1)])


def close_all(res, label, pairs, pcs, replay, key, tol=TOL, sample=None):
    worst = None
    hows = set()
    for got, want in pairs:
        o = prove_abs_le(as_sym(got) - as_sym(want), tol, pcs, label, timeout_ms=30000)
        if o.status != "held":
            o0 = prove_abs_le(as_sym(got) - as_sym(want), 0, pcs, label, timeout_ms=10000) if o.status == "inconclusive" else o
            if o0.status == "held":
                o = o0
            else:
                worst = o
                break
        hows.add(o.how or "exact")
    how = next((h for h in ("relaxation", "exact", "normal-form") if h in hows), "normal-form")
    res.record(label, worst or Outcome("held", how=how), replay, key=key, sample=sample)


def job_law(cfg):
    from EasyFEA.Models.HyperElastic._state import HyperElasticState
    from EasyFEA.FEM import MatrixType

    res = JobResult(cfg)
    c = new_context()
    facade.install()
    name, dim = cfg["law"], cfg["dim"]
    key = f"{name} dim={dim}"
    res.functions |= {f"{name}.Compute_W", f"{name}.Compute_dWde", f"{name}.Compute_d2Wde", "HyperElasticState.Compute_F", "HyperElasticState.Compute_C", "HyperElasticState.Compute_GreenLagrange",
                      "HyperElasticState.Compute_I1", "HyperElasticState.Compute_I2", "HyperElasticState.Compute_I3", "HyperElasticState.Compute_dI1dC", "HyperElasticState.Compute_dI2dC", "HyperElasticState.Compute_dI3dC",
                      "HyperElasticState.Compute_d2I1dC", "HyperElasticState.Compute_d2I2dC", "HyperElasticState.Compute_d2I3dC"}
    mesh = one_element(dim)
    g = mesh.groupElem
    facade.EXACT_SQRT2[0] = True
    import EasyFEA.Models._utils as MU
    from engine.sym import root

    R2 = root(as_sym(2), 2)
    saved = {}
    for fn_name in ("Project_vector_to_matrix", "Project_matrix_to_vector"):
        fn = getattr(MU, fn_name)
        saved[fn_name] = fn.__defaults__
        fn.__defaults__ = tuple(R2 if isinstance(d, float) and abs(d - 2 ** 0.5) < 1e-15 else d for d in fn.__defaults__)
    facade.USED_STUBS.add("Kelvin-Mandel constant sqrt(2) = exact algebraic number r > 0, r^2 = 2")
    try:
        free = list(range(1, mesh.Nn))  # node 0 fixed: translations removed, the deformation gradient stays general
        u, syms = sym_displacement(c, mesh, dim, free)
        res.symbols = len(syms)
        law = make_law(name, dim)
        mark = c.mark()
        with facade.symbolic():
            st = HyperElasticState(g, u, MatrixType.rigi)
            W = as_sym(np.asarray(law.Compute_W(st), dtype=object)[0, 0])
            S = [as_sym(x) for x in np.asarray(law.Compute_dWde(st), dtype=object)[0, 0]]
            D = np.asarray(law.Compute_d2Wde(st), dtype=object)[0, 0]
            E = np.asarray(st.Compute_GreenLagrange(), dtype=object)[0, 0]
            Ev = [as_sym(x) for x in km_vec(E, dim, R2)]
        pcs = c.pc_since(mark)
        res.paths, res.path_conditions = 1, len(pcs)
        nd = len(S)

        def replay(env):
            # finite differences of the real float code at the counterexample displacement
            full = fenv(c, env)
            uf = np.array([float(as_sym(x).eval(full)) for x in u])
            lawf = make_law(name, dim)

            def Wf(uu):
                return float(np.asarray(lawf.Compute_W(HyperElasticState(g, uu, MatrixType.rigi)))[0, 0])

            def Sf(uu):
                return np.asarray(lawf.Compute_dWde(HyperElasticState(g, uu, MatrixType.rigi)))[0, 0]

            def Ef(uu):
                Em = np.asarray(HyperElasticState(g, uu, MatrixType.rigi).Compute_GreenLagrange())[0, 0]
                return np.array(km_vec(Em, dim, np.sqrt(2)), dtype=float)

            Df = np.asarray(lawf.Compute_d2Wde(HyperElasticState(g, uf, MatrixType.rigi)))[0, 0]
            S0 = Sf(uf)
            h = 1e-6
            e1 = e2 = 0.0
            for a in range(dim, uf.size):
                up, um = uf.copy(), uf.copy()
                up[a] += h
                um[a] -= h
                dW = (Wf(up) - Wf(um)) / (2 * h)
                dE = (Ef(up) - Ef(um)) / (2 * h)
                dS = (Sf(up) - Sf(um)) / (2 * h)
                e1 = max(e1, abs(dW - S0 @ dE))
                e2 = max(e2, float(np.abs(dS - Df @ dE).max()))
            scale = max(1.0, float(np.abs(S0).max()))
            return (e1 / scale > 1e-5 or e2 / max(1.0, float(np.abs(Df).max())) > 1e-5), {"displacement": uf.tolist(), "max|dW/du - Sigma.dE/du| (central differences)": e1, "max|dSigma/du - D.dE/du|": e2}

        pairs1, pairs2 = [], []
        for a in syms:
            dE = [x.diff(a) for x in Ev]
            pairs1.append((W.diff(a), sum(S[i] * dE[i] for i in range(nd))))
            for i in range(nd):
                pairs2.append((S[i].diff(a), sum(as_sym(D[i, j]) * dE[j] for j in range(nd))))
        close_all(res, f"{key}: dW/du_a = dWde . dE/du_a for every nodal displacement component", pairs1, pcs, replay, f"{key} stress = derivative of the energy",
                  sample={"obligation": f"{key}: for all displacements in the box: d W(u)/d u_a - sum_i Sigma_i(u) dE_i/du_a = 0 (rational identity modulo the root definitions)"})
        close_all(res, f"{key}: dSigma/du_a = d2Wde . dE/du_a for every nodal displacement component", pairs2, pcs, replay, f"{key} tangent = derivative of the stress")
        tw = prove_abs_le(W.diff(syms[0]) - sum(S[i] * Ev[i].diff(syms[0]) for i in range(nd)) * 2, TOL, pcs, "twin")
        res.twin(f"{key} twin", tw.status == "cex")

        # ---- reference configuration with symbolic material constants
        consts = {"NeoHookean": ["K"], "MooneyRivlin": ["K1", "K2", "K"], "CiarletGeymonat": ["K", "K1", "K2"], "SaintVenantKirchhoff": ["lmbda", "mu"]}[name]
        cs = {k: c.var(k, Fraction(1, 10), 100) for k in consts}
        mark2 = c.mark()
        with facade.symbolic():
            law0 = make_law(name, dim, cs)
            st0 = HyperElasticState(g, np.zeros(mesh.Nn * dim), MatrixType.rigi)
            W0 = np.asarray(law0.Compute_W(st0), dtype=object).reshape(-1)
            S0 = np.asarray(law0.Compute_dWde(st0), dtype=object).reshape(-1)
        pcs0 = c.pc_since(mark2)

        def replay0(env):
            full = fenv(c, env)
            kv = {k: float(as_sym(v).eval(full)) for k, v in cs.items()}
            l0 = make_law(name, dim, kv)
            s0 = HyperElasticState(g, np.zeros(mesh.Nn * dim), MatrixType.rigi)
            w, s = float(np.abs(np.asarray(l0.Compute_W(s0))).max()), float(np.abs(np.asarray(l0.Compute_dWde(s0))).max())
            return (w > 1e-9 or s > 1e-9), {"constants": kv, "W_reference": w, "max_stress_reference": s}

        close_all(res, f"{key}: W = 0 and dWde = 0 in the reference configuration for all material constants", [(x, 0) for x in list(W0) + list(S0)], pcs0, replay0, f"{key} stress-free reference")

        # ---- objectivity
        Xc = np.array([[Fraction(float(v)) for v in row] for row in mesh.coord], dtype=object)
        rotations = []
        if dim == 2:
            th, cs_, sn_ = oblig.angle("theta")
            rotations.append(("symbolic angle", np.array([[cs_, -sn_], [sn_, cs_]], dtype=object)))
        else:
            Rz = np.array([[Fraction(3, 5), Fraction(-4, 5), 0], [Fraction(4, 5), Fraction(3, 5), 0], [0, 0, 1]], dtype=object)
            ax = np.array([Fraction(2, 7), Fraction(3, 7), Fraction(6, 7)], dtype=object)
            cq, sq = Fraction(5, 13), Fraction(12, 13)
            Kx = np.array([[0, -ax[2], ax[1]], [ax[2], 0, -ax[0]], [-ax[1], ax[0], 0]], dtype=object)
            Rq = np.eye(3, dtype=int).astype(object) * cq + Kx * sq + np.outer(ax, ax) * (1 - cq)
            rotations += [("rotation 3-4-5 about z", Rz), ("rotation 5-12-13 about (2,3,6)/7", Rq)]
        for rname, Q in rotations:
            mark3 = c.mark()
            with facade.symbolic():
                u2 = np.zeros(mesh.Nn * dim, dtype=object)
                for n in range(mesh.Nn):
                    xn = [Xc[n, k] + u[n * dim + k] for k in range(dim)]
                    for i in range(dim):
                        u2[n * dim + i] = sum(Q[i, k] * xn[k] for k in range(dim)) - Xc[n, i]
                st2 = HyperElasticState(g, u2, MatrixType.rigi)
                W2 = as_sym(np.asarray(law.Compute_W(st2), dtype=object)[0, 0])
            pcs3 = c.pc_since(mark3)

            def replay_rot(env, Q=Q):
                full = fenv(c, env)
                uf = np.array([float(as_sym(x).eval(full)) for x in u])
                Qf = np.array([[float(as_sym(x).eval(full)) for x in row] for row in Q])
                nrm = np.linalg.det(Qf) ** (1.0 / dim) if np.linalg.det(Qf) > 0 else 1.0
                Qf = Qf / nrm
                Xf = np.asarray(mesh.coord)[:, :dim]
                x = Xf + uf.reshape(-1, dim)
                u2f = (x @ Qf.T - Xf).reshape(-1)
                lawf = make_law(name, dim)
                w1 = float(np.asarray(lawf.Compute_W(HyperElasticState(g, uf, MatrixType.rigi)))[0, 0])
                w2 = float(np.asarray(lawf.Compute_W(HyperElasticState(g, u2f, MatrixType.rigi)))[0, 0])
                return abs(w1 - w2) > 1e-8 * max(1.0, abs(w1)), {"displacement": uf.tolist(), "W(F)": w1, "W(QF)": w2}

            close_all(res, f"{key}: W(Q F) = W(F), {rname}", [(W2, W)], pcs + pcs3, replay_rot, f"{key} objectivity")
    finally:
        for fn_name, d in saved.items():
            getattr(MU, fn_name).__defaults__ = d
    res.stubs |= facade.USED_STUBS
    return res


def job_operator(cfg):
    """(K_e, R_e) pairs of the nonlinear element operators: tangent = derivative of the residual with respect to the step unknown"""
    from EasyFEA.Models.HyperElastic._state import HyperElasticState
    from EasyFEA.FEM import MatrixType
    from EasyFEA.FEM.Operators import NonLinear

    res = JobResult(cfg)
    c = new_context()
    facade.install()
    op, name, dim = cfg["op"], cfg.get("law", "SaintVenantKirchhoff"), cfg["dim"]
    key = f"operator {op} ({name}, dim={dim})"
    res.functions |= {f"NonLinear.{op}", "NonLinear.__second_piola_block", "NonLinear.__geometric_tangent", "NonLinear.__block_grad_B", "NonLinear.__reorder_dofs", "HyperElasticState.Compute_De", "HyperElasticState.Compute_Deta",
                      "HyperElasticState.Compute_Edot_vec"}
    mesh = one_element(dim)
    g = mesh.groupElem
    # the operators mix sqrt(2) (np.sqrt) with 2 ** (-1/2) written as a python float power: the Kelvin-Mandel factors cancel to
    # 1 +- 1e-16 only, so the float constants are kept and the identities are decided with tolerance
    import EasyFEA.Models._utils as MU

    saved = {}
    try:
        u, syms = sym_displacement(c, mesh, dim, list(range(mesh.Nn)), half=Fraction(cfg.get("half", "1/8")))
        res.symbols = len(syms)
        law = make_law(name, dim) if name != "Polynomial" else polynomial_law(c, dim, rich=cfg.get("rich", False))
        if name == "Polynomial":
            res.symbols += law.nsym
        v = None
        vsyms = []
        if op == "KelvinVoigtDamping":
            law.eta = 0.75
            v, vsyms = sym_displacement(c, mesh, dim, list(range(mesh.Nn)), half=1, name="v")
            res.symbols += len(vsyms)
        if op == "ActiveStressTensor":
            law.active_stress = 1.5
            law.Set_active_stress_vec(fibre_field(g))
        mark = c.mark()
        th_sym = c.var("thickness", Fraction(1, 4), 4, shadow=Fraction(5, 2)) if dim == 2 else None  # 2-D operators carry the thickness of the body
        if th_sym is not None:
            res.symbols += 1
        with facade.symbolic():
            if th_sym is not None:
                law.thickness = th_sym
            st = HyperElasticState(g, u, MatrixType.rigi)
            extra = None
            if op == "SecondPiolaKirchhoffStressTensor":
                K_e, R_e = NonLinear.SecondPiolaKirchhoffStressTensor(law, st)
                Wtot = (np.asarray(g.Get_weightedJacobian_e_pg(MatrixType.rigi), dtype=object)[0] * np.asarray(law.Compute_W(st), dtype=object)[0]).sum() * (law.thickness if dim == 2 else 1)
            elif op == "ActiveStressTensor":
                K_e, R_e = NonLinear.ActiveStressTensor(law, st)
                Wtot = None
                # virtual work of the active stress tau T x T (second Piola-Kirchhoff): R_e . du = int tau T.(dE)T = d/du [ tau/2 int T.C T ], with
                # C = F^T F taken from the state and contracted with the fibre HERE (independent of the Kelvin-Mandel vector the law stores)
                Tn = [Fraction(x).limit_denominator(1000) for x in fibre_dir(dim)]
                Cm = np.asarray(st.Compute_C(), dtype=object)[0]
                wJ = np.asarray(g.Get_weightedJacobian_e_pg(MatrixType.rigi), dtype=object)[0]
                Wact = sum(wJ[p_] * sum(Tn[i] * Cm[p_][i, j] * Tn[j] for i in range(dim) for j in range(dim)) for p_ in range(len(wJ))) * Fraction(3, 4) * (law.thickness if dim == 2 else 1)
            elif op == "KelvinVoigtDamping":
                K_e, R_e, extra = NonLinear.KelvinVoigtDamping(law, st, v)
                Wtot = None
            else:
                raise KeyError(op)
        pcs = c.pc_since(mark)
        res.paths, res.path_conditions = 1, len(pcs)
        K_e, R_e = np.asarray(K_e, dtype=object)[0], np.asarray(R_e, dtype=object)[0]

        def replay(env):
            full = fenv(c, env)
            uf = np.array([float(as_sym(x).eval(full)) for x in u])
            vf = None if v is None else np.array([float(as_sym(x).eval(full)) for x in v])
            lawf = make_law(name, dim) if name != "Polynomial" else law.concrete(full)
            if th_sym is not None:
                lawf.thickness = float(as_sym(th_sym).eval(full))
            if op == "KelvinVoigtDamping":
                lawf.eta = 0.75
            if op == "ActiveStressTensor":
                lawf.active_stress = 1.5
                lawf.Set_active_stress_vec(fibre_field(g))

            def call(uu, vv=None):
                s_ = HyperElasticState(g, uu, MatrixType.rigi)
                if op == "SecondPiolaKirchhoffStressTensor":
                    return NonLinear.SecondPiolaKirchhoffStressTensor(lawf, s_)
                if op == "ActiveStressTensor":
                    return NonLinear.ActiveStressTensor(lawf, s_)
                return NonLinear.KelvinVoigtDamping(lawf, s_, vv)

            out0 = call(uf, vf)
            K0 = np.asarray(out0[0])[0]
            h = 1e-6
            err = 0.0
            for a in range(uf.size):
                up, um = uf.copy(), uf.copy()
                up[a] += h
                um[a] -= h
                dR = (np.asarray(call(up, vf)[1])[0] - np.asarray(call(um, vf)[1])[0]) / (2 * h)
                err = max(err, float(np.abs(dR - K0[:, a]).max()))
            info = {"displacement": uf.tolist(), "max|dR/du - K| (central differences)": err}
            bad = err > 1e-5 * max(1.0, float(np.abs(K0).max()))
            if op == "KelvinVoigtDamping":
                C0 = np.asarray(out0[2])[0]
                errc = 0.0
                for a in range(vf.size):
                    vp, vm = vf.copy(), vf.copy()
                    vp[a] += h
                    vm[a] -= h
                    dR = (np.asarray(call(uf, vp)[1])[0] - np.asarray(call(uf, vm)[1])[0]) / (2 * h)
                    errc = max(errc, float(np.abs(dR - C0[:, a]).max()))
                info["max|dR/dv - C|"] = errc
                bad = bad or errc > 1e-5 * max(1.0, float(np.abs(C0).max()))
            return bad, info

        ndof = len(syms)
        pairs = [(as_sym(R_e[i]).diff(syms[j]), K_e[i, j]) for i in range(ndof) for j in range(ndof)]
        close_all(res, f"{key}: K_e = dR_e/du entrywise (dofs ordered (x1,y1,..,xn,yn))", pairs, pcs, replay, f"{key} tangent = derivative of the residual",
                  sample={"obligation": f"{key}: for all nodal displacements in the box: d R_e[i]/d u_j - K_e[i,j] = 0 for all {ndof * ndof} entries"})
        if Wtot is not None:
            close_all(res, f"{key}: R_e = d(int W)/du", [(as_sym(Wtot).diff(syms[i]), R_e[i]) for i in range(ndof)], pcs, replay, f"{key} residual = derivative of the stored energy")
        if op == "ActiveStressTensor":
            def replay_act(env):
                full = fenv(c, env)
                uf = np.array([float(as_sym(x).eval(full)) for x in u])
                lawf = make_law(name, dim)
                thf = float(as_sym(th_sym).eval(full)) if th_sym is not None else 1.0
                if th_sym is not None:
                    lawf.thickness = thf
                lawf.active_stress = 1.5
                lawf.Set_active_stress_vec(fibre_field(g))
                Tf = fibre_dir(dim)[:dim]

                def Wf(uu):
                    s_ = HyperElasticState(g, uu, MatrixType.rigi)
                    Cf = np.asarray(s_.Compute_C(), dtype=float)[0]
                    wf = np.asarray(g.Get_weightedJacobian_e_pg(MatrixType.rigi), dtype=float)[0]
                    return 0.75 * thf * float(sum(wf[p_] * (Tf @ Cf[p_] @ Tf) for p_ in range(len(wf))))

                R0 = np.asarray(NonLinear.ActiveStressTensor(lawf, HyperElasticState(g, uf, MatrixType.rigi))[1], dtype=float)[0]
                h, err = 1e-6, 0.0
                for a in range(uf.size):
                    up, um = uf.copy(), uf.copy()
                    up[a] += h
                    um[a] -= h
                    err = max(err, abs((Wf(up) - Wf(um)) / (2 * h) - R0[a]))
                return err > 1e-6 * max(1.0, float(np.abs(R0).max())), {"displacement": uf.tolist(), "fibre": Tf.tolist(), "max|R_e - d/du (tau/2 int T.C T)| (central differences)": err}

            close_all(res, f"{key}: R_e = d/du [ tau/2 int T.C T ] (virtual work of tau T x T along the fibre)", [(as_sym(Wact).diff(syms[i]), R_e[i]) for i in range(ndof)], pcs, replay_act,
                      f"{key} residual = virtual work of the active stress along the fibre")
        if extra is not None:
            C_e = np.asarray(extra, dtype=object)[0]
            close_all(res, f"{key}: C_e = dR_e/dv entrywise", [(as_sym(R_e[i]).diff(vsyms[j]), C_e[i, j]) for i in range(ndof) for j in range(ndof)], pcs, replay, f"{key} damping = derivative of the residual in v")
        tw = prove_abs_le(as_sym(R_e[1]).diff(syms[1]) - as_sym(K_e[1, 1]) * 2, TOL, pcs, "twin")
        res.twin(f"{key} twin", tw.status == "cex")
    finally:
        for fn_name, d in saved.items():
            getattr(MU, fn_name).__defaults__ = d
    res.stubs |= facade.USED_STUBS
    return res


class FakeState:
    """duck-typed HyperElasticState handed to a law: the invariants are INDEPENDENT symbols i1, i2, i3 (> 0) and their first / second derivative
    tables are arrays of fresh symbols.  What a law does with them (W, dWde = 2 sum dW/dI_k dI_k, d2Wde) is then checked for all invariant
    values at once; that the real tables are the derivatives of the real invariants is a separate job (job_tables)."""

    def __init__(self, c, nd, ninv=3):
        from EasyFEA.FEM import FeArray

        self.ninv = ninv
        names = ["i1", "i2", "i3", "i4", "i6", "i8"][:ninv]
        self.I = [c.var(names[k], Fraction(1, 4), 8, shadow=[3, 3, 1, 1, 1, 0][k] + Fraction(k + 1, 7)) for k in range(ninv)]
        self.g = [np.array([c.var(f"g{k + 1}_{a}", -2, 2) for a in range(nd)], dtype=object) for k in range(ninv)]
        self.H = []
        for k in range(ninv):
            Hk = np.empty((nd, nd), dtype=object)
            for a in range(nd):
                for b in range(a, nd):
                    # I4, I6, I8 are linear in C: their second-derivative tables are zero (that the real tables are is job_tables' business)
                    Hk[a, b] = Hk[b, a] = c.var(f"h{k + 1}_{a}{b}", -2, 2) if k < 3 else 0
            self.H.append(Hk)
        self._fe = FeArray
        self.nd = nd

    def _s(self, x):
        a = np.empty((1, 1), dtype=object)
        a[0, 0] = x
        return self._fe.asfearray(a)

    def _v(self, x):
        return self._fe.asfearray(np.asarray(x, dtype=object).reshape((1, 1) + np.shape(x)))

    def Compute_I1(self):
        return self._s(self.I[0])

    def Compute_I2(self):
        return self._s(self.I[1])

    def Compute_I3(self):
        return self._s(self.I[2])

    def Compute_dI1dC(self):
        return self._v(self.g[0])

    def Compute_dI2dC(self):
        return self._v(self.g[1])

    def Compute_dI3dC(self):
        return self._v(self.g[2])

    def Compute_d2I1dC(self):
        return self._v(self.H[0])

    def Compute_d2I2dC(self):
        return self._v(self.H[1])

    def Compute_d2I3dC(self):
        return self._v(self.H[2])

    # anisotropic invariants (Holzapfel-Ogden): the fibre directions only select which invariant is meant
    def Compute_I4(self, T=None):
        return self._s(self.I[3])

    def Compute_I6(self, T=None):
        return self._s(self.I[4])

    def Compute_I8(self, T1=None, T2=None):
        return self._s(self.I[5])

    def Compute_dI4dC(self, T=None):
        return self._v(self.g[3])

    def Compute_dI6dC(self, T=None):
        return self._v(self.g[4])

    def Compute_dI8dC(self, T1=None, T2=None):
        return self._v(self.g[5])

    def Compute_d2I4dC(self):
        return self._v(self.H[3])

    def Compute_d2I6dC(self):
        return self._v(self.H[4])

    def Compute_d2I8dC(self):
        return self._v(self.H[5])


def job_law_invariants(cfg):
    """law algebra in the invariants: dWde = 2 sum_k dW/dI_k dI_k and d2Wde = 4 sum_k dW/dI_k d2I_k + 4 sum_kl d2W/dI_k dI_l dI_k x dI_l, with the partial
    derivatives taken symbolically from the law's own W(I1, I2, I3)"""
    res = JobResult(cfg)
    c = new_context()
    facade.install()
    name, dim = cfg["law"], cfg["dim"]
    nd = 3 if dim == 2 else 6
    key = f"{name} dim={dim} (invariant form)"
    res.functions |= {f"{name}.Compute_W", f"{name}.Compute_dWde", f"{name}.Compute_d2Wde", "Models._utils TensorProd"}
    ninv = 6 if name == "HolzapfelOgden" else 3
    st = FakeState(c, nd, ninv)
    res.symbols = ninv * (1 + nd + nd * (nd + 1) // 2)
    law = make_law(name, dim)
    mark = c.mark()
    with facade.symbolic():
        W = as_sym(np.asarray(law.Compute_W(st), dtype=object)[0, 0])
        S = np.asarray(law.Compute_dWde(st), dtype=object)[0, 0]
        D = np.asarray(law.Compute_d2Wde(st), dtype=object)[0, 0]
    pcs = c.pc_since(mark)
    res.paths, res.path_conditions = 1, len(pcs)
    dW = [W.diff(i) for i in st.I]
    d2W = [[dW[k].diff(st.I[l]) for l in range(ninv)] for k in range(ninv)]

    def replay(env):
        # numeric state with the same duck-typed interface; partial derivatives of the law's W by central differences in the invariants
        from EasyFEA.FEM import FeArray

        full = fenv(c, env)
        Iv = [float(as_sym(x).eval(full)) for x in st.I]
        gv = [np.array([float(as_sym(x).eval(full)) for x in g_]) for g_ in st.g]
        Hv = [np.array([[float(as_sym(x).eval(full)) for x in row] for row in H_]) for H_ in st.H]

        class Num(FakeState):
            def __init__(s_, I):
                s_.I, s_.g, s_.H, s_._fe, s_.nd, s_.ninv = list(I), gv, Hv, FeArray, nd, ninv

            def _s(s_, x):
                return FeArray.asfearray(np.array([[x]], dtype=float))

            def _v(s_, x):
                return FeArray.asfearray(np.asarray(x, dtype=float).reshape((1, 1) + np.shape(x)))

        lawf = make_law(name, dim)

        def Wf(I):
            return float(np.asarray(lawf.Compute_W(Num(I)))[0, 0])

        h = 1e-4
        dWn = np.zeros(ninv)
        d2Wn = np.zeros((ninv, ninv))
        for k in range(ninv):
            Ip, Im = list(Iv), list(Iv)
            Ip[k] += h
            Im[k] -= h
            dWn[k] = (Wf(Ip) - Wf(Im)) / (2 * h)
            for l in range(ninv):
                Ipp, Ipm, Imp, Imm = list(Iv), list(Iv), list(Iv), list(Iv)
                Ipp[k] += h; Ipp[l] += h
                Ipm[k] += h; Ipm[l] -= h
                Imp[k] -= h; Imp[l] += h
                Imm[k] -= h; Imm[l] -= h
                d2Wn[k, l] = (Wf(Ipp) - Wf(Ipm) - Wf(Imp) + Wf(Imm)) / (4 * h * h)
        S0 = np.asarray(lawf.Compute_dWde(Num(Iv)))[0, 0]
        D0 = np.asarray(lawf.Compute_d2Wde(Num(Iv)))[0, 0]
        wantS = 2 * sum(dWn[k] * gv[k] for k in range(ninv))
        wantD = 4 * sum(dWn[k] * Hv[k] for k in range(ninv)) + 4 * sum(d2Wn[k, l] * np.outer(gv[k], gv[l]) for k in range(ninv) for l in range(ninv))
        eS = float(np.abs(S0 - wantS).max()) / max(1.0, float(np.abs(wantS).max()))
        eD = float(np.abs(D0 - wantD).max()) / max(1.0, float(np.abs(wantD).max()))
        return (eS > 1e-4 or eD > 1e-4), {"invariants": Iv, "rel_error_dWde_vs_central_differences_of_W": eS, "rel_error_d2Wde_vs_second_differences_of_W": eD}

    pairs1 = [(S[a], sum(dW[k] * st.g[k][a] for k in range(ninv)) * 2) for a in range(nd)]
    close_all(res, f"{key}: dWde = 2 sum_k (dW/dI_k) dI_k/dC with dW/dI_k differentiated from the law's own W", pairs1, pcs, replay, f"{name} stress = derivative of the energy (invariant form)",
              sample={"obligation": f"{key}: for all I1, I2, I3 > 0 and all tables: dWde[a] - 2 sum_k dW/dI_k g_k[a] = 0 (rational identity modulo the root definitions)"})
    pairs2 = []
    for a in range(nd):
        for b in range(nd):
            want = sum(dW[k] * st.H[k][a, b] for k in range(ninv)) * 4 + sum(d2W[k][l] * st.g[k][a] * st.g[l][b] for k in range(ninv) for l in range(ninv)) * 4
            pairs2.append((D[a, b], want))
    close_all(res, f"{key}: d2Wde = 4 sum_k dW/dI_k d2I_k + 4 sum_kl d2W/dI_k dI_l dI_k x dI_l", pairs2, pcs, replay, f"{name} tangent = derivative of the stress (invariant form)")
    tw = prove_abs_le(as_sym(S[0]) - sum(dW[k] * st.g[k][0] for k in range(ninv)), TOL, pcs, "twin")
    res.twin(f"{key} twin", tw.status == "cex")
    res.stubs |= facade.USED_STUBS
    return res


def job_law_reassigned(cfg):
    """a law object whose public parameters are re-assigned after it was built (Holzapfel-Ogden: fibre directions T1, T2, moduli) evaluates W, dWde
    and d2Wde exactly like a law built directly with the final parameters - on the REAL state of a symbolic displacement (exp as an opaque
    function of its argument: equal arguments give the same node)"""
    from EasyFEA.Models.HyperElastic._state import HyperElasticState
    from EasyFEA.FEM import MatrixType
    from EasyFEA import Models

    res = JobResult(cfg)
    c = new_context()
    facade.install()
    dim = cfg["dim"]
    key = f"HolzapfelOgden dim={dim}: fibres and moduli re-assigned after construction"
    res.functions |= {"HolzapfelOgden.Compute_W", "HolzapfelOgden.Compute_dWde", "HolzapfelOgden.Compute_d2Wde", "HolzapfelOgden.__init__", "_params.VectorParameter", "HyperElasticState.Compute_I4 / I6 / I8 and tables"}
    mesh = one_element(dim)
    g = mesh.groupElem
    free = [mesh.Nn - 1]  # one node moves (dim symbols): the comparison is between two evaluations of the same formulas, not a derivative identity
    u, syms = sym_displacement(c, mesh, dim, free)
    res.symbols = len(syms)
    T1a, T2a = np.array([0.6, 0.8, 0.0]), np.array([-0.8, 0.6, 0.0])
    T1b, T2b = (np.array([5 / 13, 12 / 13, 0.0]), np.array([-12 / 13, 5 / 13, 0.0])) if dim == 2 else (np.array([2 / 7, 3 / 7, 6 / 7]), np.array([3 / 7, -6 / 7, 2 / 7]))
    H = Models.HyperElastic.HolzapfelOgden

    def build(T1, T2, C0=0.5):
        return H(dim, C0, 1.25, 0.75, 1.5, 0.25, 2.0, 0.125, 1.0, 4.0, 0.5, 0.25, T1, T2, ks=2.0)

    def evaluate(law, uu, symbolic):
        st = HyperElasticState(g, uu, MatrixType.rigi)
        return [np.asarray(x, dtype=object if symbolic else float)[0, 0] for x in (law.Compute_W(st), law.Compute_dWde(st), law.Compute_d2Wde(st))]

    def both(uu, symbolic):
        old = build(T1a, T2a, 0.25)
        evaluate(old, uu, symbolic)  # the object is used once with its first parameters
        old.T1, old.T2, old.C0 = T1b, T2b, 0.5
        return evaluate(old, uu, symbolic), evaluate(build(T1b, T2b), uu, symbolic)

    mark = c.mark()
    with facade.symbolic():
        got, want = both(u, True)
    pcs = c.pc_since(mark)
    res.paths, res.path_conditions = 1, len(pcs)

    def replay(env):
        full = fenv(c, env)
        uf = np.array([float(as_sym(x).eval(full)) for x in u])
        gf, wf = both(uf, False)
        errs = [float(np.abs(np.asarray(a, dtype=float) - np.asarray(b, dtype=float)).max() / max(1.0, float(np.abs(np.asarray(b, dtype=float)).max()))) for a, b in zip(gf, wf)]
        return max(errs) > 1e-9, {"displacement": uf.tolist(), "relative_difference_W_dWde_d2Wde_between_reassigned_and_fresh_law": errs}

    for nm, a, b in zip(("W", "dWde", "d2Wde"), got, want):
        a, b = np.asarray(a, dtype=object).reshape(-1), np.asarray(b, dtype=object).reshape(-1)
        close_all(res, f"{key}: {nm} equals the one of a law built with the final parameters", list(zip(a, b)), pcs, replay, f"HolzapfelOgden re-assigned parameters: {nm}",
                  sample=None if nm != "dWde" else {"obligation": f"{key}: for all nodal displacements in the box, dWde(re-assigned law) - dWde(fresh law) = 0 entrywise"})
    tw = prove_abs_le(as_sym(np.asarray(got[1], dtype=object).reshape(-1)[0]) - as_sym(np.asarray(want[1], dtype=object).reshape(-1)[0]) * 2, TOL, pcs, "twin")
    res.twin(f"{key} twin", tw.status == "cex")
    res.stubs |= facade.USED_STUBS
    return res


def job_tables(cfg):
    """the state's invariant tables are the derivatives of its invariants with respect to the right Cauchy-Green tensor (Kelvin-Mandel coordinates)"""
    from EasyFEA.Models.HyperElastic._state import HyperElasticState
    from EasyFEA.FEM import MatrixType, FeArray

    res = JobResult(cfg)
    c = new_context()
    facade.install()
    dim = cfg["dim"]
    nd = 3 if dim == 2 else 6
    key = f"invariant tables dim={dim}"
    res.functions |= {"HyperElasticState.Compute_I1", "HyperElasticState.Compute_I2", "HyperElasticState.Compute_I3", "HyperElasticState.Compute_dI1dC", "HyperElasticState.Compute_dI2dC", "HyperElasticState.Compute_dI3dC",
                      "HyperElasticState.Compute_d2I1dC", "HyperElasticState.Compute_d2I2dC", "HyperElasticState.Compute_d2I3dC", "HyperElasticState._Slice_Vector", "HyperElasticState._Slice_Matrix"}
    facade.EXACT_SQRT2[0] = True
    import EasyFEA.Models._utils as MU
    from engine.sym import root

    R2 = root(as_sym(2), 2)
    saved = {}
    for fn_name in ("Project_vector_to_matrix", "Project_matrix_to_vector"):
        fn = getattr(MU, fn_name)
        saved[fn_name] = fn.__defaults__
        fn.__defaults__ = tuple(R2 if isinstance(d, float) and abs(d - 2 ** 0.5) < 1e-15 else d for d in fn.__defaults__)
    try:
        mesh = one_element(dim)
        g = mesh.groupElem
        # Kelvin-Mandel coordinates of C: [c11, c22, (c33), (r c23, r c13,) r c12]
        names = ["c11", "c22", "k12"] if dim == 2 else ["c11", "c22", "c33", "k23", "k13", "k12"]
        shadow = [Fraction(5, 4), Fraction(9, 8), Fraction(1, 8)] if dim == 2 else [Fraction(5, 4), Fraction(9, 8), Fraction(11, 8), Fraction(1, 8), Fraction(-1, 16), Fraction(3, 16)]
        ch = [c.var(n, -2, 2, shadow=sh) for n, sh in zip(names, shadow)]
        res.symbols = nd
        if dim == 2:
            Cm = np.array([[ch[0], ch[2] / R2, 0], [ch[2] / R2, ch[1], 0], [0, 0, 1]], dtype=object)
        else:
            Cm = np.array([[ch[0], ch[5] / R2, ch[4] / R2], [ch[5] / R2, ch[1], ch[3] / R2], [ch[4] / R2, ch[3] / R2, ch[2]]], dtype=object)

        class SymCState(HyperElasticState):
            def Compute_C(self_):
                return FeArray.asfearray(Cm.reshape(1, 1, 3, 3))

        mark = c.mark()
        with facade.symbolic():
            st = SymCState(g, np.zeros(mesh.Nn * dim), MatrixType.rigi)
            nPg = g.Get_gauss(MatrixType.rigi).nPg
            T1 = FeArray.asfearray(np.tile(np.array([0.6, 0.8, 0.0]) if dim == 2 else np.array([2 / 7, 3 / 7, 6 / 7]), (g.Ne, nPg, 1)))
            T2 = FeArray.asfearray(np.tile(np.array([-0.8, 0.6, 0.0]) if dim == 2 else np.array([3 / 7, -6 / 7, 2 / 7]), (g.Ne, nPg, 1)))
            I = [as_sym(np.asarray(f(), dtype=object).reshape(-1)[0]) for f in (st.Compute_I1, st.Compute_I2, st.Compute_I3, lambda: st.Compute_I4(T1), lambda: st.Compute_I6(T2), lambda: st.Compute_I8(T1, T2))]
            G = [np.asarray(f(), dtype=object).reshape(-1)[:nd] for f in (st.Compute_dI1dC, st.Compute_dI2dC, st.Compute_dI3dC, lambda: st.Compute_dI4dC(T1), lambda: st.Compute_dI6dC(T2), lambda: st.Compute_dI8dC(T1, T2))]
            Hh = [np.asarray(f(), dtype=object) for f in (st.Compute_d2I1dC, st.Compute_d2I2dC, st.Compute_d2I3dC, st.Compute_d2I4dC, st.Compute_d2I6dC, st.Compute_d2I8dC)]
            Hh = [h.reshape(h.shape[-2:]) for h in Hh]
        pcs = c.pc_since(mark)
        res.paths, res.path_conditions = 1, len(pcs)

        def replay(env):
            full = fenv(c, env)
            cv = np.array([float(as_sym(x).eval(full)) for x in ch])
            r2 = np.sqrt(2)

            def Cof(v):
                if dim == 2:
                    return np.array([[v[0], v[2] / r2, 0], [v[2] / r2, v[1], 0], [0, 0, 1.0]])
                return np.array([[v[0], v[5] / r2, v[4] / r2], [v[5] / r2, v[1], v[3] / r2], [v[4] / r2, v[3] / r2, v[2]]])

            class NumC(HyperElasticState):
                def __init__(s_, v):
                    HyperElasticState.__init__(s_, g, np.zeros(mesh.Nn * dim), MatrixType.rigi)
                    s_.v = v

                def Compute_C(s_):
                    return FeArray.asfearray(Cof(s_.v).reshape(1, 1, 3, 3))

            errs = {}
            h = 1e-6
            bad = False
            T1f, T2f = np.asarray(T1, dtype=float), np.asarray(T2, dtype=float)
            fibres = {"I1": (), "I2": (), "I3": (), "I4": (T1f,), "I6": (T2f,), "I8": (T1f, T2f)}
            for nm, targs in fibres.items():
                targs = tuple(FeArray.asfearray(t) for t in targs)
                tab = np.asarray(getattr(NumC(cv), f"Compute_d{nm}dC")(*targs)).reshape(-1)[:nd]
                fd = np.zeros(nd)
                for a in range(nd):
                    vp, vm = cv.copy(), cv.copy()
                    vp[a] += h
                    vm[a] -= h
                    fd[a] = (float(np.asarray(getattr(NumC(vp), f"Compute_{nm}")(*targs)).reshape(-1)[0]) - float(np.asarray(getattr(NumC(vm), f"Compute_{nm}")(*targs)).reshape(-1)[0])) / (2 * h)
                errs[f"max|d{nm}dC - finite difference|"] = float(np.abs(tab - fd).max())
                bad = bad or errs[f"max|d{nm}dC - finite difference|"] > 1e-5
                if targs:  # fibre invariants are linear in C: their second tables are zero
                    h2 = np.asarray(getattr(NumC(cv), f"Compute_d2{nm}dC")())
                    errs[f"max|d2{nm}dC|"] = float(np.abs(h2).max())
                    bad = bad or errs[f"max|d2{nm}dC|"] > 1e-9
            return bad, {"C_kelvin_mandel": cv.tolist(), **errs}

        for k in range(6):
            nm = ["I1", "I2", "I3", "I4", "I6", "I8"][k]
            tolk = 0 if k < 3 else Fraction(1, 10 ** 12)  # fibre directions are normalised floats
            close_all(res, f"{key}: d{nm}dC = d{nm}/dC (Kelvin-Mandel coordinates)", [(G[k][a], I[k].diff(ch[a])) for a in range(nd)], pcs, replay, f"invariant table d{nm}dC dim={dim}", tol=tolk or TOL,
                      sample=None if k else {"obligation": f"{key}: for all symmetric C: dI_k dC[a] - d I_k / d c_a = 0, d2I_k dC[a,b] - d2 I_k / d c_a d c_b = 0 (polynomial identities modulo r^2 = 2)"})
            close_all(res, f"{key}: d2{nm}dC = d2{nm}/dC2", [(Hh[k][a, b], I[k].diff(ch[a]).diff(ch[b])) for a in range(nd) for b in range(nd)], pcs, replay, f"invariant table d2{nm}dC dim={dim}", tol=tolk or TOL)
        tw = prove_abs_le(as_sym(G[1][0]) - I[1].diff(ch[0]) * 2, TOL, pcs, "twin")
        res.twin(f"{key} twin", tw.status == "cex")
    finally:
        for fn_name, d in saved.items():
            getattr(MU, fn_name).__defaults__ = d
    res.stubs |= facade.USED_STUBS
    return res


def job_quadrature(cfg):
    """fixed-rule path-quadrature stress (TimeQuadratureStressTensor): the Clenshaw-Curtis rule integrates every polynomial of degree < nPoints exactly
    (symbolic coefficients); the operator is a discrete gradient, R_e . (u_{n+1} - u_n) = W(u_{n+1}) - W(u_n), whenever the rule is exact for the
    law's stress along the strain path, and coefK K_e = dR_e/du_{n+1}; midpoint base state u_t = (u_n + u_{n+1}) / 2, coefK = 1/2."""
    from EasyFEA.Models.HyperElastic._state import HyperElasticState
    from EasyFEA.FEM import MatrixType
    from EasyFEA.FEM.Operators import NonLinear

    res = JobResult(cfg)
    c = new_context()
    facade.install()
    name, dim, nP = cfg["law"], cfg["dim"], cfg["nPoints"]
    # base displacement of the time scheme u_t = (1 - kappa) u_n + kappa u_n+1, kappa = coefK = du_t/du_n+1: 1/2 midpoint, 1 newmark, 1 - alpha hht
    kappa = Fraction(cfg.get("coefK", "1/2"))
    key = f"path quadrature nPoints={nP} ({name}, dim={dim})" + ("" if kappa == Fraction(1, 2) else f" coefK={kappa}")
    res.functions |= {"NonLinear.TimeQuadratureStressTensor", "NonLinear.__clenshaw_curtis", "NonLinear._StrainPathState", "NonLinear.__geometric_tangent", "NonLinear.__block_grad_B"}
    nodes, weights = getattr(NonLinear, "__clenshaw_curtis")(int(nP))
    # (a) the rule: exact for a general polynomial of degree nPoints - 1 (nPoints = 1: midpoint, degree 1) with symbolic coefficients
    deg = max(1, nP - 1)
    co = [c.var(f"p{k}", -1, 1) for k in range(deg + 1)]
    quad = sum(Fraction(float(w)) * sum(co[k] * Fraction(float(x)) ** k for k in range(deg + 1)) for x, w in zip(nodes, weights))
    exact = sum(co[k] * Fraction(1, k + 1) for k in range(deg + 1))

    def replay_rule(env):
        ks = np.arange(deg + 1)
        err = max(abs(sum(w * x ** k for x, w in zip(nodes, weights)) - 1.0 / (k + 1)) for k in ks)
        return err > 1e-12, {"nPoints": nP, "weights_sum": float(sum(weights)), "max_moment_error_up_to_degree": int(deg), "error": float(err)}

    close_all(res, f"{key}: the rule integrates every polynomial of degree <= {deg} on [0, 1] exactly (symbolic coefficients)", [(quad, exact)], [], replay_rule, f"Clenshaw-Curtis rule nPoints={nP} exactness",
              tol=Fraction(1, 10 ** 12), sample={"obligation": f"for all coefficients p_k in [-1,1]: |sum_i w_i p(s_i) - int_0^1 p| <= 1e-12, degree {deg} (QF_LRA)"})
    mesh = one_element(dim)
    g = mesh.groupElem
    un, sn = sym_displacement(c, mesh, dim, list(range(mesh.Nn)), name="a")
    u1, s1 = sym_displacement(c, mesh, dim, list(range(mesh.Nn)), name="b")
    res.symbols = len(sn) + len(s1) + deg + 1
    law = make_law(name, dim) if name != "Polynomial" else polynomial_law(c, dim, rich=False)
    if name == "Polynomial":
        res.symbols += law.nsym
    mark = c.mark()
    with facade.symbolic():
        ut = un * (1 - kappa) + u1 * kappa
        st_n, st_t, st_1 = (HyperElasticState(g, x, MatrixType.rigi) for x in (un, ut, u1))
        K_e, R_e, _ = NonLinear.TimeQuadratureStressTensor(law, st_n, st_t, st_1, float(kappa), nP)
        wJ = np.asarray(g.Get_weightedJacobian_e_pg(MatrixType.rigi), dtype=object)[0]
        th = law.thickness if dim == 2 else 1
        W0 = (wJ * np.asarray(law.Compute_W(HyperElasticState(g, un, MatrixType.rigi)), dtype=object)[0]).sum() * th
        W1 = (wJ * np.asarray(law.Compute_W(HyperElasticState(g, u1, MatrixType.rigi)), dtype=object)[0]).sum() * th
    pcs = c.pc_since(mark)
    res.paths, res.path_conditions = 1, len(pcs)
    K_e, R_e = np.asarray(K_e, dtype=object)[0], np.asarray(R_e, dtype=object)[0]

    def replay(env):
        full = fenv(c, env)
        a = np.array([float(as_sym(x).eval(full)) for x in un])
        b = np.array([float(as_sym(x).eval(full)) for x in u1])
        lawf = make_law(name, dim) if name != "Polynomial" else law.concrete(full)
        kf = float(kappa)
        sa, sb, stt = HyperElasticState(g, a, MatrixType.rigi), HyperElasticState(g, b, MatrixType.rigi), HyperElasticState(g, (1 - kf) * a + kf * b, MatrixType.rigi)
        Kf, Rf, _ = NonLinear.TimeQuadratureStressTensor(lawf, sa, stt, sb, kf, nP)
        wJf = np.asarray(g.Get_weightedJacobian_e_pg(MatrixType.rigi))[0]
        thf = lawf.thickness if dim == 2 else 1
        dW = float(((wJf * np.asarray(lawf.Compute_W(sb))[0]).sum() - (wJf * np.asarray(lawf.Compute_W(sa))[0]).sum()) * thf)
        work = float(np.asarray(Rf)[0] @ (b - a))
        # tangent by central differences of the residual w.r.t. u_n+1
        h = 1e-6
        Kn = np.zeros((len(b), len(b)))
        for j in range(len(b)):
            bp, bm = b.copy(), b.copy()
            bp[j] += h
            bm[j] -= h
            Rp = np.asarray(NonLinear.TimeQuadratureStressTensor(lawf, sa, HyperElasticState(g, (1 - kf) * a + kf * bp, MatrixType.rigi), HyperElasticState(g, bp, MatrixType.rigi), kf, nP)[1])[0]
            Rm = np.asarray(NonLinear.TimeQuadratureStressTensor(lawf, sa, HyperElasticState(g, (1 - kf) * a + kf * bm, MatrixType.rigi), HyperElasticState(g, bm, MatrixType.rigi), kf, nP)[1])[0]
            Kn[:, j] = (Rp - Rm) / (2 * h)
        terr = float(np.abs(kf * np.asarray(Kf)[0] - Kn).max() / max(1.0, np.abs(Kn).max()))
        bad_dg = kappa == Fraction(1, 2) and abs(work - dW) > 1e-9 * max(1e-3, abs(dW))
        return bad_dg or terr > 1e-5, {"coefK": kf, "relative_error_coefK_K_vs_finite_differences_of_R": terr, "nPoints": nP, "R.du": work, "W(u_n+1) - W(u_n)": dW, "u_n": a.tolist(), "u_n+1": b.tolist()}

    work = sum(as_sym(R_e[i]) * (as_sym(u1[i]) - as_sym(un[i])) for i in range(len(sn)))
    # the stress along the strain path is a polynomial in s of degree (degree of W in e) - 1: 1 for SaintVenantKirchhoff, 2 for the cubic law
    need = 1 if name == "SaintVenantKirchhoff" else 2
    if kappa == Fraction(1, 2) and (deg >= need or (nP == 1 and need == 1)):
        close_all(res, f"{key}: discrete gradient, R_e . (u_n+1 - u_n) = W(u_n+1) - W(u_n) for all end states", [(work, as_sym(W1) - as_sym(W0))], pcs, replay, f"path quadrature discrete gradient ({name})",
                  sample={"obligation": f"{key}: for all u_n, u_n+1 in the box: |R_e.(u_n+1 - u_n) - (W(u_n+1) - W(u_n))| <= tol (polynomial identity)"})
    ndof = len(s1)
    pairs = [(as_sym(R_e[i]).diff(s1[j]), as_sym(K_e[i, j]) * kappa) for i in range(ndof) for j in range(ndof)]
    close_all(res, f"{key}: coefK K_e = dR_e/du_n+1 entrywise", pairs, pcs, replay, f"path quadrature tangent ({name})")
    tw = prove_abs_le(work - (as_sym(W1) - as_sym(W0)) * 2, TOL, pcs, "twin")
    res.twin(f"{key} twin", tw.status == "cex")
    res.stubs |= facade.USED_STUBS
    return res


def job_follower(cfg):
    """Follower pressure on the boundary facets of a 3-D mesh.  Slot convention of the operator (its code and the `slot K` / `slot F` wording of
    its docstring): the second returned array is the follower FORCE F(u) that goes to the right-hand side, the first one the tangent of the
    residual R = R_internal - F, i.e. K_e = - dF_e/du.  Decided entrywise for all nodal displacements and pressures (F_e is quadratic in u:
    exact polynomial identities)."""
    from EasyFEA.FEM import MatrixType
    from EasyFEA.FEM.Operators import NonLinear

    res = JobResult(cfg)
    c = new_context()
    facade.install()
    facet = cfg["facet"]
    key = f"follower pressure on {facet} facets"
    res.functions |= {"NonLinear.FollowingPressure", "NonLinear.__skew"}
    if facet == "QUAD4":
        X = np.array([[0, 0, 0], [1, 0, 0], [1.1, 1, 0], [0, 0.9, 0], [0, 0, 1], [1, 0.1, 1.2], [1.2, 1.1, 0.9], [-0.1, 1, 1]], dtype=float)
        mesh = simlib.mesh_from_arrays([("HEXA8", [[0, 1, 2, 3, 4, 5, 6, 7]]), ("QUAD4", [[4, 5, 6, 7], [0, 1, 5, 4]])], X)
        from EasyFEA.FEM._utils import ElemType
        g = mesh.dict_groupElem[ElemType.QUAD4]
    elif facet == "TRI6":
        X = np.array([[0, 0, 0], [1, 0, 0], [0, 1, 0], [0, 0, 1], [0.5, 0.05, 0], [0.55, 0.5, 0.05], [0, 0.5, 0.05], [0, 0.05, 0.5], [0.5, 0, 0.55], [0.05, 0.5, 0.5]], dtype=float)
        mesh = simlib.mesh_from_arrays([("TETRA10", [[0, 1, 2, 3, 4, 5, 6, 7, 8, 9]]), ("TRI6", [[0, 1, 2, 4, 5, 6]])], X)
        from EasyFEA.FEM._utils import ElemType
        g = mesh.dict_groupElem[ElemType.TRI6]
    else:
        X = np.array([[0, 0, 0], [1, 0, 0], [0.25, 1, 0], [0.25, 0.5, 1]], dtype=float)
        mesh = simlib.mesh_from_arrays([("TETRA4", [[0, 1, 2, 3]]), ("TRI3", [[0, 1, 2], [1, 2, 3]])], X)
        from EasyFEA.FEM._utils import ElemType
        g = mesh.dict_groupElem[ElemType.TRI3]
    u, syms = sym_displacement(c, mesh, 3, list(range(mesh.Nn)), name="u")
    pr = c.var("pressure", -2, 2, shadow=Fraction(3, 4))
    res.symbols = len(syms) + 1
    mark = c.mark()
    with facade.symbolic():
        K_e, R_e = NonLinear.FollowingPressure(g, u, pr, matrixType=MatrixType.mass)
    pcs = c.pc_since(mark)
    res.paths, res.path_conditions = 1, len(pcs)
    K_e, R_e = np.asarray(K_e, dtype=object), np.asarray(R_e, dtype=object)
    conn = np.asarray(g.connect)

    def replay(env):
        full = fenv(c, env)
        uf = np.array([float(as_sym(x).eval(full)) for x in u])
        pf = float(as_sym(pr).eval(full))
        Kf, Rf = NonLinear.FollowingPressure(g, uf, pf, matrixType=MatrixType.mass)
        worst = 0.0
        h = 1e-6
        for e in range(g.Ne):
            for j, (nj, cj) in enumerate((n_, c_) for n_ in conn[e] for c_ in range(3)):
                up, um = uf.copy(), uf.copy()
                up[nj * 3 + cj] += h
                um[nj * 3 + cj] -= h
                d = (np.asarray(NonLinear.FollowingPressure(g, up, pf, matrixType=MatrixType.mass)[1])[e] - np.asarray(NonLinear.FollowingPressure(g, um, pf, matrixType=MatrixType.mass)[1])[e]) / (2 * h)
                worst = max(worst, float(np.abs(np.asarray(Kf)[e][:, j] + d).max()))
        return worst > 1e-6, {"pressure": pf, "max_abs_difference_K_e_vs_minus_finite_differences_of_the_follower_force": worst}

    pairs = []
    for e in range(g.Ne):
        cols = [(int(n_), c_) for n_ in conn[e] for c_ in range(3)]
        for i in range(len(cols)):
            Ri = as_sym(R_e[e, i])
            for j, (nj, cj) in enumerate(cols):
                pairs.append((-Ri.diff(u[nj * 3 + cj]), as_sym(K_e[e, i, j])))
    close_all(res, f"{key}: K_e = - dF_e/du entrywise", pairs, pcs, replay, f"follower pressure tangent ({facet})",
              sample={"obligation": f"{key}: for all nodal displacements in [-1/8, 1/8] and pressures in [-2, 2]: K_e[i, j] == - d F_e[i] / d u_j (polynomial identity, symbolic differentiation of the returned follower force)", "entries": len(pairs)})
    tw = prove_abs_le(pairs[0][0] - pairs[0][1] * 2 - 1, TOL, pcs, "twin")
    res.twin(f"{key} twin", tw.status == "cex")
    res.stubs |= facade.USED_STUBS
    return res


def job(cfg):
    return {"law": job_law, "operator": job_operator, "law_invariants": job_law_invariants, "tables": job_tables, "quadrature": job_quadrature, "follower": job_follower, "law_reassigned": job_law_reassigned}[cfg["kind"]](cfg)


def main():
    t0 = time.time()
    tier = harness.tier()
    configs = []
    for dim in (2, 3):
        configs.append({"kind": "tables", "dim": dim})
        for law in LAWS_INVARIANT_FORM:
            configs.append({"kind": "law_invariants", "law": law, "dim": dim})
    # end-to-end through the displacement (stress = dW/de along every admissible direction, objectivity, stress-free reference)
    for law in ("NeoHookean", "MooneyRivlin", "SaintVenantKirchhoff"):
        configs.append({"kind": "law", "law": law, "dim": 2})
    configs.append({"kind": "law", "law": "SaintVenantKirchhoff", "dim": 3})
    if tier == "thorough":
        configs.append({"kind": "law", "law": "NeoHookean", "dim": 3})
    for op, laws in (("SecondPiolaKirchhoffStressTensor", ["SaintVenantKirchhoff", "Polynomial", "NeoHookean"]), ("ActiveStressTensor", ["SaintVenantKirchhoff"]), ("KelvinVoigtDamping", ["SaintVenantKirchhoff"])):
        for law in laws:
            cfgo = {"kind": "operator", "op": op, "law": law, "dim": 2}
            if law == "NeoHookean":
                continue  # rational residual with float Kelvin-Mandel noise: not decided within the time budget; the operator is law-agnostic (Polynomial family) and the law-level identities are separate jobs
            if law == "Polynomial" and tier == "thorough":
                cfgo["rich"] = True
            configs.append(cfgo)
            if law == "SaintVenantKirchhoff" and (tier == "thorough" or op == "ActiveStressTensor"):
                configs.append({"kind": "operator", "op": op, "law": law, "dim": 3})  # active stress in 3-D in both tiers: fibre with three distinct components
    for nP in ((1, 2, 3, 4, 5, 6) if tier == "quick" else (1, 2, 3, 4, 5, 6, 7, 8, 9)):
        configs.append({"kind": "quadrature", "law": "SaintVenantKirchhoff", "dim": 2, "nPoints": nP})
    if tier == "thorough":
        # cubic energy: the stress is quadratic along the strain path, Simpson's rule (3 points) is the first exact one
        configs.append({"kind": "quadrature", "law": "Polynomial", "dim": 2, "nPoints": 3})
    for facet in (["QUAD4", "TRI3"] if tier == "quick" else ["QUAD4", "TRI3", "TRI6"]):
        configs.append({"kind": "follower", "facet": facet})
    configs.append({"kind": "law_reassigned", "dim": 2})  # 3-D: the tangent's normal forms with three exp nodes do not finish in 10 min - outside
    # other time schemes: coefK = 1 (newmark), 3/4 (hht with alpha = 1/4)
    configs.append({"kind": "quadrature", "law": "SaintVenantKirchhoff", "dim": 2, "nPoints": 3, "coefK": "1"})
    configs.append({"kind": "quadrature", "law": "SaintVenantKirchhoff", "dim": 2, "nPoints": 2, "coefK": "3/4"})
    results = harness.run_jobs(job, configs)
    harness.finish(
        PID, results, t0=t0,
        explanation="Bounded symbolic execution + exact differentiation. The real kinematics, invariant tables, law energies / stresses / tangents and nonlinear element operators run on one element with symbolic nodal displacements "
                    "(fractional powers of I3 as auxiliary roots, log opaque with its derivative rule, Kelvin-Mandel sqrt(2) exact); symbolic derivatives of the executed expressions (chain rule through the auxiliaries) are compared "
                    "with the code's own stress / tangent / operator tangent as rational identities closed by normal form modulo the root definitions or decided by z3 with tolerance.",
        bound={"elements": "one TRI3 (2-D), one TETRA4 (3-D)", "displacement_box": "+-1/8 per component (J > 0)", "laws": LAWS, "operators": ["SecondPiolaKirchhoffStressTensor", "ActiveStressTensor", "KelvinVoigtDamping", "TimeQuadratureStressTensor (fixed rule, nPoints 1-6 quick / 1-9 thorough)"],
               "rotations": "2-D symbolic angle; 3-D 3-4-5 about z and 5-12-13 about (2,3,6)/7"},
        symbolic=["nodal displacement components (4 in 2-D with node 0 fixed / 6 for operators; 9 / 12 in 3-D)", "nodal velocities (Kelvin-Voigt)", "material constants (reference configuration)", "rotation (c, s) in 2-D"],
        assumptions=["Holzapfel-Ogden end to end through the displacement (it is checked in invariant form only: exponentials as opaque functions with their derivative rule), user energies through jax AutoDiff (FFI), the Gonzalez discrete-gradient operator and the adaptive path quadrature, penalty contact (KD-tree) and multi-step energy conservation (Newton iterations "
                     "to a float tolerance) are outside", "one element, first-order shape functions: the deformation gradient is general but uniform"],
        source_files=["EasyFEA/Models/HyperElastic/_laws.py", "EasyFEA/Models/HyperElastic/_state.py", "EasyFEA/FEM/Operators/NonLinear.py", "EasyFEA/Models/_utils.py"],
        rule="one job per (law, dimension) and per (operator, law, dimension); non-trivial = symbolic displacement with exact symbolic differentiation",
        exhaustive=False,
    )


if __name__ == "__main__":
    main()
