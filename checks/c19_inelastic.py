"""C19 - history-dependent material integration: the fragments the symbolic engine reaches.

What is decided here (DESIGN.md section 5, C19 - amended): the real `Behavior.Integrate` (with `Compute_strain_6d`, the plane-stress
iteration, `__Integrate_3d`, `__Flow` / `__Residual` / `__Jacobian` / `__Freeze` / `__Bound`, `__Spectral` + `_spectral.Solve` /
`Tangent`, `__Condense`) runs on symbolic strains, symbolic committed states and symbolic time step / branch parameters

* for a material WITHOUT internal variables (exactly linear elastic, equal to `Models.Elastic`'s 2-D law, no out-of-plane stress);
* on every step that stays inside the yield surface ('inactive' steps: unloading, reloading below the current surface, with arbitrary
  committed plastic strain / accumulated plastic strain / back strain): stress = C : (eps - eps_p), state unchanged, tangent elastic,
  both local solvers agree;
* for generalised Maxwell materials (the local problem is linear: the real Newton iteration terminates after ONE step with an exactly
  zero residual, so the loop is executed, not abstracted): backward-Euler update relation, stress formula, tangent = d sigma / d eps
  (symbolic differentiation of the returned stress, including through the plane-stress solve), non-negative dissipation, dt = 0;
* for plastic steps through the scalar spectral return with the Newton loop ABSTRACTED by its exit condition (jobs 'spectral'):
  see job_spectral;
* purity of `Integrate` on all of these (committed state and strain arrays unchanged, second call gives the same answer) and the
  commit discipline of `Simulations.InElastic` (jobs 'simu').

Outside (stated): the converged output of the general local Newton with plastic flow (`__Flow` with an active point: data-dependent
number of iterations, nested rational iterates), rate laws, the active-set logic beyond its first decision, `MaterialPoint`'s
stress-controlled outer loop.
"""

import time
from fractions import Fraction

import numpy as np

from engine import harness, smt, facade
from engine.harness import JobResult
from engine.oblig import prove_abs_le, prove_cond, Outcome
from engine.poly import Poly
from engine.sym import Sym, as_sym, ctx, new_context, _vid, Cond, sym_array, has_sym

PID = "C19"
IDX2 = [0, 1, 5]
ZZ = 2
TOL = Fraction(1, 10 ** 9)
JOB_BUDGET_S = 600
THETA_MAX = Fraction(1, 500)  # theta = dGamma / phi of the abstracted spectral return: theta * lambda_max <= 1/2 (small plastic increments)


# ------------------------------------------------------------------------------------------------ helpers
def fval(c, env, s):
    return float(as_sym(s).eval({k: float(v) for k, v in {**c.shadow, **(env or {})}.items()}))


def farr(c, env, a):
    a = np.asarray(a, dtype=object)
    out = np.empty(a.shape)
    for idx in np.ndindex(*a.shape):
        out[idx] = fval(c, env, a[idx])
    return out


def elastic_law(name):
    from EasyFEA import Models

    if name == "iso":
        return Models.Elastic.Isotropic(3, E=200.0, v=0.25)
    if name == "iso2":
        return Models.Elastic.Isotropic(3, E=70.0, v=0.3)
    if name == "ti":
        return Models.Elastic.TransverselyIsotropic(3, 300.0, 120.0, 70.0, 0.2, 0.35, axis_l=(3 / 5, 4 / 5, 0), axis_t=(-4 / 5, 3 / 5, 0))
    raise ValueError(name)


def elastic_law_2d(name, planeStress):
    from EasyFEA import Models

    if name == "iso":
        return Models.Elastic.Isotropic(2, E=200.0, v=0.25, planeStress=planeStress)
    if name == "iso2":
        return Models.Elastic.Isotropic(2, E=70.0, v=0.3, planeStress=planeStress)
    if name == "ti":
        return Models.Elastic.TransverselyIsotropic(2, 300.0, 120.0, 70.0, 0.2, 0.35, axis_l=(3 / 5, 4 / 5, 0), axis_t=(-4 / 5, 3 / 5, 0), planeStress=planeStress)
    raise ValueError(name)


def mode_args(mode):
    """(dim, planeStress)"""
    return {"3D": (3, False), "pstrain": (2, False), "pstress": (2, True)}[mode]


def exactC(C):
    """the float matrix as an object matrix of exact rationals"""
    C = np.asarray(C, dtype=float)
    out = np.empty(C.shape, dtype=object)
    for idx in np.ndindex(*C.shape):
        out[idx] = Fraction(float(C[idx]))
    return out


def matvec(M, v):
    return np.array([sum((M[i, j] * v[j] for j in range(len(v))), 0) for i in range(M.shape[0])], dtype=object)


def record_entries(res, label, got, want, pcs, replay, tol=0, key=None, scale=1, sample=None):
    """got == want entrywise (|.| <= tol*scale)"""
    got = np.asarray(got, dtype=object)
    want = np.asarray(want, dtype=object)
    if got.shape != want.shape:
        res.record(label, Outcome("cex", env={}, how="structure", detail=f"shape {got.shape} vs {want.shape}"), replay, key=key or label)
        return
    worst = None
    how = {}
    # cheap first: both sides evaluated at the shadow point (which satisfies the path condition by construction); a difference there is
    # already the candidate counterexample, without forming the normal form of the difference (huge when the two sides disagree)
    c = ctx()
    envf = dict(c.shadow)
    for idx in np.ndindex(*got.shape):
        try:
            dv = as_sym(got[idx]).eval(envf) - as_sym(want[idx]).eval(envf)
        except ZeroDivisionError:
            continue
        aux = any(c.kind.get(v) == "aux" for v in (as_sym(got[idx]).vars() | as_sym(want[idx]).vars()))
        if abs(dv) > Fraction(tol) * scale + (Fraction(1, 10 ** 7) * (1 + abs(dv)) if aux else 0):
            res.record(label, Outcome("cex", env=envf, how="shadow", detail=f"entry {idx}: |difference| = {float(abs(dv)):.6g} at the shadow point"), replay, key=key or label)
            return
    for idx in np.ndindex(*got.shape):
        o = prove_abs_le(as_sym(got[idx]) - as_sym(want[idx]), Fraction(tol) * scale, pcs, label, timeout_ms=30000)
        how[o.how] = how.get(o.how, 0) + 1
        if o.status != "held":
            worst = o
            break
    best = max(how, key=how.get) if how else "normal-form"
    res.record(label, worst or Outcome("held", how=best), replay, key=key or label, sample=sample)


def spd_exact(M):
    """exact LDL^T of a rational symmetric matrix: True iff positive definite"""
    n = M.shape[0]
    A = [[Fraction(M[i, j]) for j in range(n)] for i in range(n)]
    for k in range(n):
        if A[k][k] <= 0:
            return False
        for i in range(k + 1, n):
            f = A[i][k] / A[k][k]
            for j in range(k, n):
                A[i][j] -= f * A[k][j]
    return True


def num_tangent(fun, eps, h=1e-6):
    """central finite differences of fun(eps) -> vector"""
    n = len(eps)
    cols = []
    for j in range(n):
        e1, e2 = eps.copy(), eps.copy()
        e1[j] += h
        e2[j] -= h
        cols.append((fun(e1) - fun(e2)) / (2 * h))
    return np.array(cols).T


def fe(a):
    from EasyFEA.FEM import FeArray

    return FeArray.asfearray(np.asarray(a)[None, None])


# ------------------------------------------------------------------------------------------------ no internal variables
def job_elastic(cfg):
    """A behavior without internal variables is exactly linear elastic (and equals Models.Elastic's 2-D law)."""
    from EasyFEA.Models.InElastic import Behavior

    res = JobResult(cfg)
    c = new_context()
    facade.install()
    law, mode = cfg["law"], cfg["mode"]
    dim, ps = mode_args(mode)
    n = 6 if dim == 3 else 3
    el = elastic_law(law)
    C6 = exactC(el.C)
    scale = Fraction(float(np.abs(el.C).max()))
    unit = Fraction(1, 2 ** 40) if cfg.get("tiny") else Fraction(1)  # 'tiny': strains below 2^-40 ~ 9e-13 - a linear law is linear at every magnitude
    eps = sym_array("eps", (n,), -unit, unit)
    res.symbols = n
    label = f"no internal variables {law} {mode}" + (" (strains below 2^-40)" if cfg.get("tiny") else "")
    uscale = scale * unit
    res.functions |= {"Behavior.__init__", "Behavior.Integrate", "Behavior.Compute_strain_6d", "Behavior.__Plane_stress_strain", "Behavior.__Integrate_3d", "Behavior.Compute_sigma",
                      "Behavior.Compute_elastic_strain", "Behavior.__Condense", "Behavior.Compute_stress"}
    def replay(env):
        ef = farr(c, env, eps)
        bb = Behavior(dim, el, planeStress=ps)
        s, Ca, zz, cv = bb.Integrate(fe(ef))
        s, Ca = np.asarray(s)[0, 0], np.asarray(Ca)[0, 0]
        Cr = np.asarray(el.C if dim == 3 else elastic_law_2d(law, ps).C, dtype=float)
        errs = {"stress": float(np.abs(s - Cr @ ef).max() / float(uscale)), "tangent": float(np.abs(Ca - Cr).max() / float(scale)), "state_size": int(np.asarray(zz).shape[-1]),
                "compute_stress": float(np.abs(np.asarray(bb.Compute_stress(fe(ef)))[0, 0] - Cr @ ef).max() / float(uscale))}
        if ps:
            e6 = np.asarray(bb.Compute_strain_6d(fe(ef)))[0, 0]
            errs["sig_zz"] = float(abs((np.asarray(el.C) @ e6)[ZZ]) / float(uscale))
        bad = max(errs["stress"], errs["tangent"], errs["compute_stress"], errs.get("sig_zz", 0)) > 5e-10 or errs["state_size"] != 0
        return bad, {"eps": ef.tolist(), **errs}

    if preflight(res, c, replay, label):
        return res
    mark = c.mark()
    with facade.symbolic():
        b = Behavior(dim, el, planeStress=ps)
        e_in = fe(eps.copy())
        sig, Calg, z, conv = b.Integrate(e_in)
        sig2 = b.Compute_stress(fe(eps.copy()))
    pcs = c.pc_since(mark)
    res.paths, res.path_conditions = 1, len(pcs)
    sig, Calg, sig2 = np.asarray(sig)[0, 0], np.asarray(Calg)[0, 0], np.asarray(sig2)[0, 0]
    # oracle: the closed-form 2-D / 3-D law of the same material written in Models.Elastic (checked on its own under C11)
    Cref = exactC(el.C if dim == 3 else elastic_law_2d(law, ps).C)


    record_entries(res, f"{label}: stress = C : eps (the closed-form law of Models.Elastic)", sig, matvec(Cref, eps), pcs, replay, TOL, scale=uscale,
                   sample={"obligation": "for all strains in [-1,1]^n: |Integrate(eps).sigma - C_ref eps| <= 1e-9 |C|", "config": cfg})
    record_entries(res, f"{label}: tangent = C", Calg, Cref, pcs, replay, TOL, scale=scale)
    record_entries(res, f"{label}: Compute_stress = Integrate", sig2, sig, pcs, replay, TOL, scale=uscale)
    ok = np.asarray(z).shape[-1] == 0 and bool(np.asarray(conv).all())
    res.record(f"{label}: empty state, converged", Outcome("held", how="ground-exact") if ok else Outcome("cex", env=dict(c.shadow), how="structure"), replay)
    if ps:
        with facade.symbolic():
            e6 = np.asarray(b.Compute_strain_6d(fe(eps.copy())))[0, 0]
        record_entries(res, f"{label}: no out-of-plane stress", [matvec(C6, e6)[ZZ]], [0], c.pc_since(mark), replay, TOL, scale=uscale)
        record_entries(res, f"{label}: in-plane and out-of-plane shear strains kept", e6[[0, 1, 5, 3, 4]], list(eps) + [0, 0], c.pc_since(mark), replay, 0)
    o = prove_abs_le(as_sym(sig[0]) - 2 * as_sym(matvec(Cref, eps)[0]), TOL * uscale, pcs, "twin")
    res.twin(f"{label} twin", o.status == "cex")
    res.stubs |= facade.USED_STUBS
    return res


# ------------------------------------------------------------------------------------------------ inactive steps
def make_surface(name):
    from EasyFEA.Models.InElastic import Yield

    if name == "vm":
        return Yield.VonMises(10.0)
    if name == "hill":
        return Yield.Hill(10.0, F=0.4, G=0.55, H=0.6, L=1.4, M=1.7, N=1.2)
    if name == "dp":
        return Yield.DruckerPrager(10.0, 0.125)
    raise ValueError(name)


def make_behavior(cfg, el, dim, ps, solver, g=None, tau=None):
    from EasyFEA.Models.InElastic import Behavior, IsotropicHardening, KinematicHardening, ViscoElastic

    kw = {}
    if cfg.get("surface"):
        kw["yieldSurface"] = make_surface(cfg["surface"])
        if cfg.get("hardening") == "linear":
            kw["hardening"] = IsotropicHardening.Linear(5.0)
        if cfg.get("kinematic") == "prager":
            kw["kinematic"] = KinematicHardening.Prager(12.0)
        elif cfg.get("kinematic") == "af":
            kw["kinematic"] = KinematicHardening.ArmstrongFrederick(12.0, 3.0)
        elif cfg.get("kinematic") == "chaboche":
            kw["kinematic"] = KinematicHardening.Chaboche((12.0, 3.0), (4.0, 0.0))
    if g is not None:
        kw["branches"] = [ViscoElastic.Maxwell(gi, ti) for gi, ti in zip(g, tau)]
    if cfg.get("rate") == "norton":
        from EasyFEA.Models.InElastic import ViscoPlastic

        kw["rate"] = ViscoPlastic.Norton(0.001, 1.0, 2.0)
    elif cfg.get("rate") == "perzyna":
        from EasyFEA.Models.InElastic import ViscoPlastic

        kw["rate"] = ViscoPlastic.Perzyna(50.0, 2.0, 1.0)
    return Behavior(dim, el, planeStress=ps, solver=solver, **kw)


def job_inactive(cfg):
    """A step that stays inside the current yield surface: elastic response about the committed state, state unchanged."""
    res = JobResult(cfg)
    c = new_context()
    facade.install()
    law, mode, solver = cfg["law"], cfg["mode"], cfg["solver"]
    dim, ps = mode_args(mode)
    n = 6 if dim == 3 else 3
    el = elastic_law(law)
    C6 = exactC(el.C)
    scale = Fraction(float(np.abs(el.C).max()))
    nk = {"prager": 1, "af": 1, "chaboche": 2}.get(cfg.get("kinematic"), 0)
    # strains and committed state small against sigma_y / |C| so that the trial state is inside the surface on the whole box
    r = Fraction(1, 400)
    eps = sym_array("eps", (n,), -r, r, shadows=[Fraction(k + 1, 1000 + 37 * k) * (-1) ** k for k in range(n)])
    epsP = sym_array("epsP", (6,), -r, r, shadows=[Fraction(k + 2, 1700 + 91 * k) * (-1) ** (k + 1) for k in range(6)])
    p = c.var("p", 0, 1, shadow=Fraction(3, 10))
    alphas = [sym_array(f"alpha{i}", (6,), -r, r, shadows=[Fraction(k + 1, 2300 + 53 * k + 400 * i) * (-1) ** k for k in range(6)]) for i in range(nk)]
    res.symbols = n + 7 + 6 * nk
    zold = np.concatenate([epsP, [p]] + alphas)
    label = f"inactive {cfg['surface']} {cfg.get('hardening')} kin={cfg.get('kinematic')} {law} {mode} solver={solver}" + (f" rate={cfg['rate']}" if cfg.get("rate") else "")
    DT = 0.5 if cfg.get("rate") else 0.0  # a rate law needs a positive time increment
    res.functions |= {"Behavior.Integrate", "Behavior.__Integrate_3d", "Behavior.__Flow", "Behavior.__Residual", "Behavior.__Jacobian", "Behavior.__Freeze", "Behavior.__Pin", "Behavior.__Norm",
                      "Behavior.__Converged", "Behavior.__Bound", "Behavior.__Spectral", "_spectral.Solve", "_spectral._Phi", "_spectral.Tangent", "Behavior.__Condense", "Behavior.Compute_back_stress",
                      "Yield.VonMises / Hill / DruckerPrager (f, N, dNdSig)", "IsotropicHardening.Linear", "KinematicHardening.ArmstrongFrederick"}
    if dim == 3:
        Cwant = C6
    elif not ps:
        Cwant = C6[np.ix_(IDX2, IDX2)]
    else:
        # plane stress: the in-plane stiffness is the inverse of the in-plane compliance (independent of the code's condensation formula)
        S = np.linalg.inv(np.asarray(el.C, dtype=float))
        Cwant = exactC(np.linalg.inv(S[np.ix_(IDX2, IDX2)]))

    def run_float(env, solver_=solver):
        ef, zf = farr(c, env, eps), farr(c, env, zold)
        bb = make_behavior(cfg, el, dim, ps, solver_)
        zin = fe(zf.copy())
        s, Ca, zz, cv = bb.Integrate(fe(ef), zin, DT)
        e6f = np.asarray(bb.Compute_strain_6d(fe(ef), fe(zf.copy()), DT))[0, 0]
        return ef, zf, np.asarray(s)[0, 0], np.asarray(Ca)[0, 0], np.asarray(zz)[0, 0], np.asarray(zin)[0, 0], e6f

    def replay(env):
        ef, zf, s, Ca, zz, zin, e6f = run_float(env)
        Cf = np.asarray(el.C, dtype=float)
        s6 = Cf @ (e6f - zf[:6])
        want = s6 if dim == 3 else s6[IDX2]
        errs = {"stress": float(np.abs(s - want).max() / float(scale)), "state_changed": float(np.abs(zz - zf).max()), "tangent": float(np.abs(Ca - np.array(Cwant, dtype=float)).max() / float(scale)),
                "committed_state_written": float(np.abs(zin - zf).max())}
        if ps:
            errs["sig_zz"] = float(abs(s6[ZZ]) / float(scale))
        if solver == "auto":
            _, _, s_n, Ca_n, zz_n, _, _ = run_float(env, "newton")
            errs["solvers_differ"] = float(max(np.abs(s - s_n).max() / float(scale), np.abs(zz - zz_n).max(), np.abs(Ca - Ca_n).max() / float(scale)))
        bad = max(errs["stress"], errs["tangent"], errs.get("sig_zz", 0), errs.get("solvers_differ", 0)) > 5e-10 or errs["state_changed"] > 1e-12 or errs["committed_state_written"] > 0
        return bad, {"eps": ef.tolist(), "zOld": zf.tolist(), **errs}

    if preflight(res, c, replay, label):
        return res
    mark = c.mark()
    with facade.symbolic():
        b = make_behavior(cfg, el, dim, ps, solver)
        z_in = fe(zold.copy())
        e_in = fe(eps.copy())
        keep_z = np.array(np.asarray(z_in), dtype=object, copy=True)
        sig, Calg, z, conv = b.Integrate(e_in, z_in, DT)
        e6 = np.asarray(b.Compute_strain_6d(fe(eps.copy()), fe(zold.copy()), DT))[0, 0]
    pcs = c.pc_since(mark)
    res.paths, res.path_conditions = 1, len(pcs)
    sig, Calg, z = np.asarray(sig)[0, 0], np.asarray(Calg)[0, 0], np.asarray(z)[0, 0]
    spectral = solver == "auto" and cfg["surface"] in ("vm", "hill") and nk == 0
    tol = TOL  # float round-off of T Ti, C^-1 C (spectral) and of the plane-stress division
    sig6 = matvec(C6, e6 - epsP)
    want_sig = sig6 if dim == 3 else sig6[IDX2]

    record_entries(res, f"{label}: stress = C : (eps - eps_p)", sig, want_sig, pcs, replay, tol, scale=scale * r,
                   sample={"obligation": "for all strains / committed states in the box with the trial state inside the surface (recorded path condition): |sigma - C (eps6 - eps_p)| <= 1e-9 |C| r", "config": cfg})
    record_entries(res, f"{label}: state unchanged", z, zold, pcs, replay, tol if spectral else 0, scale=1 if spectral else 1, key=f"{label}: state unchanged")
    record_entries(res, f"{label}: tangent elastic", Calg, Cwant, pcs, replay, tol, scale=scale)
    if ps:
        record_entries(res, f"{label}: no out-of-plane stress", [sig6[ZZ]], [0], pcs, replay, tol, scale=scale * r)
    # purity: the committed state handed in is not written
    same = all(as_sym(a).structurally_equal(as_sym(b_)) for a, b_ in zip(np.asarray(z_in)[0, 0], keep_z[0, 0]))
    res.record(f"{label}: committed state not written", Outcome("held", how="normal-form") if same else Outcome("cex", env=dict(c.shadow), how="structure"), replay)
    if solver == "auto" and spectral:
        with facade.symbolic():
            bn = make_behavior(cfg, el, dim, ps, "newton")
            sn, Cn, zn, _ = bn.Integrate(fe(eps.copy()), fe(zold.copy()), DT)
        pcs2 = c.pc_since(mark)
        record_entries(res, f"{label}: spectral and Newton solvers agree (stress)", sig, np.asarray(sn)[0, 0], pcs2, replay, tol, scale=scale * r)
        record_entries(res, f"{label}: spectral and Newton solvers agree (tangent)", Calg, np.asarray(Cn)[0, 0], pcs2, replay, tol, scale=scale)
    # the trial state really was inside (reachability of the inactive branch): some recorded condition mentions the hardening variable or the strain
    o = prove_abs_le(as_sym(sig[0]) - 2 * as_sym(want_sig[0]), tol * scale * r, pcs, "twin")
    res.twin(f"{label} twin", o.status == "cex")
    res.stubs |= facade.USED_STUBS
    return res


# ------------------------------------------------------------------------------------------------ Maxwell branches
def job_maxwell(cfg):
    """Generalised Maxwell material: the real local Newton ends after one step with a zero residual (linear problem)."""
    res = JobResult(cfg)
    c = new_context()
    facade.install()
    law, mode, nb = cfg["law"], cfg["mode"], cfg["branches"]
    dim, ps = mode_args(mode)
    n = 6 if dim == 3 else 3
    el = elastic_law(law)
    C6 = exactC(el.C)
    scale = Fraction(float(np.abs(el.C).max()))
    dt0 = cfg.get("dt0", False)
    if dt0:
        dt = 0.0
    else:
        dt = c.var("dt", Fraction(1, 100), 10, shadow=Fraction(1, 2))
    if cfg.get("symbolic_branch", True):
        g = [c.var(f"g{i}", Fraction(1, 100), Fraction(2, 5), shadow=Fraction(3 + i, 10 + 3 * i)) for i in range(nb)]
        tau = [c.var(f"tau{i}", Fraction(1, 100), 10, shadow=Fraction(2 + 3 * i, 1 + i)) for i in range(nb)]
    else:
        g = [0.25, 0.375][:nb]
        tau = [2.0, 0.5][:nb]
    eps = sym_array("eps", (n,), -1, 1)
    ev = [sym_array(f"epsv{i}", (6,), -1, 1, shadows=[Fraction((-1) ** (k + i) * (k + 2), 9 + 2 * k + 5 * i) for k in range(6)]) for i in range(nb)]
    zold = np.concatenate(ev)
    res.symbols = n + 6 * nb + (0 if dt0 else 1) + (2 * nb if cfg.get("symbolic_branch", True) else 0)
    label = f"Maxwell x{nb} {law} {mode}" + (" dt=0" if dt0 else "") + ("" if cfg.get("symbolic_branch", True) else " concrete branches")
    res.functions |= {"Behavior.__init__", "Behavior.Integrate", "Behavior.Compute_strain_6d", "Behavior.__Plane_stress_strain", "Behavior.__Integrate_3d", "Behavior.__Flow", "Behavior.__Residual",
                      "Behavior.__Jacobian", "Behavior.__Freeze", "Behavior.__Norm", "Behavior.__Converged", "Behavior.__Bound", "Behavior.Compute_sigma", "Behavior.__Condense", "ViscoElastic.Maxwell"}
    def run_float(envf, ef=None):
        ef = farr(c, envf, eps) if ef is None else ef
        zf = farr(c, envf, zold)
        gf = [fval(c, envf, x) for x in g]
        tf = [fval(c, envf, x) for x in tau]
        dtf = fval(c, envf, dt)
        bb = make_behavior({}, el, dim, ps, "auto", g=gf, tau=tf)
        zin = fe(zf.copy())
        s, Ca, zz, cv = bb.Integrate(fe(ef), zin, dtf)
        return ef, zf, gf, tf, dtf, np.asarray(s)[0, 0], np.asarray(Ca)[0, 0], np.asarray(zz)[0, 0], np.asarray(zin)[0, 0]

    def replay(env):
        ef, zf, gf, tf, dtf, s, Ca, zz, zin = run_float(env)
        Cf = np.asarray(el.C, dtype=float)
        errs = {}
        # strain seen by the material, rebuilt from branch 0's update relation where the code does not return it
        d0 = zz[:6] - zf[:6]
        e6 = np.zeros(6)
        if dim == 3:
            e6 = ef.copy()
        else:
            e6[IDX2] = ef
            if ps:
                e6[ZZ] = zz[ZZ] + (tf[0] / dtf) * d0[ZZ] if dtf > 0 else 0.0
        upd = 0.0
        s6 = Cf @ e6
        diss = 0.0
        for i in range(nb):
            zi, zo = zz[6 * i:6 * i + 6], zf[6 * i:6 * i + 6]
            upd = max(upd, float(np.abs((zi - zo) * tf[i] - dtf * (e6 - zi)).max()))
            s6 = s6 - gf[i] * (Cf @ zi)
            diss += gf[i] * float((e6 - zi) @ Cf @ (zi - zo))
        want = s6 if dim == 3 else s6[IDX2]
        errs["update_relation"] = upd
        errs["stress"] = float(np.abs(s - want).max() / float(scale))
        if ps and dtf > 0:
            errs["sig_zz"] = float(abs(s6[ZZ]) / float(scale))
        Cn = num_tangent(lambda e: run_float(env, e)[5], ef)
        errs["tangent_vs_finite_differences"] = float(np.abs(Ca - Cn).max() / float(scale))
        errs["dissipation"] = diss
        errs["committed_state_written"] = float(np.abs(zin - zf).max())
        bad = (errs["update_relation"] > 1e-9 and not (ps and dtf == 0)) or errs["stress"] > 1e-9 or errs.get("sig_zz", 0) > 1e-9 or errs["tangent_vs_finite_differences"] > 1e-6 or diss < -1e-9 * float(scale) or errs["committed_state_written"] > 0
        return bad, {"eps": ef.tolist(), "zOld": zf.tolist(), "g": gf, "tau": tf, "dt": dtf, **errs}

    if preflight(res, c, replay, label):
        return res
    mark = c.mark()
    with facade.symbolic():
        b = make_behavior({}, el, dim, ps, "auto", g=g, tau=tau)
        z_in = fe(zold.copy())
        keep_z = np.array(np.asarray(z_in), dtype=object, copy=True)
        e_in = fe(eps.copy())
        sig, Calg, z, conv = b.Integrate(e_in, z_in, dt)
        sigB, CalgB, zB, _ = b.Integrate(fe(eps.copy()), fe(zold.copy()), dt)  # second call, same arguments
    pcs = c.pc_since(mark)
    res.paths, res.path_conditions = 1, len(pcs)
    sig, Calg, z = np.asarray(sig)[0, 0], np.asarray(Calg)[0, 0], np.asarray(z)[0, 0]
    zn = [z[6 * i:6 * i + 6] for i in range(nb)]


    # strain seen by the material
    e6 = np.zeros(6, dtype=object)
    if dim == 3:
        e6[:] = eps
    else:
        e6[IDX2] = eps
        if ps:
            with facade.symbolic():
                e6 = np.asarray(b.Compute_strain_6d(fe(eps.copy()), fe(zold.copy()), dt))[0, 0]
            record_entries(res, f"{label}: in-plane strain kept, out-of-plane shear zero", e6[[0, 1, 5, 3, 4]], list(eps) + [0, 0], pcs, replay, 0)
    pcs = c.pc_since(mark)
    # M1 backward-Euler update of every branch: tau (eps_v - eps_v_old) = dt (eps6 - eps_v)
    for i in range(nb):
        lhs = (zn[i] - ev[i]) * tau[i]
        rhs = (e6 - zn[i]) * dt
        record_entries(res, f"{label}: branch {i} update relation tau d(eps_v) = dt (eps - eps_v)", lhs, rhs, pcs, replay, 0,
                       sample={"obligation": "for all eps, eps_v_old, dt, g, tau: tau_i (eps_v_i_new - eps_v_i_old) = dt (eps6 - eps_v_i_new) exactly (normal form / QF_NRA)", "config": cfg} if i == 0 else None)
    # M2 stress
    s6 = matvec(C6, e6)
    for i in range(nb):
        s6 = s6 - matvec(C6, zn[i]) * g[i]
    want = s6 if dim == 3 else s6[IDX2]
    record_entries(res, f"{label}: stress = C : eps - sum g_i C : eps_v_i", sig, want, pcs, replay, 0)
    if ps:
        record_entries(res, f"{label}: no out-of-plane stress", [s6[ZZ]], [0], pcs, replay, 0)
    # M3 tangent = d sigma / d eps of the returned stress (through the state update and, in plane stress, through eps_zz)
    if not dt0 or True:
        D = np.empty((n, n), dtype=object)
        for i in range(n):
            for j in range(n):
                D[i, j] = as_sym(sig[i]).diff(eps[j])
        record_entries(res, f"{label}: tangent = d sigma / d eps", Calg, D, pcs, replay, 0, key=f"{label}: tangent = d sigma / d eps",
                       sample={"obligation": "the returned algorithmic tangent equals the symbolic derivative of the returned stress w.r.t. the strain (total derivative), entrywise, exactly", "config": cfg})
    # M4 dissipation: sum_i g_i (eps6 - eps_v_i) : C : d(eps_v_i) >= 0.  With M1 it equals sum_i g_i (tau_i/dt) d(eps_v_i) : C : d(eps_v_i); C SPD (exact LDL^T).
    if not dt0:
        diss = 0
        quad = 0
        for i in range(nb):
            di = zn[i] - ev[i]
            diss = diss + g[i] * sum(((e6 - zn[i])[k] * matvec(C6, di)[k] for k in range(6)), 0)
            quad = quad + g[i] * tau[i] * sum((di[k] * matvec(C6, di)[k] for k in range(6)), 0)
        record_entries(res, f"{label}: dissipation dt D = sum g_i tau_i d(eps_v_i):C:d(eps_v_i)", [diss * dt], [quad], pcs, replay, 0, key=f"{label}: dissipation non-negative")
        okC = spd_exact(C6)
        res.record(f"{label}: C positive definite (exact LDL^T), g_i, tau_i, dt > 0 -> dissipation >= 0", Outcome("held", how="ground-exact") if okC else Outcome("cex", env=dict(c.shadow), how="structure"), replay,
                   key=f"{label}: dissipation non-negative")
    # M5 purity and determinism
    same = all(as_sym(a).structurally_equal(as_sym(b_)) for a, b_ in zip(np.asarray(z_in)[0, 0], keep_z[0, 0])) and all(as_sym(a).structurally_equal(as_sym(b_)) for a, b_ in zip(np.asarray(e_in)[0, 0], eps))
    res.record(f"{label}: committed state and strain not written", Outcome("held", how="normal-form") if same else Outcome("cex", env=dict(c.shadow), how="structure"), replay)
    record_entries(res, f"{label}: a second call with the same arguments gives the same stress", np.asarray(sigB)[0, 0], sig, pcs, replay, 0)
    record_entries(res, f"{label}: a second call with the same arguments gives the same state", np.asarray(zB)[0, 0], z, pcs, replay, 0)
    if dt0:
        record_entries(res, f"{label}: dt = 0 leaves the branches where they were", z, zold, pcs, replay, 0)
    o = prove_abs_le(as_sym(Calg[0, 0]) - 2 * D[0, 0], 0, pcs, "twin")
    res.twin(f"{label} twin", o.status == "cex")
    res.stubs |= facade.USED_STUBS
    return res


# ------------------------------------------------------------------------------------------------ plastic step, spectral return, loop abstracted
class _HavocNp:
    """Stands in for the `np` global of `_spectral` during one symbolic run: the statement `theta = np.maximum(theta - step, 0.0)` of the
    Newton loop in `Solve` assigns a fresh symbol theta* >= 0 instead (havoc of the loop-carried variable).  Everything else is forwarded."""

    def __init__(self, inner, theta):
        self._inner, self._theta, self.count = inner, theta, 0

    def __getattr__(self, name):
        return getattr(self._inner, name)

    def maximum(self, a, b):
        import sys

        if facade._ACTIVE[0] and sys._getframe(1).f_code.co_name == "Solve":
            self.count += 1
            out = np.empty(np.shape(a), dtype=object)
            out[...] = self._theta
            return out.view(type(a)) if isinstance(a, np.ndarray) and type(a) is not np.ndarray else out
        return self._inner.maximum(a, b)


def reduce_by_root(numer, vid, N, D):
    """numer (Poly) modulo phi^2 = N / D (phi = variable vid): returns (A, B) with numer * D^K = A + B phi."""
    co = numer.coeffs_in(vid)
    if not co:
        return numer, Poly()
    K = max(e // 2 for e in co)
    A, B = Poly(), Poly()
    for e, cf in co.items():
        k = e // 2
        term = cf.mul(N.pow(k)).mul(D.pow(K - k)) if (k or K) else cf
        if e % 2:
            B = B.add(term)
        else:
            A = A.add(term)
    return A, B


def job_spectral(cfg):
    """One plastic step through the scalar spectral return.  The Newton loop on theta is ABSTRACTED by its exit condition: the loop-carried
    theta is havoc'd after the first iteration (fresh symbol theta* >= 0 whose shadow is the value the real loop converges to at the shadow
    point), the next pass through the real loop body evaluates the real residual at theta* and the real convergence test, whose outcome
    `|r(theta*)| < tol sigma_y` is recorded as path condition.  Everything after the loop (stress, plastic multiplier, state, consistent
    tangent) is the real code on theta*.  Any theta the real loop can exit with satisfies the recorded exit condition, so an obligation proved
    for all theta* on the path holds for the loop's actual output (provided the loop exits through its convergence test, not maxIter)."""
    from EasyFEA.Models.InElastic import Behavior, Yield, IsotropicHardening, _spectral

    res = JobResult(cfg)
    c = new_context()
    facade.install()
    law, mode, surf = cfg["law"], cfg["mode"], cfg["surface"]
    dim, ps = mode_args(mode)
    assert not ps
    n = 6 if dim == 3 else 3
    el = elastic_law(law)
    Cf = np.asarray(el.C, dtype=float)
    C6 = exactC(el.C)
    scale = Fraction(float(np.abs(el.C).max()))
    SY = 10.0
    P6 = exactC(make_surface(surf).P)
    sh_eps = [Fraction(1, 16), Fraction(-1, 40), Fraction(1, 50)] if n == 3 else [Fraction(1, 16), Fraction(-1, 40), Fraction(1, 100), Fraction(1, 80), Fraction(-1, 60), Fraction(1, 50)]
    sh_eps = [x * cfg.get("amp", 1) for x in sh_eps]  # softer laws need a larger shadow strain to be past yield
    eps = sym_array("eps", (n,), -Fraction(1, 4), Fraction(1, 4), shadows=sh_eps)
    if cfg.get("symbolic_epsP", False):
        epsP = sym_array("epsP", (6,), -Fraction(1, 50), Fraction(1, 50), shadows=[Fraction(1, 100), Fraction(-1, 300), Fraction(-1, 150), Fraction(1, 400), Fraction(-1, 500), Fraction(1, 250)])
    else:
        epsP = np.array([Fraction(1, 128), Fraction(-1, 256), Fraction(-1, 256), Fraction(1, 512), Fraction(-1, 1024), Fraction(1, 256)], dtype=object)
    pv = c.var("p", 0, 1, shadow=Fraction(1, 10))
    H = c.var("H", 0, 50, shadow=Fraction(5))
    label = f"spectral plastic step {surf} {law} {mode}" + (" symbolic eps_p" if cfg.get("symbolic_epsP") else "")
    res.functions |= {"Behavior.Integrate", "Behavior.Compute_strain_6d", "Behavior.__Integrate_3d", "Behavior.__Spectral", "_spectral.Build (concrete)", "_spectral.Solve (loop abstracted)", "_spectral._Phi",
                      "_spectral.Tangent", "IsotropicHardening.Linear", "Yield.VonMises / Hill"}
    res.stubs.add("Newton loop of _spectral.Solve: loop-carried theta havoc'd after the first pass (fresh theta* >= 0, the clamp `np.maximum(., 0)` is thereby assumed), exit condition recorded from the real convergence test")

    late = cfg.get("late", False)
    E_final, v_final = (float(el.E), float(el.v)) if late else (None, None)
    if late:
        label += " (elastic moduli assigned after the behavior was built)"

    def mk(Hv, solver="auto"):
        if late:
            # the behavior is built around a softer law; the user then assigns the final moduli to the SAME elastic model (public parameters):
            # every later Integrate must be the one of the current law, as for a freshly built behavior (the oracles below use the final C)
            el.E, el.v = 70.0, 0.3
        b_ = Behavior(dim, el, yieldSurface=make_surface(surf), hardening=IsotropicHardening.Linear(Hv), solver=solver)
        if late:
            el.E, el.v = E_final, v_final
        return b_

    def to6(e):
        e6 = np.zeros(6, dtype=object if np.asarray(e).dtype == object else float)
        if dim == 3:
            e6[:] = e
        else:
            e6[IDX2] = e
        return e6

    Pf = np.asarray(make_surface(surf).P, dtype=float)

    def run_float(env, ef=None, spy=None):
        ef = farr(c, env, eps) if ef is None else ef
        zf = np.concatenate([farr(c, env, epsP), [fval(c, env, pv)]])
        Hf = fval(c, env, H)
        bb = mk(Hf)
        zin = fe(zf.copy())
        s, Ca, zz, cv = bb.Integrate(fe(ef), zin, 0.0)
        return ef, zf, Hf, np.asarray(s)[0, 0], np.asarray(Ca)[0, 0], np.asarray(zz)[0, 0], np.asarray(zin)[0, 0], bool(np.asarray(cv).all())

    def replay(env):
        ef, zf, Hf, s, Ca, zz, zin, cv = run_float(env)
        e6 = to6(ef)
        s6 = Cf @ (e6 - zz[:6])
        dep, dp = zz[:6] - zf[:6], zz[6] - zf[6]
        phi = float(np.sqrt(max(s6 @ Pf @ s6, 0.0)))
        errs = {"yield_function_over_sigma_y": (phi - SY - Hf * zz[6]) / SY, "d_p": float(dp), "trace_d_eps_p": float(dep[:3].sum()),
                "stress_vs_state": float(np.abs(s - (s6 if dim == 3 else s6[IDX2])).max() / float(scale)), "dissipation": float(s6 @ dep),
                "flow_rule": float(np.abs(dep * phi - dp * (Pf @ s6)).max()), "committed_state_written": float(np.abs(zin - zf).max())}
        Cn = num_tangent(lambda e: run_float(env, e)[3], ef)
        errs["tangent_vs_finite_differences"] = float(np.abs(Ca - Cn).max() / float(scale))
        _, _, _, s_n, Ca_n, zz_n, _, _ = (lambda bbn: (None, None, None) + tuple(np.asarray(x)[0, 0] for x in bbn.Integrate(fe(ef), fe(zf.copy()), 0.0)[:3]) + (None, None))(mk(Hf, "newton"))
        errs["solvers_differ"] = float(max(np.abs(s - s_n).max() / float(scale), np.abs(zz - zz_n).max(), np.abs(Ca - Ca_n).max() / float(scale)))
        # admissible: f <= tol always; consistent: f = 0 (within tol) whenever the step flowed
        bad = (errs["yield_function_over_sigma_y"] > 1e-7 or (dp > 1e-12 and abs(errs["yield_function_over_sigma_y"]) > 1e-7) or dp < -1e-12 or abs(errs["trace_d_eps_p"]) > 1e-10 or errs["stress_vs_state"] > 1e-9 or errs["dissipation"] < -1e-9 or errs["flow_rule"] > 1e-8
               or errs["tangent_vs_finite_differences"] > 1e-5 or errs["committed_state_written"] > 0 or errs["solvers_differ"] > 1e-6 or not cv)
        return bad, {"eps": ef.tolist(), "zOld": zf.tolist(), "H": Hf, **errs}

    if preflight(res, c, replay, label):
        return res
    # the value the real loop converges to at the shadow point
    got = {}
    orig_solve = _spectral.Solve

    def spy(*a, **k):
        r_ = orig_solve(*a, **k)
        got["theta"] = float(np.asarray(r_.theta)[0, 0])
        got["active"] = bool(np.asarray(r_.active)[0, 0])
        return r_

    _spectral.Solve = spy
    try:
        run_float(dict(c.shadow))
    finally:
        _spectral.Solve = orig_solve
    if not got.get("active") or not got.get("theta", 0) > 0:
        res.harness_errors.append({"label": label, "detail": f"shadow point is not a plastic step: {got}"})
        return res
    # the recorded sign of r(theta*) at the shadow decides which half of the exit region is claimed: cfg['side'] nudges the shadow
    th_sh = Fraction(got["theta"]) * (1 + Fraction(cfg.get("side", 0), 10 ** 13))
    theta = c.var("theta", 0, THETA_MAX, shadow=th_sh)
    res.symbols = n + 3 + (6 if cfg.get("symbolic_epsP") else 0)
    zold = np.concatenate([epsP, [pv]])
    hv = _HavocNp(_spectral.np, theta)
    _spectral.np = hv
    mark = c.mark()
    try:
        with facade.symbolic():
            b = mk(H)
            z_in = fe(zold.copy())
            keep_z = np.array(np.asarray(z_in), dtype=object, copy=True)
            sig, Calg, z, conv = b.Integrate(fe(eps.copy()), z_in, 0.0)
    finally:
        _spectral.np = hv._inner
    pcs = c.pc_since(mark)
    res.paths, res.path_conditions = 1, len(pcs)
    if hv.count != 1:
        res.inconclusive.append({"label": label, "detail": f"the abstracted loop did not exit after one havoc (count = {hv.count}): the shadow theta is not accepted by the convergence test"})
        return res
    sig, Calg, z = np.asarray(sig)[0, 0], np.asarray(Calg)[0, 0], np.asarray(z)[0, 0]
    eps6 = to6(eps)
    epn, pn = z[:6], z[6]
    dep = epn - epsP
    s6 = matvec(C6, eps6 - epn)  # the stress of the returned state (what Compute_stress gives for it)
    phi = (as_sym(pn) - pv) / theta
    pvars = [v for v in phi.vars() if c.kind.get(v) == "aux"]
    if not (phi.d.is_const() and len(pvars) == 1 and phi.n.nterms() == 1):
        res.harness_errors.append({"label": label, "detail": f"plastic multiplier is not theta * phi: {repr(phi)[:200]}"})
        return res
    phi_vid = pvars[0]
    rad = as_sym(c.auxdef[phi_vid][1][0])
    Nn, Dd = rad.n, rad.d
    strain_tol = Fraction(1, 10 ** 11)
    # D6 returned stress = C : (eps - eps_p_new)
    record_entries(res, f"{label}: returned stress = C : (eps - eps_p_new)", sig, s6 if dim == 3 else s6[IDX2], pcs, replay, TOL, scale=scale,
                   sample={"obligation": "for all strains, committed p, H and every theta* the loop can exit with: |sigma - C (eps6 - eps_p_new)| <= 1e-9 |C|", "config": cfg})
    # D1 plastic multiplier non-negative, accumulated plastic strain does not decrease
    o = prove_cond(Cond((as_sym(pn) - pv).n.scale(1 / (as_sym(pn) - pv).d.const_value()), ">="), pcs, f"{label} dp>=0")
    res.record(f"{label}: accumulated plastic strain does not decrease", o, replay)
    # D2 traceless plastic strain increment
    record_entries(res, f"{label}: plastic strain increment traceless", [dep[0] + dep[1] + dep[2]], [0], pcs, replay, strain_tol)
    # D3 flow rule d(eps_p) = theta P sigma  (= dGamma P sigma / phi: associative, normal to the surface at the returned stress)
    record_entries(res, f"{label}: flow rule d(eps_p) = (dGamma / phi) P : sigma", dep, matvec(P6, s6) * theta, pcs, replay, strain_tol * 10)
    # dissipation sigma : d(eps_p) = theta sigma:P:sigma >= 0 with P positive semi-definite (exact: P + 1e-12 I positive definite)
    okP = spd_exact(np.array([[Fraction(P6[i, j]) + (Fraction(1, 10 ** 12) if i == j else 0) for j in range(6)] for i in range(6)], dtype=object))
    res.record(f"{label}: P positive semi-definite, theta >= 0 -> dissipation sigma : d(eps_p) >= 0", Outcome("held", how="ground-exact") if okP else Outcome("cex", env=dict(c.shadow), how="structure"), replay)
    # D4 admissibility: |f(sigma_out, p_new)| <= 3 tol sigma_y.  (a) sigma:P:sigma = phi_code^2 up to round-off (aux-free);  (b) from the recorded exit condition
    quad = sum((s6[i] * matvec(P6, s6)[i] for i in range(6)), 0)
    dq = as_sym(quad) - Sym.make(Nn, Dd)
    delta = Fraction(1, 10 ** 9)
    oa = prove_abs_le(dq, delta, pcs, f"{label} phi^2", timeout_ms=60000)
    res.record(f"{label}: sigma:P:sigma equals the code's phi^2 (|.| <= 1e-9)", oa, replay, key=f"{label}: admissible")
    # (b) free variables phi_o, phi_c >= 0 with |phi_o^2 - phi_c^2| <= delta and the recorded exit condition in (phi_c, theta, p, H) => |phi_o - sy - H (p + theta phi_c)| <= 3e-9
    exit_pcs = [q for q in pcs if phi_vid in q.vars() and q.vars() <= {phi_vid, _vid(theta), _vid(pv), _vid(H)}]
    n_exit = len(exit_pcs)
    exit_pcs = exit_pcs + list(c.domain_conds({_vid(theta), _vid(pv), _vid(H)}))  # the boxes of theta*, p, H (prove_cond adds the goal's variables only)
    phio = c.var("phi_o", 0, 10 ** 4, shadow=c.shadow[phi_vid])
    pc_ = Poly.var(phi_vid)
    po_ = Poly.var(_vid(phio))
    close = [Cond(po_.pow(2).sub(pc_.pow(2)).sub(Poly.const(delta)), "<="), Cond(po_.pow(2).sub(pc_.pow(2)).add(Poly.const(delta)), ">="), Cond(pc_, ">=")]
    fo = (phio - SY - H * (pv + theta * Sym(pc_)))
    tolA = Fraction(3, 10 ** 9) * Fraction(SY)
    ob = prove_cond(("and", [Cond(fo.n.sub(Poly.const(tolA)), "<="), Cond(fo.n.add(Poly.const(tolA)), ">=")]), exit_pcs + close, f"{label} admissible", timeout_ms=60000)
    res.record(f"{label}: |f(sigma, p_new)| <= 3e-9 sigma_y from the loop's exit condition", ob, replay, key=f"{label}: admissible",
               sample={"obligation": "exit condition |r(theta*)| < tol sigma_y (recorded from the real convergence test) /\\ |phi_o^2 - phi_c^2| <= 1e-9 => |phi_o - sigma_y - H p_new| <= 3e-9 sigma_y (QF_NRA)", "exit_conditions": [repr(q)[:160] for q in exit_pcs[:n_exit]]})
    if n_exit < 2:
        res.harness_errors.append({"label": label, "detail": "exit condition of the abstracted loop not found among the path conditions"})
    # D5 consistent tangent: theta(eps) is defined implicitly by r(eps, theta) = 0 with r the loop's residual; d sigma/d eps = ds/de|theta - ds/dtheta (dr/de) / (dr/dtheta).
    #    Identity checked without division, exactly modulo phi^2 = N / D:   (C_alg - ds/de|theta) dr/dtheta + ds/dtheta (x) dr/de = 0
    r_sym = Sym(pc_) - SY - H * (pv + theta * Sym(pc_))
    drdth = r_sym.diff(theta)
    # box of phi for the interval bounds below: phi >= 9/10 sigma_y follows from the exit condition (solver), phi^2 = N / D <= max N / min D
    phi_box = None
    olow = prove_cond(Cond(pc_.sub(Poly.const(Fraction(9, 10) * Fraction(SY))), ">="), exit_pcs + [Cond(pc_, ">=")], f"{label} phi lower bound", timeout_ms=30000)
    from engine import oblig as _ob0
    bx0 = _ob0._box_for(Nn.vars() | Dd.vars())
    res.notes.append(f"exit pcs {[repr(q)[:200] for q in exit_pcs]} cex {olow.env if olow.status == 'cex' else None} names { {v: c.name(v) for v in (phi_vid, _vid(theta), _vid(pv), _vid(H))} }")
    res.notes.append(f"phi box: lower-bound query {olow.status}, radicand box {'ok' if bx0 is not None else None}")
    if olow.status == "held" and bx0 is not None:
        loN, hiN = smt.poly_interval(Nn, bx0)
        loD0, hiD0 = smt.poly_interval(Dd, bx0)
        if loD0 > 0 and hiN > 0:
            import math
            res.notes.append(f"N in [{float(loN):.3g},{float(hiN):.3g}] D in [{float(loD0):.3g},{float(hiD0):.3g}]")
            phi_box = (Fraction(9, 10) * Fraction(SY), Fraction(math.ceil(math.sqrt(float(hiN / loD0)) * 1.000001 * 2 ** 20 + 1), 2 ** 20))
    sig_s = [as_sym(x) for x in sig]
    dsdth = [x.diff(theta) for x in sig_s]
    envf = dict(c.shadow)
    if cfg.get("tangent"):  # experimental: the symbolic tangent identity of the abstracted return (polynomials of ~10^4 terms; interval bounds too loose so far) - not part of the claim
        worst = None
        nexact = 0
        ninterval = 0
        envf = dict(c.shadow)
        for i in range(n):
            for j in range(n):
                R = (as_sym(Calg[i, j]) - sig_s[i].diff(eps[j])) * drdth + dsdth[i] * r_sym.diff(eps[j])
                val = R.eval(envf)
                if abs(val) > Fraction(1, 10 ** 6) * scale:
                    worst = Outcome("cex", env=envf, how="shadow", detail=f"tangent entry ({i},{j}): residual {float(val):.4g} at the shadow point")
                    break
                A, B = reduce_by_root(R.n, phi_vid, Nn, Dd)
                if A.is_zero() and B.is_zero():
                    nexact += 1
                    continue
                # not identically zero (round-off sized coefficients; polynomials of ~10^4 terms, out of reach of z3): sound interval bound.
                # R = (A + B phi) / (R.d D^K) with B == 0 required; |R| <= max|A| / min|R.d D^K| over the box, compared with 1e-9 |C| |dr/dtheta|_shadow
                from engine import oblig as _ob

                K = max(e // 2 for e in R.n.coeffs_in(phi_vid))
                Den = R.d.mul(Dd.pow(K))
                box = _ob._box_for((A.vars() | Den.vars()) - {phi_vid})
                if box is not None and phi_vid in Den.vars():
                    box = {**box, phi_vid: phi_box} if phi_box is not None else None
                okb = False
                detail = f"no finite box (phi box {phi_box}, B zero {B.is_zero()}, box {'ok' if box is not None else None})"
                if B.is_zero() and box is not None:
                    loA, hiA = smt.poly_interval(A, box)
                    loD, hiD = smt.poly_interval(Den, box)
                    if loD > 0 or hiD < 0:
                        bound = max(abs(loA), abs(hiA)) / min(abs(loD), abs(hiD))
                        ref = TOL * scale * abs(drdth.eval(envf))
                        okb = bound <= ref
                        detail = f"interval bound {float(bound):.3g} vs tolerance {float(ref):.3g}"
                    else:
                        detail = f"denominator interval [{float(loD):.3g}, {float(hiD):.3g}] contains 0"
                if okb:
                    smt.STATS["closed_by_interval"] = smt.STATS.get("closed_by_interval", 0) + 1
                    ninterval += 1
                    continue
                worst = Outcome("inconclusive", how="interval", detail=f"tangent entry ({i},{j}): {detail}")
                break
            if worst is not None:
                break
        res.record(f"{label}: consistent tangent = d sigma / d eps (implicit differentiation of the loop's residual)", worst or Outcome("held", how="normal-form" if nexact == n * n else "interval"), replay,
                   key=f"{label}: tangent = d sigma / d eps",
                   sample={"obligation": "(C_alg - d sigma/d eps|theta) dr/dtheta + d sigma/dtheta (x) dr/d eps == 0 entrywise, exactly modulo phi^2 = N/D (symbolic differentiation of the returned stress and of the residual)", "entries_closed_exactly": nexact, "entries_closed_by_interval_bound": ninterval})
    # purity
    same = all(as_sym(a).structurally_equal(as_sym(b_)) for a, b_ in zip(np.asarray(z_in)[0, 0], keep_z[0, 0]))
    res.record(f"{label}: committed state not written", Outcome("held", how="normal-form") if same else Outcome("cex", env=dict(c.shadow), how="structure"), replay)
    # twins: a wrong flow rule and a wrong tangent must be refuted
    o = prove_abs_le(as_sym(dep[0]) - 2 * as_sym((matvec(P6, s6) * theta)[0]), strain_tol * 10, pcs, "twin")
    res.twin(f"{label} twin (flow rule)", o.status == "cex")
    Rt = (as_sym(Calg[0, 0]).eval(envf) * 2 - sig_s[0].diff(eps[0]).eval(envf)) * drdth.eval(envf) + dsdth[0].eval(envf) * r_sym.diff(eps[0]).eval(envf)
    res.twin(f"{label} twin (tangent residual)", abs(Rt) > Fraction(1, 10 ** 6) * scale)
    # the tangent identity (C_alg - ds/de|theta) dr/dtheta + ds/dtheta (x) dr/de = 0 evaluated exactly at the shadow point (a ground fact: one point, rational arithmetic)
    worst_t = 0
    drdth_v = drdth.eval(envf)
    dsdth_v = [x.eval(envf) for x in dsdth]
    drde_v = [r_sym.diff(eps[j]).eval(envf) for j in range(n)]
    for i in range(n):
        for j in range(n):
            Rij = (as_sym(Calg[i, j]).eval(envf) - sig_s[i].diff(eps[j]).eval(envf)) * drdth_v + dsdth_v[i] * drde_v[j]
            worst_t = max(worst_t, abs(Rij))
    okt = worst_t <= Fraction(1, 10 ** 6) * scale
    res.record(f"{label}: tangent identity at the shadow point (ground fact, not a quantified claim)", Outcome("held", how="ground-exact") if okt else Outcome("cex", env=envf, how="shadow", detail=f"residual {float(worst_t):.4g}"), replay,
               key=f"{label}: tangent = d sigma / d eps")
    res.stubs |= facade.USED_STUBS
    return res


# ------------------------------------------------------------------------------------------------ concrete probe of plastic paths (ground facts)
def job_probe(cfg):
    """NOT a quantified claim: the oracle of the replay functions evaluated along one concrete strain path (loading through yield in fine
    steps, unloading, reversal, non-proportional leg) with the state committed after every step - the standing version of the replay, for the
    configurations whose plastic steps the symbolic jobs cannot reach (general local Newton, plane stress with flow).  Reported as ground facts."""
    res = JobResult(cfg)
    law, mode, solver = cfg["law"], cfg["mode"], cfg["solver"]
    dim, ps = mode_args(mode)
    n = 6 if dim == 3 else 3
    el = elastic_law(law)
    Cf = np.asarray(el.C, dtype=float)
    scale = float(np.abs(Cf).max())
    SY = 10.0
    label = f"probe {cfg['surface']} {cfg.get('hardening')} kin={cfg.get('kinematic')} {law} {mode} solver={solver}"
    b = make_behavior(cfg, el, dim, ps, solver)
    bn = make_behavior(cfg, el, dim, ps, "newton") if solver == "auto" else None
    nz = b.layout.n
    nk = {"prager": 1, "af": 1, "chaboche": 2}.get(cfg.get("kinematic"), 0)
    Hh = 5.0 if cfg.get("hardening") == "linear" else 0.0
    kin = {"prager": [(12.0, 0.0)], "af": [(12.0, 3.0)], "chaboche": [(12.0, 3.0), (4.0, 0.0)]}.get(cfg.get("kinematic"), [])
    surf = make_surface(cfg["surface"])
    ey = SY / 200.0
    # path: 0 -> 2.5 ey in 40 steps along d1, back to -2.5 ey in 40 steps, then a non-proportional leg along d2
    d1 = np.array([1.0, -0.2, 0.1] if n == 3 else [1.0, -0.2, 0.1, 0.3, -0.1, 0.2])
    d2 = np.array([0.2, 1.0, -0.6] if n == 3 else [0.2, 1.0, -0.3, -0.4, 0.5, -0.6])
    amps = list(np.linspace(0, 2.5, 41)[1:]) + list(np.linspace(2.5, -2.5, 41)[1:])
    path = [a * ey * d1 for a in amps] + [-2.5 * ey * d1 + t * 2.0 * ey * d2 for t in np.linspace(0, 1, 21)[1:]]
    z = np.zeros(nz)
    worst = {"yield": 0.0, "dp": 0.0, "trace": 0.0, "dissipation": 0.0, "sig_zz": 0.0, "solvers": 0.0, "tangent": 0.0, "written": 0.0, "stress_vs_state": 0.0}
    nflow = 0

    def integ(beh, e, zz):
        zin = fe(zz.copy())
        s, Ca, zn, cv = beh.Integrate(fe(e), zin, 0.0)
        return np.asarray(s)[0, 0], np.asarray(Ca)[0, 0], np.asarray(zn)[0, 0], float(np.abs(np.asarray(zin)[0, 0] - zz).max()), bool(np.asarray(cv).all())

    bad_conv = 0
    for k, e in enumerate(path):
        s, Ca, zn, written, cv = integ(b, e, z)
        bad_conv += 0 if cv else 1
        e6 = np.asarray(b.Compute_strain_6d(fe(e), fe(z.copy()), 0.0))[0, 0]
        s6 = Cf @ (e6 - zn[:6])
        X = np.zeros(6)
        for i, (Ck, gk) in enumerate(kin):
            X = X + (2.0 / 3.0) * Ck * zn[7 + 6 * i:13 + 6 * i]
        xi = s6 - X
        if cfg["surface"] == "dp":  # independent oracle: sqrt(3/2) |dev xi| + eta tr xi - sigma_y - R
            dev = xi.copy()
            dev[:3] -= xi[:3].sum() / 3.0
            f = float(np.sqrt(1.5 * dev @ dev) + 0.125 * xi[:3].sum() - SY - Hh * zn[6])
        else:
            f = float(np.sqrt(max(xi @ np.asarray(surf.P, dtype=float) @ xi, 0.0)) - SY - Hh * zn[6])
        dep, dp = zn[:6] - z[:6], zn[6] - z[6]
        worst["yield"] = max(worst["yield"], f / SY)
        worst["dp"] = min(worst["dp"], dp)
        if cfg["surface"] in ("vm", "hill"):
            worst["trace"] = max(worst["trace"], abs(dep[:3].sum()))
        diss = float((s6 - X) @ dep) - Hh * zn[6] * dp + sum((2.0 / 3.0) * Ck * gk * float(zn[7 + 6 * i:13 + 6 * i] @ zn[7 + 6 * i:13 + 6 * i]) * dp for i, (Ck, gk) in enumerate(kin))
        worst["dissipation"] = min(worst["dissipation"], diss)
        worst["stress_vs_state"] = max(worst["stress_vs_state"], float(np.abs(s - (s6 if dim == 3 else s6[IDX2])).max() / scale))
        if ps:
            worst["sig_zz"] = max(worst["sig_zz"], abs(s6[ZZ]) / SY)
        worst["written"] = max(worst["written"], written)
        if dp > 1e-12:
            nflow += 1
        if bn is not None:
            s_n, Ca_n, zn_n, _, _ = integ(bn, e, z)
            worst["solvers"] = max(worst["solvers"], float(np.abs(s - s_n).max() / scale), float(np.abs(zn - zn_n).max()), float(np.abs(Ca - Ca_n).max() / scale))
        if k % 6 == 3:
            Cn = num_tangent(lambda ee: integ(b, ee, z)[0], e, h=1e-7 * ey * 100)
            worst["tangent"] = max(worst["tangent"], float(np.abs(Ca - Cn).max() / scale))
        z = zn
    info = {"steps": len(path), "steps_with_plastic_flow": nflow, "not_converged": bad_conv, **{k_: float(v) for k_, v in worst.items()}}
    ok = (worst["yield"] <= 1e-6 and worst["dp"] >= -1e-12 and worst["trace"] <= 1e-10 and worst["dissipation"] >= -1e-8 and worst["sig_zz"] <= 1e-6 and worst["solvers"] <= 1e-6
          and worst["tangent"] <= 2e-4 and worst["written"] == 0 and worst["stress_vs_state"] <= 1e-9 and bad_conv == 0 and nflow >= 10)
    res.record(f"{label}: admissible, dissipative, consistent along {len(path)} concrete steps", Outcome("held", how="ground-exact") if ok else Outcome("cex", env={}, how="structure", detail=str(info)),
               lambda env: ((not ok), info), key=f"{label}: concrete path",
               sample={"obligation": f"{label}: f <= 1e-6 sigma_y, dp >= 0, traceless flow, dissipation >= 0, sig_zz = 0 (plane stress), both local solvers agree, tangent = finite differences, inputs not written - a probe along one concrete path, no quantifier", **info})
    res.twin(f"{label} twin", nflow >= 10)
    res.paths = 1
    return res


# ------------------------------------------------------------------------------------------------ commit discipline of Simulations.InElastic
def job_simu(cfg):
    """`Simulations.InElastic` with a Maxwell material (internal variables, linear local and global problems: the real global Newton ends after
    two iterations) and SYMBOLIC load amplitudes: only `Save_Iter` advances the history; `Set_Iter(i)` followed by `Save_Iter()` stores the
    state of iteration i; a solve that is not saved leaves no trace in the next step."""
    from EasyFEA import Simulations
    from engine import stubs
    from checks import simlib

    res = JobResult(cfg)
    c = new_context()
    facade.install()
    mode = cfg["mode"]
    dim, ps = mode_args(mode)
    el = elastic_law("iso")
    scale = Fraction(float(np.abs(el.C).max()))
    L = [c.var(f"L{i}", -1, 1, shadow=Fraction(2 * i + 1, 7) * (-1) ** i) for i in range(3)]
    res.symbols = 3
    label = f"InElastic simulation (Maxwell, {mode}) {cfg['seq']}"
    res.functions |= {"Simulations.InElastic.Construct_local_matrix_system", "InElastic.Save_Iter", "InElastic.Set_Iter", "InElastic.__Get_state", "_Simu._Solver_Solve_Newton_Raphson", "_Simu.Solve", "_Simu.Get_results",
                      "Behavior.Integrate", "Operators.Bilinear.LinearizedElasticity", "Operators.Linear.InternalForce"}

    def mk():
        mesh = simlib.small_mesh("tri4" if dim == 2 else "tetra2")
        b = make_behavior({}, el, dim, ps, "auto", g=[0.25], tau=[2.0])
        simu = Simulations.InElastic(mesh, b, verbosity=False)
        simu.dt = 0.5
        return simu

    def step(simu, amp):
        simu.Bc_Init()
        if dim == 2:
            simu.add_dirichlet(np.array([0]), [0, 0], ["x", "y"])
            simu.add_dirichlet(np.array([3]), [0], ["x"])
            simu.add_neumann(np.array([2]), [amp], ["x"])
        else:
            simu.add_dirichlet(np.array([0]), [0, 0, 0], ["x", "y", "z"])
            simu.add_dirichlet(np.array([1]), [0, 0], ["y", "z"])
            simu.add_dirichlet(np.array([2]), [0], ["z"])
            simu.add_neumann(np.array([simu.mesh.Nn - 1]), [amp], ["x"])
        simu.Solve()

    def state_of(simu, i):
        r = simu.Get_results(i)
        return np.concatenate([np.asarray(r["displacement"], dtype=object).reshape(-1)] + [np.asarray(a, dtype=object).reshape(-1) for _, a in sorted(r["state"].items(), key=lambda kv: str(kv[0]))])

    def run(amps, symbolic):
        """returns (pairs of vectors that must be equal, labels)"""
        import contextlib, io

        with contextlib.redirect_stdout(io.StringIO()):  # the global Newton loop prints its progress unconditionally
            return _run(amps)

    def _run(amps):
        pairs = []
        if cfg["seq"] == "restore-save":
            s = mk()
            step(s, amps[0]); s.Save_Iter()
            step(s, amps[1]); s.Save_Iter()
            s.Set_Iter(0)
            s.Save_Iter()
            pairs.append((state_of(s, 2), state_of(s, 0), "Set_Iter(0); Save_Iter() stores the state of iteration 0"))
            step(s, amps[2]); s.Save_Iter()
            f = mk()
            step(f, amps[0]); f.Save_Iter()
            step(f, amps[2]); f.Save_Iter()
            pairs.append((state_of(s, 3), state_of(f, 1), "a step after Set_Iter(0); Save_Iter() = the same step on a simulation that never went further"))
        elif cfg["seq"] == "restore-solve":
            # Set_Iter(i) directly followed by a solve (no Save_Iter in between): the solve starts from the restored committed state, does not
            # write it, and equals the same step on a simulation that never went further
            s = mk()
            step(s, amps[0]); s.Save_Iter()
            step(s, amps[1]); s.Save_Iter()
            s.Set_Iter(0)
            before = state_of(s, 0).copy()
            step(s, amps[2])
            pairs.append((state_of(s, 0), before, "a solve right after Set_Iter(0) does not change the stored iteration 0"))
            s.Save_Iter()
            f = mk()
            step(f, amps[0]); f.Save_Iter()
            step(f, amps[2]); f.Save_Iter()
            pairs.append((state_of(s, 2), state_of(f, 1), "a step solved right after Set_Iter(0) = the same step on a simulation that never went further"))
        else:  # unsaved solve
            s = mk()
            step(s, amps[0]); s.Save_Iter()
            before = state_of(s, 0).copy()
            step(s, amps[1])  # not saved
            pairs.append((state_of(s, 0), before, "a solve does not change the stored iteration"))
            step(s, amps[2]); s.Save_Iter()
            f = mk()
            step(f, amps[0]); f.Save_Iter()
            step(f, amps[2]); f.Save_Iter()
            pairs.append((state_of(s, 1), state_of(f, 1), "a solve that was not saved leaves no trace in the next saved step"))
        return pairs

    def replay(env):
        amps = [fval(c, env, x) for x in L]
        pairs = run(amps, False)
        errs = {lab: float(np.abs(np.asarray(a, dtype=float) - np.asarray(b_, dtype=float)).max()) for a, b_, lab in pairs}
        return any(v > 1e-9 for v in errs.values()), {"load_amplitudes": amps, **errs}

    if preflight(res, c, replay, label):
        return res
    mark = c.mark()
    with facade.symbolic(), stubs.ideal_linear_solver():
        pairs = run(L, True)
    pcs = c.pc_since(mark)
    res.paths, res.path_conditions = 1, len(pcs)
    for a, b_, lab in pairs:
        record_entries(res, f"{label}: {lab}", a, b_, pcs, replay, TOL, key=f"{label}: {lab}",
                       sample={"obligation": f"{lab}: displacement and internal variables agree entrywise (|.| <= 1e-9) for all load amplitudes", "entries": int(np.asarray(a).size)})
    o = prove_abs_le(as_sym(pairs[-1][0][-1]) - 2 * as_sym(pairs[-1][1][-1]), TOL, pcs, "twin")
    res.twin(f"{label} twin", o.status == "cex")
    res.stubs |= facade.USED_STUBS
    res.stubs.add("linear solver of the global Newton iterations -> ideal solver (exact elimination)")
    return res


# ------------------------------------------------------------------------------------------------ local Jacobian = derivative of the local residual
def job_jacobian(cfg):
    """General local Newton (`__Flow`): the tangent it returns is -C (dr/du)^-1 (dr/deps) restricted to the plastic / branch rows, so it is the
    derivative of the returned stress exactly when `__Jacobian` returns J = dr/du and D = dr/deps of `__Residual` (implicit function theorem).
    Both private methods are executed on a fully SYMBOLIC point (strain, committed state, unknown increments u - not necessarily converged -
    and dt) and every entry of J and D is compared with the symbolic derivative of the corresponding residual row: no iteration is involved."""
    from EasyFEA.FEM import FeArray

    res = JobResult(cfg)
    c = new_context()
    facade.install()
    law = cfg["law"]
    el = elastic_law(law)
    scale = Fraction(float(np.abs(el.C).max()))
    nk = {"prager": 1, "af": 1, "chaboche": 2}.get(cfg.get("kinematic"), 0)
    nb = cfg.get("branches", 0)
    has_y = bool(cfg.get("surface"))
    label = f"local Jacobian {cfg.get('surface')} {cfg.get('hardening')} kin={cfg.get('kinematic')} branches={nb} rate={cfg.get('rate')} {law}"
    res.functions |= {"Behavior.__Residual", "Behavior.__Jacobian", "Behavior.Compute_sigma", "Behavior.Compute_elastic_strain", "Behavior.Compute_back_stress", "Yield.* (f, N, dNdSig)",
                      "IsotropicHardening.Linear (R, dR)", "KinematicHardening.ArmstrongFrederick (X, modulus, recall)", "ViscoPlastic.Norton (inverse, dinverse)", "ViscoElastic.Maxwell"}
    g = [0.25, 0.125][:nb]
    tau = [2.0, 0.5][:nb]
    dt = c.var("dt", Fraction(1, 10), 2, shadow=Fraction(1, 2)) if (nb or cfg.get("rate")) else 0.0

    def mk():
        return make_behavior(cfg, el, 3, False, "newton", g=g if nb else None, tau=tau if nb else None)

    b0 = mk()
    nz = b0.layout.n
    nu = nz + (1 if has_y else 0)
    # a stress state well outside the elastic range so that phi is away from 0: strains ~ 0.1 with sigma_y = 10, |C| = 240
    eps = sym_array("eps", (6,), -Fraction(1, 4), Fraction(1, 4), shadows=[Fraction(1, 8), Fraction(-1, 20), Fraction(1, 50), Fraction(1, 40), Fraction(-1, 30), Fraction(1, 25)])
    zold = sym_array("z", (nz,), -Fraction(1, 50), Fraction(1, 50), shadows=[Fraction((-1) ** k * (k + 2), 700 + 37 * k) for k in range(nz)])
    u = sym_array("u", (nu,), -Fraction(1, 50), Fraction(1, 50), shadows=[Fraction((-1) ** (k + 1) * (k + 3), 900 + 41 * k) for k in range(nu)])
    if has_y:
        # accumulated plastic strain and plastic multiplier are non-negative quantities
        pslot = b0.layout.slots["p"].start
        zold[pslot] = c.var("p_old", 0, Fraction(1, 10), shadow=Fraction(1, 40))
        u[pslot] = c.var("dp", 0, Fraction(1, 50), shadow=Fraction(1, 300))
        u[nz] = c.var("dGamma", Fraction(1, 1000), Fraction(1, 50), shadow=Fraction(1, 250))
    res.symbols = 6 + nz + nu + (1 if not isinstance(dt, float) else 0)

    def run_float(env, du=None, de=None):
        ef, zf, uf = farr(c, env, eps), farr(c, env, zold), farr(c, env, u)
        if du is not None:
            uf = uf + du
        if de is not None:
            ef = ef + de
        dtf = fval(c, env, dt)
        bb = mk()
        Cf = bb._C_e_pg(1, 1)
        r_, _, N_, dN_ = bb._Behavior__Residual(fe(ef), fe(uf), fe(zf), Cf, dtf)
        J_, D_ = bb._Behavior__Jacobian(fe(uf), fe(zf), N_, dN_, Cf, dtf)
        return np.asarray(r_)[0, 0], np.asarray(J_)[0, 0], np.asarray(D_)[0, 0]

    def replay(env):
        r0, J0, D0 = run_float(env)
        h = 1e-7
        Jn = np.zeros_like(J0)
        Dn = np.zeros_like(D0)
        for j in range(nu):
            d_ = np.zeros(nu)
            d_[j] = h
            Jn[:, j] = (run_float(env, du=d_)[0] - run_float(env, du=-d_)[0]) / (2 * h)
        for k in range(6):
            d_ = np.zeros(6)
            d_[k] = h
            Dn[:, k] = (run_float(env, de=d_)[0] - run_float(env, de=-d_)[0]) / (2 * h)
        eJ = float(np.abs(J0 - Jn).max() / max(1.0, np.abs(Jn).max()))
        eD = float(np.abs(D0 - Dn).max() / max(1.0, np.abs(Dn).max()))
        return max(eJ, eD) > 1e-5, {"relative_error_J_vs_finite_differences_of_the_residual": eJ, "relative_error_D_vs_finite_differences_of_the_residual": eD}

    if preflight(res, c, replay, label):
        return res
    facade.EXACT_SQRT_OF.add(1.5)  # sqrt(3/2) of the von Mises norm as the exact algebraic number: the identities are then exact
    res.stubs.add("np.sqrt(1.5) -> exact algebraic number r > 0, r^2 = 3/2 (the von Mises factor)")
    mark = c.mark()
    with facade.symbolic():
        b = mk()
        Cs = b._C_e_pg(1, 1)
        r, sig, N, dNdSig = b._Behavior__Residual(fe(eps.copy()), fe(u.copy()), fe(zold.copy()), Cs, dt)
        J, D = b._Behavior__Jacobian(fe(u.copy()), fe(zold.copy()), N, dNdSig, Cs, dt)
    pcs = c.pc_since(mark)
    res.paths, res.path_conditions = 1, len(pcs)
    r, J, D = np.asarray(r, dtype=object)[0, 0], np.asarray(J, dtype=object)[0, 0], np.asarray(D, dtype=object)[0, 0]
    dJ = np.empty((nu, nu), dtype=object)
    dD = np.empty((nu, 6), dtype=object)
    for i in range(nu):
        ri = as_sym(r[i])
        for j in range(nu):
            dJ[i, j] = ri.diff(u[j])
        for k in range(6):
            dD[i, k] = ri.diff(eps[k])
    tolJ = TOL * scale
    record_entries(res, f"{label}: J = d residual / d unknowns", J, dJ, pcs, replay, TOL, scale=scale, key=f"{label}: J = dr/du",
                   sample={"obligation": "every entry of the Jacobian returned by Behavior.__Jacobian equals the symbolic derivative of the residual row of Behavior.__Residual w.r.t. the unknown increment, for all strains, "
                                         "committed states, increments (not only converged ones) and dt in the box (rational identities modulo the square-root definitions)", "unknowns": nu, "config": cfg})
    record_entries(res, f"{label}: D = d residual / d strain", D, dD, pcs, replay, TOL, scale=scale, key=f"{label}: D = dr/deps")
    o = prove_abs_le(as_sym(J[0, 0]) * 2 - as_sym(dJ[0, 0]), tolJ, pcs, "twin")
    res.twin(f"{label} twin", o.status == "cex")
    res.stubs |= facade.USED_STUBS
    return res


class _Budget(Exception):
    pass


def job(cfg):
    """one job under a wall-clock budget: a symbolic run that does not end (a local iteration that no longer terminates after the expected
    number of steps keeps producing larger and larger iterates) is reported as inconclusive, never as a pass"""
    import signal

    def on_alarm(*a):
        raise _Budget()

    old = signal.signal(signal.SIGALRM, on_alarm)
    signal.alarm(JOB_BUDGET_S)
    try:
        return {"elastic": job_elastic, "inactive": job_inactive, "maxwell": job_maxwell, "spectral": job_spectral, "probe": job_probe, "simu": job_simu, "jacobian": job_jacobian}[cfg["kind"]](cfg)
    except _Budget:
        res = JobResult(cfg)
        res.inconclusive.append({"label": "job budget", "detail": f"symbolic run not finished after {JOB_BUDGET_S} s"})
        return res
    finally:
        signal.alarm(0)
        signal.signal(signal.SIGALRM, old)


def preflight(res, c, replay, label):
    """The concrete oracle of the job (the replay function) at the shadow point, on the unproxied float code, BEFORE the symbolic run: a
    failure there is already a replayed violation, and the symbolic run (whose local iterations may not terminate on such a tree) is skipped."""
    try:
        bad, info = replay(dict(c.shadow))
    except Exception as e:
        bad, info = True, {"raised": repr(e)[:300]}
    if bad:
        res.record(f"{label}: concrete run at the shadow point", Outcome("cex", env=dict(c.shadow), how="shadow"), lambda env: (bad, info), key=f"{label}: concrete run at the shadow point")
    return bad


def main():
    t0 = time.time()
    tier = harness.tier()
    configs = []
    modes = ["3D", "pstrain", "pstress"]
    for law in (["iso", "ti"] if tier == "quick" else ["iso", "iso2", "ti"]):
        for mode in modes:
            configs.append({"kind": "elastic", "law": law, "mode": mode})
            if law == "iso" and mode != "pstrain":
                configs.append({"kind": "elastic", "law": law, "mode": mode, "tiny": True})
    for mode in modes:
        configs.append({"kind": "maxwell", "law": "iso", "mode": mode, "branches": 1})
        configs.append({"kind": "maxwell", "law": "ti", "mode": mode, "branches": 2, "symbolic_branch": False})
    configs.append({"kind": "maxwell", "law": "iso", "mode": "3D", "branches": 1, "dt0": True})
    if tier == "thorough":
        for mode in modes:
            configs.append({"kind": "maxwell", "law": "ti", "mode": mode, "branches": 1})
            if mode != "pstress":  # two branches with symbolic g, tau under plane stress: the run does not end within the job budget
                configs.append({"kind": "maxwell", "law": "iso", "mode": mode, "branches": 2})
    inact = [("vm", "linear", None, "auto"), ("vm", "linear", None, "newton"), ("hill", "linear", None, "auto"), ("dp", "linear", None, "newton"), ("vm", "linear", "af", "auto"), ("vm", None, "chaboche", "auto")]
    for surf, hard, kin, solver in inact:
        for mode in (modes if tier == "thorough" or (surf, kin) in (("vm", None), ("vm", "af")) else ["3D"]):
            configs.append({"kind": "inactive", "law": "iso", "mode": mode, "surface": surf, "hardening": hard, "kinematic": kin, "solver": solver})
    # viscoplastic rate laws on steps below the surface (nothing flows: same elastic answer, no overstress needed)
    configs.append({"kind": "inactive", "law": "iso", "mode": "3D", "surface": "vm", "hardening": "linear", "kinematic": None, "solver": "auto", "rate": "norton"})
    configs.append({"kind": "inactive", "law": "iso", "mode": "pstress", "surface": "dp", "hardening": "linear", "kinematic": "af", "solver": "newton", "rate": "perzyna"})
    if tier == "thorough":
        configs.append({"kind": "inactive", "law": "iso", "mode": "pstrain", "surface": "hill", "hardening": "linear", "kinematic": None, "solver": "auto", "rate": "perzyna"})
        configs.append({"kind": "inactive", "law": "ti", "mode": "3D", "surface": "vm", "hardening": "linear", "kinematic": "chaboche", "solver": "auto", "rate": "norton"})
    if tier == "thorough":
        for surf, hard, kin, solver in inact[:4]:
            configs.append({"kind": "inactive", "law": "ti", "mode": "3D", "surface": surf, "hardening": hard, "kinematic": kin, "solver": solver})
    for mode in ["3D", "pstrain"]:
        for side in (-1, 1):
            configs.append({"kind": "spectral", "law": "iso", "mode": mode, "surface": "vm", "side": side})
    configs.append({"kind": "spectral", "law": "iso", "mode": "3D", "surface": "vm", "side": 1, "late": True})
    if tier == "thorough":
        configs.append({"kind": "spectral", "law": "iso", "mode": "3D", "surface": "hill", "side": 1})
        configs.append({"kind": "spectral", "law": "iso", "mode": "pstrain", "surface": "hill", "side": -1})
        configs.append({"kind": "spectral", "law": "iso2", "mode": "3D", "surface": "vm", "side": 1, "amp": 3})
        # not in the bound: the transversely isotropic law (its shadow step stays elastic inside the theta box) and a symbolic committed plastic
        # strain (the admissibility query comes back `unknown`)
    # local Jacobian / strain sensitivity of the general Newton = symbolic derivatives of its residual (every mechanism combination of the tier)
    jac = [("vm", "linear", None, 0, None), ("vm", "linear", "af", 0, None), ("dp", "linear", None, 0, "norton"), ("hill", "linear", "chaboche", 1, None), ("vm", None, "prager", 2, None), (None, None, None, 2, None)]
    if tier == "thorough":
        jac += [("hill", "linear", None, 0, "perzyna"), ("dp", "linear", "af", 1, "norton"), ("vm", "linear", "chaboche", 2, None), ("hill", None, None, 1, None)]
    for surf, hard, kin, nbr, rate in jac:
        for law_ in (["iso"] if tier == "quick" else ["iso", "ti"]):
            configs.append({"kind": "jacobian", "law": law_, "surface": surf, "hardening": hard, "kinematic": kin, "branches": nbr, "rate": rate})
    for seq in ("restore-save", "unsaved-solve", "restore-solve"):
        for mode in (["pstrain", "pstress"] if tier == "quick" else ["pstrain", "pstress", "3D"]):
            configs.append({"kind": "simu", "mode": mode, "seq": seq})
    probes = [("vm", "linear", None, "auto"), ("vm", "linear", "af", "auto"), ("hill", "linear", None, "auto"), ("dp", "linear", None, "newton")]
    for surf, hard, kin, solver in probes:
        for mode in (modes if tier == "thorough" or surf == "vm" else ["pstress"]):
            configs.append({"kind": "probe", "law": "iso", "mode": mode, "surface": surf, "hardening": hard, "kinematic": kin, "solver": solver})
    results = harness.run_jobs(job, configs)
    harness.finish(
        PID, results, t0=t0,
        explanation="Bounded symbolic execution + SMT of the real constitutive integration on the fragments where the local iteration can be executed symbolically: materials without internal variables, steps "
                    "inside the yield surface (zero local iterations), generalised Maxwell materials (linear local problem: one exact Newton step).  Strains, committed internal variables, time step and branch parameters are symbolic reals; "
                    "value-dependent decisions (activity test, convergence tests, abs / max) are executed concolically and recorded as path conditions; identities are closed by exact normal forms or z3.  "
                    "Plastic steps through the scalar spectral return: the Newton loop is abstracted by its exit condition (loop-carried theta havoc'd after the first real pass, the real residual and the real convergence "
                    "test evaluated on the fresh symbol, their outcome recorded), everything after the loop is the real code; Simulations.InElastic with a Maxwell material and symbolic load amplitudes for the commit discipline.  "
                    "'probe' jobs are concrete 100-step plastic paths (ground facts, no quantifier) for the configurations outside the symbolic bound.",
        bound={"elastic_laws": ["isotropic E=200 v=1/4", "isotropic E=70 v=0.3 (thorough)", "transversely isotropic with tilted axes"], "modes": modes, "surfaces": ["VonMises", "Hill (anisotropic coefficients)", "DruckerPrager"],
               "hardening": ["Linear"], "kinematic": ["ArmstrongFrederick", "Chaboche x2"], "rate_laws_on_inactive_steps": ["Norton", "Perzyna"], "Maxwell_branches": [1, 2], "gauss_points": 1,
               "strain_box": "[-1,1]^n (no yield surface) / [-1/400,1/400]^n with sigma_y = 10 (inactive steps) / [-1/4,1/4]^n on the active path (spectral jobs)", "steps": 1,
               "spectral_return": {"theta_star": "[0, 1/500] (theta lambda_max <= 1/2)", "H": "[0, 50]", "p": "[0, 1]", "surfaces": ["VonMises", "Hill (thorough)"], "modes": ["3D", "plane strain"],
                                   "exit_condition": "both signs of the residual (two jobs per configuration)"},
               "simulation": {"mesh": "tri4 / tetra2", "material": "one Maxwell branch", "load_amplitudes": "3 symbols in [-1,1]", "sequences": ["restore-save", "unsaved-solve"]},
               "probes": "one 100-step path per (surface, hardening, kinematic, mode, solver) configuration - ground facts"},
        symbolic=["strain", "committed plastic strain, accumulated plastic strain, back strains, branch strains", "time step", "branch stiffness fraction g and relaxation time tau",
                  "theta* (abstracted Newton iterate of the spectral return)", "hardening modulus H", "load amplitudes of the simulation jobs"],
        assumptions=["spectral jobs: the loop of _spectral.Solve is replaced by `any theta* >= 0 accepted by the real convergence test` (the clamp np.maximum(., 0) is assumed, exits through maxIter are outside); the consistent tangent of plastic steps is "
                     "evaluated exactly at the shadow point only (ground fact)", "simu jobs: linear solver of the global Newton iterations = ideal solver (exact elimination)",
                     "claims hold on the recorded path conditions (sign / ordering decisions of the convergence norms at the shadow point); the outputs are the same rational functions on every such region",
                     "plastic flow through the general local Newton (active points), rate laws, sub-stepping and MaterialPoint's stress-controlled loop are outside: nested Newton iterates are not encodable",
                     "elastic constants concrete", "real-number semantics over the exact binary constants (float round-off outside)"],
        source_files=["EasyFEA/Models/InElastic", "EasyFEA/Simulations/_inelastic.py"],
        rule="one job per (kind, elastic law, 3D / plane strain / plane stress, mechanisms, local solver); non-trivial = symbolic strain and state",
        exhaustive=False,
    )


if __name__ == "__main__":
    main()
