"""C19 - history-dependent material integration: the fragments the symbolic engine reaches.

What is decided here (DESIGN.md section 5, C19 - amended): the real `Behavior.Integrate` (with `Compute_strain_6d`, the plane-stress
iteration, `__Integrate_3d`, `__Flow` / `__Residual` / `__Jacobian` / `__Freeze` / `__Bound`, `__Spectral` + `_spectral.Solve` /
`Tangent`, `__Condense`) runs on symbolic strains, symbolic committed states and symbolic time step / branch parameters

* for a material WITHOUT internal variables (exactly linear elastic, equal to `Models.Elastic`'s 2-D law, no out-of-plane stress);
* on every step that stays inside the yield surface ('inactive' steps: unloading, reloading below the current surface, with arbitrary
  committed plastic strain / accumulated plastic strain / back strain): stress = C : (eps - eps_p), state unchanged, tangent elastic,
  both local solvers agree;
* for generalised Maxwell materials (the local problem is linear: the real Newton iteration terminates after ONE step with an exactly
  zero residual, so the loop is executed, not abstracted): backward-Euler update relation, stress formula, tangent = d sigma / d eps
  (symbolic differentiation of the returned stress, including through the plane-stress solve), non-negative dissipation, dt = 0;
* for plastic steps through the scalar spectral return with the Newton loop ABSTRACTED by its exit condition (jobs 'spectral'):
  see job_spectral;
* purity of `Integrate` on all of these (committed state and strain arrays unchanged, second call gives the same answer) and the
  commit discipline of `Simulations.InElastic` (jobs 'simu').

Outside (stated): the converged output of the general local Newton with plastic flow (`__Flow` with an active point: data-dependent
number of iterations, nested rational iterates), rate laws, the active-set logic beyond its first decision, `MaterialPoint`'s
stress-controlled outer loop.
"""

import time
from fractions import Fraction

import numpy as np

from engine import harness, smt, facade
from engine.harness import JobResult
from engine.oblig import prove_abs_le, prove_cond, Outcome
from engine.poly import Poly
from engine.sym import Sym, as_sym, ctx, new_context, _vid, Cond, sym_array, has_sym

PID = "C19"
IDX2 = [0, 1, 5]
ZZ = 2
TOL = Fraction(1, 10 ** 9)
JOB_BUDGET_S = 600


# ------------------------------------------------------------------------------------------------ helpers
def fval(c, env, s):
    return float(as_sym(s).eval({k: float(v) for k, v in {**c.shadow, **(env or {})}.items()}))


def farr(c, env, a):
    a = np.asarray(a, dtype=object)
    out = np.empty(a.shape)
    for idx in np.ndindex(*a.shape):
        out[idx] = fval(c, env, a[idx])
    return out


def elastic_law(name):
    from EasyFEA import Models

    if name == "iso":
        return Models.Elastic.Isotropic(3, E=200.0, v=0.25)
    if name == "iso2":
        return Models.Elastic.Isotropic(3, E=70.0, v=0.3)
    if name == "ti":
        return Models.Elastic.TransverselyIsotropic(3, 300.0, 120.0, 70.0, 0.2, 0.35, axis_l=(3 / 5, 4 / 5, 0), axis_t=(-4 / 5, 3 / 5, 0))
    raise ValueError(name)


def elastic_law_2d(name, planeStress):
    from EasyFEA import Models

    if name == "iso":
        return Models.Elastic.Isotropic(2, E=200.0, v=0.25, planeStress=planeStress)
    if name == "iso2":
        return Models.Elastic.Isotropic(2, E=70.0, v=0.3, planeStress=planeStress)
    if name == "ti":
        return Models.Elastic.TransverselyIsotropic(2, 300.0, 120.0, 70.0, 0.2, 0.35, axis_l=(3 / 5, 4 / 5, 0), axis_t=(-4 / 5, 3 / 5, 0), planeStress=planeStress)
    raise ValueError(name)


def mode_args(mode):
    """(dim, planeStress)"""
    return {"3D": (3, False), "pstrain": (2, False), "pstress": (2, True)}[mode]


def exactC(C):
    """the float matrix as an object matrix of exact rationals"""
    C = np.asarray(C, dtype=float)
    out = np.empty(C.shape, dtype=object)
    for idx in np.ndindex(*C.shape):
        out[idx] = Fraction(float(C[idx]))
    return out


def matvec(M, v):
    return np.array([sum((M[i, j] * v[j] for j in range(len(v))), 0) for i in range(M.shape[0])], dtype=object)


def record_entries(res, label, got, want, pcs, replay, tol=0, key=None, scale=1, sample=None):
    """got == want entrywise (|.| <= tol*scale)"""
    got = np.asarray(got, dtype=object)
    want = np.asarray(want, dtype=object)
    if got.shape != want.shape:
        res.record(label, Outcome("cex", env={}, how="structure", detail=f"shape {got.shape} vs {want.shape}"), replay, key=key or label)
        return
    worst = None
    how = {}
    # cheap first: both sides evaluated at the shadow point (which satisfies the path condition by construction); a difference there is
    # already the candidate counterexample, without forming the normal form of the difference (huge when the two sides disagree)
    c = ctx()
    envf = dict(c.shadow)
    for idx in np.ndindex(*got.shape):
        try:
            dv = as_sym(got[idx]).eval(envf) - as_sym(want[idx]).eval(envf)
        except ZeroDivisionError:
            continue
        aux = any(c.kind.get(v) == "aux" for v in (as_sym(got[idx]).vars() | as_sym(want[idx]).vars()))
        if abs(dv) > Fraction(tol) * scale + (Fraction(1, 10 ** 7) * (1 + abs(dv)) if aux else 0):
            res.record(label, Outcome("cex", env=envf, how="shadow", detail=f"entry {idx}: |difference| = {float(abs(dv)):.6g} at the shadow point"), replay, key=key or label)
            return
    for idx in np.ndindex(*got.shape):
        o = prove_abs_le(as_sym(got[idx]) - as_sym(want[idx]), Fraction(tol) * scale, pcs, label, timeout_ms=30000)
        how[o.how] = how.get(o.how, 0) + 1
        if o.status != "held":
            worst = o
            break
    best = max(how, key=how.get) if how else "normal-form"
    res.record(label, worst or Outcome("held", how=best), replay, key=key or label, sample=sample)


def spd_exact(M):
    """exact LDL^T of a rational symmetric matrix: True iff positive definite"""
    n = M.shape[0]
    A = [[Fraction(M[i, j]) for j in range(n)] for i in range(n)]
    for k in range(n):
        if A[k][k] <= 0:
            return False
        for i in range(k + 1, n):
            f = A[i][k] / A[k][k]
            for j in range(k, n):
                A[i][j] -= f * A[k][j]
    return True


def num_tangent(fun, eps, h=1e-6):
    """central finite differences of fun(eps) -> vector"""
    n = len(eps)
    cols = []
    for j in range(n):
        e1, e2 = eps.copy(), eps.copy()
        e1[j] += h
        e2[j] -= h
        cols.append((fun(e1) - fun(e2)) / (2 * h))
    return np.array(cols).T


def fe(a):
    from EasyFEA.FEM import FeArray

    return FeArray.asfearray(np.asarray(a)[None, None])


# ------------------------------------------------------------------------------------------------ no internal variables
def job_elastic(cfg):
    """A behavior without internal variables is exactly linear elastic (and equals Models.Elastic's 2-D law)."""
    from EasyFEA.Models.InElastic import Behavior

    res = JobResult(cfg)
    c = new_context()
    facade.install()
    law, mode = cfg["law"], cfg["mode"]
    dim, ps = mode_args(mode)
    n = 6 if dim == 3 else 3
    el = elastic_law(law)
    C6 = exactC(el.C)
    scale = Fraction(float(np.abs(el.C).max()))
    eps = sym_array("eps", (n,), -1, 1)
    res.symbols = n
    label = f"no internal variables {law} {mode}"
    res.functions |= {"Behavior.__init__", "Behavior.Integrate", "Behavior.Compute_strain_6d", "Behavior.__Plane_stress_strain", "Behavior.__Integrate_3d", "Behavior.Compute_sigma",
                      "Behavior.Compute_elastic_strain", "Behavior.__Condense", "Behavior.Compute_stress"}
    def replay(env):
        ef = farr(c, env, eps)
        bb = Behavior(dim, el, planeStress=ps)
        s, Ca, zz, cv = bb.Integrate(fe(ef))
        s, Ca = np.asarray(s)[0, 0], np.asarray(Ca)[0, 0]
        Cr = np.asarray(el.C if dim == 3 else elastic_law_2d(law, ps).C, dtype=float)
        errs = {"stress": float(np.abs(s - Cr @ ef).max() / float(scale)), "tangent": float(np.abs(Ca - Cr).max() / float(scale)), "state_size": int(np.asarray(zz).shape[-1]),
                "compute_stress": float(np.abs(np.asarray(bb.Compute_stress(fe(ef)))[0, 0] - Cr @ ef).max() / float(scale))}
        if ps:
            e6 = np.asarray(bb.Compute_strain_6d(fe(ef)))[0, 0]
            errs["sig_zz"] = float(abs((np.asarray(el.C) @ e6)[ZZ]) / float(scale))
        bad = max(errs["stress"], errs["tangent"], errs["compute_stress"], errs.get("sig_zz", 0)) > 5e-10 or errs["state_size"] != 0
        return bad, {"eps": ef.tolist(), **errs}

    if preflight(res, c, replay, label):
        return res
    mark = c.mark()
    with facade.symbolic():
        b = Behavior(dim, el, planeStress=ps)
        e_in = fe(eps.copy())
        sig, Calg, z, conv = b.Integrate(e_in)
        sig2 = b.Compute_stress(fe(eps.copy()))
    pcs = c.pc_since(mark)
    res.paths, res.path_conditions = 1, len(pcs)
    sig, Calg, sig2 = np.asarray(sig)[0, 0], np.asarray(Calg)[0, 0], np.asarray(sig2)[0, 0]
    # oracle: the closed-form 2-D / 3-D law of the same material written in Models.Elastic (checked on its own under C11)
    Cref = exactC(el.C if dim == 3 else elastic_law_2d(law, ps).C)


    record_entries(res, f"{label}: stress = C : eps (the closed-form law of Models.Elastic)", sig, matvec(Cref, eps), pcs, replay, TOL, scale=scale,
                   sample={"obligation": "for all strains in [-1,1]^n: |Integrate(eps).sigma - C_ref eps| <= 1e-9 |C|", "config": cfg})
    record_entries(res, f"{label}: tangent = C", Calg, Cref, pcs, replay, TOL, scale=scale)
    record_entries(res, f"{label}: Compute_stress = Integrate", sig2, sig, pcs, replay, TOL, scale=scale)
    ok = np.asarray(z).shape[-1] == 0 and bool(np.asarray(conv).all())
    res.record(f"{label}: empty state, converged", Outcome("held", how="ground-exact") if ok else Outcome("cex", env=dict(c.shadow), how="structure"), replay)
    if ps:
        with facade.symbolic():
            e6 = np.asarray(b.Compute_strain_6d(fe(eps.copy())))[0, 0]
        record_entries(res, f"{label}: no out-of-plane stress", [matvec(C6, e6)[ZZ]], [0], c.pc_since(mark), replay, TOL, scale=scale)
        record_entries(res, f"{label}: in-plane and out-of-plane shear strains kept", e6[[0, 1, 5, 3, 4]], list(eps) + [0, 0], c.pc_since(mark), replay, 0)
    o = prove_abs_le(as_sym(sig[0]) - 2 * as_sym(matvec(Cref, eps)[0]), TOL * scale, pcs, "twin")
    res.twin(f"{label} twin", o.status == "cex")
    res.stubs |= facade.USED_STUBS
    return res


# ------------------------------------------------------------------------------------------------ inactive steps
def make_surface(name):
    from EasyFEA.Models.InElastic import Yield

    if name == "vm":
        return Yield.VonMises(10.0)
    if name == "hill":
        return Yield.Hill(10.0, F=0.4, G=0.55, H=0.6, L=1.4, M=1.7, N=1.2)
    if name == "dp":
        return Yield.DruckerPrager(10.0, 0.125)
    raise ValueError(name)


def make_behavior(cfg, el, dim, ps, solver, g=None, tau=None):
    from EasyFEA.Models.InElastic import Behavior, IsotropicHardening, KinematicHardening, ViscoElastic

    kw = {}
    if cfg.get("surface"):
        kw["yieldSurface"] = make_surface(cfg["surface"])
        if cfg.get("hardening") == "linear":
            kw["hardening"] = IsotropicHardening.Linear(5.0)
        if cfg.get("kinematic") == "prager":
            kw["kinematic"] = KinematicHardening.Prager(12.0)
        elif cfg.get("kinematic") == "af":
            kw["kinematic"] = KinematicHardening.ArmstrongFrederick(12.0, 3.0)
        elif cfg.get("kinematic") == "chaboche":
            kw["kinematic"] = KinematicHardening.Chaboche((12.0, 3.0), (4.0, 0.0))
    if g is not None:
        kw["branches"] = [ViscoElastic.Maxwell(gi, ti) for gi, ti in zip(g, tau)]
    return Behavior(dim, el, planeStress=ps, solver=solver, **kw)


def job_inactive(cfg):
    """A step that stays inside the current yield surface: elastic response about the committed state, state unchanged."""
    res = JobResult(cfg)
    c = new_context()
    facade.install()
    law, mode, solver = cfg["law"], cfg["mode"], cfg["solver"]
    dim, ps = mode_args(mode)
    n = 6 if dim == 3 else 3
    el = elastic_law(law)
    C6 = exactC(el.C)
    scale = Fraction(float(np.abs(el.C).max()))
    nk = {"prager": 1, "af": 1, "chaboche": 2}.get(cfg.get("kinematic"), 0)
    # strains and committed state small against sigma_y / |C| so that the trial state is inside the surface on the whole box
    r = Fraction(1, 400)
    eps = sym_array("eps", (n,), -r, r, shadows=[Fraction(k + 1, 1000 + 37 * k) * (-1) ** k for k in range(n)])
    epsP = sym_array("epsP", (6,), -r, r, shadows=[Fraction(k + 2, 1700 + 91 * k) * (-1) ** (k + 1) for k in range(6)])
    p = c.var("p", 0, 1, shadow=Fraction(3, 10))
    alphas = [sym_array(f"alpha{i}", (6,), -r, r, shadows=[Fraction(k + 1, 2300 + 53 * k + 400 * i) * (-1) ** k for k in range(6)]) for i in range(nk)]
    res.symbols = n + 7 + 6 * nk
    zold = np.concatenate([epsP, [p]] + alphas)
    label = f"inactive {cfg['surface']} {cfg.get('hardening')} kin={cfg.get('kinematic')} {law} {mode} solver={solver}"
    res.functions |= {"Behavior.Integrate", "Behavior.__Integrate_3d", "Behavior.__Flow", "Behavior.__Residual", "Behavior.__Jacobian", "Behavior.__Freeze", "Behavior.__Pin", "Behavior.__Norm",
                      "Behavior.__Converged", "Behavior.__Bound", "Behavior.__Spectral", "_spectral.Solve", "_spectral._Phi", "_spectral.Tangent", "Behavior.__Condense", "Behavior.Compute_back_stress",
                      "Yield.VonMises / Hill / DruckerPrager (f, N, dNdSig)", "IsotropicHardening.Linear", "KinematicHardening.ArmstrongFrederick"}
    if dim == 3:
        Cwant = C6
    elif not ps:
        Cwant = C6[np.ix_(IDX2, IDX2)]
    else:
        # plane stress: the in-plane stiffness is the inverse of the in-plane compliance (independent of the code's condensation formula)
        S = np.linalg.inv(np.asarray(el.C, dtype=float))
        Cwant = exactC(np.linalg.inv(S[np.ix_(IDX2, IDX2)]))

    def run_float(env, solver_=solver):
        ef, zf = farr(c, env, eps), farr(c, env, zold)
        bb = make_behavior(cfg, el, dim, ps, solver_)
        zin = fe(zf.copy())
        s, Ca, zz, cv = bb.Integrate(fe(ef), zin, 0.0)
        e6f = np.asarray(bb.Compute_strain_6d(fe(ef), fe(zf.copy()), 0.0))[0, 0]
        return ef, zf, np.asarray(s)[0, 0], np.asarray(Ca)[0, 0], np.asarray(zz)[0, 0], np.asarray(zin)[0, 0], e6f

    def replay(env):
        ef, zf, s, Ca, zz, zin, e6f = run_float(env)
        Cf = np.asarray(el.C, dtype=float)
        s6 = Cf @ (e6f - zf[:6])
        want = s6 if dim == 3 else s6[IDX2]
        errs = {"stress": float(np.abs(s - want).max() / float(scale)), "state_changed": float(np.abs(zz - zf).max()), "tangent": float(np.abs(Ca - np.array(Cwant, dtype=float)).max() / float(scale)),
                "committed_state_written": float(np.abs(zin - zf).max())}
        if ps:
            errs["sig_zz"] = float(abs(s6[ZZ]) / float(scale))
        if solver == "auto":
            _, _, s_n, Ca_n, zz_n, _, _ = run_float(env, "newton")
            errs["solvers_differ"] = float(max(np.abs(s - s_n).max() / float(scale), np.abs(zz - zz_n).max(), np.abs(Ca - Ca_n).max() / float(scale)))
        bad = max(errs["stress"], errs["tangent"], errs.get("sig_zz", 0), errs.get("solvers_differ", 0)) > 5e-10 or errs["state_changed"] > 1e-12 or errs["committed_state_written"] > 0
        return bad, {"eps": ef.tolist(), "zOld": zf.tolist(), **errs}

    if preflight(res, c, replay, label):
        return res
    mark = c.mark()
    with facade.symbolic():
        b = make_behavior(cfg, el, dim, ps, solver)
        z_in = fe(zold.copy())
        e_in = fe(eps.copy())
        keep_z = np.array(np.asarray(z_in), dtype=object, copy=True)
        sig, Calg, z, conv = b.Integrate(e_in, z_in, 0.0)
        e6 = np.asarray(b.Compute_strain_6d(fe(eps.copy()), fe(zold.copy()), 0.0))[0, 0]
    pcs = c.pc_since(mark)
    res.paths, res.path_conditions = 1, len(pcs)
    sig, Calg, z = np.asarray(sig)[0, 0], np.asarray(Calg)[0, 0], np.asarray(z)[0, 0]
    spectral = solver == "auto" and cfg["surface"] in ("vm", "hill") and nk == 0
    tol = TOL  # float round-off of T Ti, C^-1 C (spectral) and of the plane-stress division
    sig6 = matvec(C6, e6 - epsP)
    want_sig = sig6 if dim == 3 else sig6[IDX2]

    record_entries(res, f"{label}: stress = C : (eps - eps_p)", sig, want_sig, pcs, replay, tol, scale=scale * r,
                   sample={"obligation": "for all strains / committed states in the box with the trial state inside the surface (recorded path condition): |sigma - C (eps6 - eps_p)| <= 1e-9 |C| r", "config": cfg})
    record_entries(res, f"{label}: state unchanged", z, zold, pcs, replay, tol if spectral else 0, scale=1 if spectral else 1, key=f"{label}: state unchanged")
    record_entries(res, f"{label}: tangent elastic", Calg, Cwant, pcs, replay, tol, scale=scale)
    if ps:
        record_entries(res, f"{label}: no out-of-plane stress", [sig6[ZZ]], [0], pcs, replay, tol, scale=scale * r)
    # purity: the committed state handed in is not written
    same = all(as_sym(a).structurally_equal(as_sym(b_)) for a, b_ in zip(np.asarray(z_in)[0, 0], keep_z[0, 0]))
    res.record(f"{label}: committed state not written", Outcome("held", how="normal-form") if same else Outcome("cex", env=dict(c.shadow), how="structure"), replay)
    if solver == "auto" and spectral:
        with facade.symbolic():
            bn = make_behavior(cfg, el, dim, ps, "newton")
            sn, Cn, zn, _ = bn.Integrate(fe(eps.copy()), fe(zold.copy()), 0.0)
        pcs2 = c.pc_since(mark)
        record_entries(res, f"{label}: spectral and Newton solvers agree (stress)", sig, np.asarray(sn)[0, 0], pcs2, replay, tol, scale=scale * r)
        record_entries(res, f"{label}: spectral and Newton solvers agree (tangent)", Calg, np.asarray(Cn)[0, 0], pcs2, replay, tol, scale=scale)
    # the trial state really was inside (reachability of the inactive branch): some recorded condition mentions the hardening variable or the strain
    o = prove_abs_le(as_sym(sig[0]) - 2 * as_sym(want_sig[0]), tol * scale * r, pcs, "twin")
    res.twin(f"{label} twin", o.status == "cex")
    res.stubs |= facade.USED_STUBS
    return res


# ------------------------------------------------------------------------------------------------ Maxwell branches
def job_maxwell(cfg):
    """Generalised Maxwell material: the real local Newton ends after one step with a zero residual (linear problem)."""
    res = JobResult(cfg)
    c = new_context()
    facade.install()
    law, mode, nb = cfg["law"], cfg["mode"], cfg["branches"]
    dim, ps = mode_args(mode)
    n = 6 if dim == 3 else 3
    el = elastic_law(law)
    C6 = exactC(el.C)
    scale = Fraction(float(np.abs(el.C).max()))
    dt0 = cfg.get("dt0", False)
    if dt0:
        dt = 0.0
    else:
        dt = c.var("dt", Fraction(1, 100), 10, shadow=Fraction(1, 2))
    if cfg.get("symbolic_branch", True):
        g = [c.var(f"g{i}", Fraction(1, 100), Fraction(2, 5), shadow=Fraction(3 + i, 10 + 3 * i)) for i in range(nb)]
        tau = [c.var(f"tau{i}", Fraction(1, 100), 10, shadow=Fraction(2 + 3 * i, 1 + i)) for i in range(nb)]
    else:
        g = [0.25, 0.375][:nb]
        tau = [2.0, 0.5][:nb]
    eps = sym_array("eps", (n,), -1, 1)
    ev = [sym_array(f"epsv{i}", (6,), -1, 1, shadows=[Fraction((-1) ** (k + i) * (k + 2), 9 + 2 * k + 5 * i) for k in range(6)]) for i in range(nb)]
    zold = np.concatenate(ev)
    res.symbols = n + 6 * nb + (0 if dt0 else 1) + (2 * nb if cfg.get("symbolic_branch", True) else 0)
    label = f"Maxwell x{nb} {law} {mode}" + (" dt=0" if dt0 else "") + ("" if cfg.get("symbolic_branch", True) else " concrete branches")
    res.functions |= {"Behavior.__init__", "Behavior.Integrate", "Behavior.Compute_strain_6d", "Behavior.__Plane_stress_strain", "Behavior.__Integrate_3d", "Behavior.__Flow", "Behavior.__Residual",
                      "Behavior.__Jacobian", "Behavior.__Freeze", "Behavior.__Norm", "Behavior.__Converged", "Behavior.__Bound", "Behavior.Compute_sigma", "Behavior.__Condense", "ViscoElastic.Maxwell"}
    def run_float(envf, ef=None):
        ef = farr(c, envf, eps) if ef is None else ef
        zf = farr(c, envf, zold)
        gf = [fval(c, envf, x) for x in g]
        tf = [fval(c, envf, x) for x in tau]
        dtf = fval(c, envf, dt)
        bb = make_behavior({}, el, dim, ps, "auto", g=gf, tau=tf)
        zin = fe(zf.copy())
        s, Ca, zz, cv = bb.Integrate(fe(ef), zin, dtf)
        return ef, zf, gf, tf, dtf, np.asarray(s)[0, 0], np.asarray(Ca)[0, 0], np.asarray(zz)[0, 0], np.asarray(zin)[0, 0]

    def replay(env):
        ef, zf, gf, tf, dtf, s, Ca, zz, zin = run_float(env)
        Cf = np.asarray(el.C, dtype=float)
        errs = {}
        # strain seen by the material, rebuilt from branch 0's update relation where the code does not return it
        d0 = zz[:6] - zf[:6]
        e6 = np.zeros(6)
        if dim == 3:
            e6 = ef.copy()
        else:
            e6[IDX2] = ef
            if ps:
                e6[ZZ] = zz[ZZ] + (tf[0] / dtf) * d0[ZZ] if dtf > 0 else 0.0
        upd = 0.0
        s6 = Cf @ e6
        diss = 0.0
        for i in range(nb):
            zi, zo = zz[6 * i:6 * i + 6], zf[6 * i:6 * i + 6]
            upd = max(upd, float(np.abs((zi - zo) * tf[i] - dtf * (e6 - zi)).max()))
            s6 = s6 - gf[i] * (Cf @ zi)
            diss += gf[i] * float((e6 - zi) @ Cf @ (zi - zo))
        want = s6 if dim == 3 else s6[IDX2]
        errs["update_relation"] = upd
        errs["stress"] = float(np.abs(s - want).max() / float(scale))
        if ps and dtf > 0:
            errs["sig_zz"] = float(abs(s6[ZZ]) / float(scale))
        Cn = num_tangent(lambda e: run_float(env, e)[5], ef)
        errs["tangent_vs_finite_differences"] = float(np.abs(Ca - Cn).max() / float(scale))
        errs["dissipation"] = diss
        errs["committed_state_written"] = float(np.abs(zin - zf).max())
        bad = (errs["update_relation"] > 1e-9 and not (ps and dtf == 0)) or errs["stress"] > 1e-9 or errs.get("sig_zz", 0) > 1e-9 or errs["tangent_vs_finite_differences"] > 1e-6 or diss < -1e-9 * float(scale) or errs["committed_state_written"] > 0
        return bad, {"eps": ef.tolist(), "zOld": zf.tolist(), "g": gf, "tau": tf, "dt": dtf, **errs}

    if preflight(res, c, replay, label):
        return res
    mark = c.mark()
    with facade.symbolic():
        b = make_behavior({}, el, dim, ps, "auto", g=g, tau=tau)
        z_in = fe(zold.copy())
        keep_z = np.array(np.asarray(z_in), dtype=object, copy=True)
        e_in = fe(eps.copy())
        sig, Calg, z, conv = b.Integrate(e_in, z_in, dt)
        sigB, CalgB, zB, _ = b.Integrate(fe(eps.copy()), fe(zold.copy()), dt)  # second call, same arguments
    pcs = c.pc_since(mark)
    res.paths, res.path_conditions = 1, len(pcs)
    sig, Calg, z = np.asarray(sig)[0, 0], np.asarray(Calg)[0, 0], np.asarray(z)[0, 0]
    zn = [z[6 * i:6 * i + 6] for i in range(nb)]


    # strain seen by the material
    e6 = np.zeros(6, dtype=object)
    if dim == 3:
        e6[:] = eps
    else:
        e6[IDX2] = eps
        if ps:
            with facade.symbolic():
                e6 = np.asarray(b.Compute_strain_6d(fe(eps.copy()), fe(zold.copy()), dt))[0, 0]
            record_entries(res, f"{label}: in-plane strain kept, out-of-plane shear zero", e6[[0, 1, 5, 3, 4]], list(eps) + [0, 0], pcs, replay, 0)
    pcs = c.pc_since(mark)
    # M1 backward-Euler update of every branch: tau (eps_v - eps_v_old) = dt (eps6 - eps_v)
    for i in range(nb):
        lhs = (zn[i] - ev[i]) * tau[i]
        rhs = (e6 - zn[i]) * dt
        record_entries(res, f"{label}: branch {i} update relation tau d(eps_v) = dt (eps - eps_v)", lhs, rhs, pcs, replay, 0,
                       sample={"obligation": "for all eps, eps_v_old, dt, g, tau: tau_i (eps_v_i_new - eps_v_i_old) = dt (eps6 - eps_v_i_new) exactly (normal form / QF_NRA)", "config": cfg} if i == 0 else None)
    # M2 stress
    s6 = matvec(C6, e6)
    for i in range(nb):
        s6 = s6 - matvec(C6, zn[i]) * g[i]
    want = s6 if dim == 3 else s6[IDX2]
    record_entries(res, f"{label}: stress = C : eps - sum g_i C : eps_v_i", sig, want, pcs, replay, 0)
    if ps:
        record_entries(res, f"{label}: no out-of-plane stress", [s6[ZZ]], [0], pcs, replay, 0)
    # M3 tangent = d sigma / d eps of the returned stress (through the state update and, in plane stress, through eps_zz)
    if not dt0 or True:
        D = np.empty((n, n), dtype=object)
        for i in range(n):
            for j in range(n):
                D[i, j] = as_sym(sig[i]).diff(eps[j])
        record_entries(res, f"{label}: tangent = d sigma / d eps", Calg, D, pcs, replay, 0, key=f"{label}: tangent = d sigma / d eps",
                       sample={"obligation": "the returned algorithmic tangent equals the symbolic derivative of the returned stress w.r.t. the strain (total derivative), entrywise, exactly", "config": cfg})
    # M4 dissipation: sum_i g_i (eps6 - eps_v_i) : C : d(eps_v_i) >= 0.  With M1 it equals sum_i g_i (tau_i/dt) d(eps_v_i) : C : d(eps_v_i); C SPD (exact LDL^T).
    if not dt0:
        diss = 0
        quad = 0
        for i in range(nb):
            di = zn[i] - ev[i]
            diss = diss + g[i] * sum(((e6 - zn[i])[k] * matvec(C6, di)[k] for k in range(6)), 0)
            quad = quad + g[i] * tau[i] * sum((di[k] * matvec(C6, di)[k] for k in range(6)), 0)
        record_entries(res, f"{label}: dissipation dt D = sum g_i tau_i d(eps_v_i):C:d(eps_v_i)", [diss * dt], [quad], pcs, replay, 0, key=f"{label}: dissipation non-negative")
        okC = spd_exact(C6)
        res.record(f"{label}: C positive definite (exact LDL^T), g_i, tau_i, dt > 0 -> dissipation >= 0", Outcome("held", how="ground-exact") if okC else Outcome("cex", env=dict(c.shadow), how="structure"), replay,
                   key=f"{label}: dissipation non-negative")
    # M5 purity and determinism
    same = all(as_sym(a).structurally_equal(as_sym(b_)) for a, b_ in zip(np.asarray(z_in)[0, 0], keep_z[0, 0])) and all(as_sym(a).structurally_equal(as_sym(b_)) for a, b_ in zip(np.asarray(e_in)[0, 0], eps))
    res.record(f"{label}: committed state and strain not written", Outcome("held", how="normal-form") if same else Outcome("cex", env=dict(c.shadow), how="structure"), replay)
    record_entries(res, f"{label}: a second call with the same arguments gives the same stress", np.asarray(sigB)[0, 0], sig, pcs, replay, 0)
    record_entries(res, f"{label}: a second call with the same arguments gives the same state", np.asarray(zB)[0, 0], z, pcs, replay, 0)
    if dt0:
        record_entries(res, f"{label}: dt = 0 leaves the branches where they were", z, zold, pcs, replay, 0)
    o = prove_abs_le(as_sym(Calg[0, 0]) - 2 * D[0, 0], 0, pcs, "twin")
    res.twin(f"{label} twin", o.status == "cex")
    res.stubs |= facade.USED_STUBS
    return res


class _Budget(Exception):
    pass


def job(cfg):
    """one job under a wall-clock budget: a symbolic run that does not end (a local iteration that no longer terminates after the expected
    number of steps keeps producing larger and larger iterates) is reported as inconclusive, never as a pass"""
    import signal

    def on_alarm(*a):
        raise _Budget()

    old = signal.signal(signal.SIGALRM, on_alarm)
    signal.alarm(JOB_BUDGET_S)
    try:
        return {"elastic": job_elastic, "inactive": job_inactive, "maxwell": job_maxwell}[cfg["kind"]](cfg)
    except _Budget:
        res = JobResult(cfg)
        res.inconclusive.append({"label": "job budget", "detail": f"symbolic run not finished after {JOB_BUDGET_S} s"})
        return res
    finally:
        signal.alarm(0)
        signal.signal(signal.SIGALRM, old)


def preflight(res, c, replay, label):
    """The concrete oracle of the job (the replay function) at the shadow point, on the unproxied float code, BEFORE the symbolic run: a
    failure there is already a replayed violation, and the symbolic run (whose local iterations may not terminate on such a tree) is skipped."""
    try:
        bad, info = replay(dict(c.shadow))
    except Exception as e:
        bad, info = True, {"raised": repr(e)[:300]}
    if bad:
        res.record(f"{label}: concrete run at the shadow point", Outcome("cex", env=dict(c.shadow), how="shadow"), lambda env: (bad, info), key=f"{label}: concrete run at the shadow point")
    return bad


def main():
    t0 = time.time()
    tier = harness.tier()
    configs = []
    modes = ["3D", "pstrain", "pstress"]
    for law in (["iso", "ti"] if tier == "quick" else ["iso", "iso2", "ti"]):
        for mode in modes:
            configs.append({"kind": "elastic", "law": law, "mode": mode})
    for mode in modes:
        configs.append({"kind": "maxwell", "law": "iso", "mode": mode, "branches": 1})
        configs.append({"kind": "maxwell", "law": "ti", "mode": mode, "branches": 2, "symbolic_branch": False})
    configs.append({"kind": "maxwell", "law": "iso", "mode": "3D", "branches": 1, "dt0": True})
    if tier == "thorough":
        for mode in modes:
            configs.append({"kind": "maxwell", "law": "ti", "mode": mode, "branches": 1})
            configs.append({"kind": "maxwell", "law": "iso", "mode": mode, "branches": 2})
    inact = [("vm", "linear", None, "auto"), ("vm", "linear", None, "newton"), ("hill", "linear", None, "auto"), ("dp", "linear", None, "newton"), ("vm", "linear", "af", "auto"), ("vm", None, "chaboche", "auto")]
    for surf, hard, kin, solver in inact:
        for mode in (modes if tier == "thorough" or (surf, kin) in (("vm", None), ("vm", "af")) else ["3D"]):
            configs.append({"kind": "inactive", "law": "iso", "mode": mode, "surface": surf, "hardening": hard, "kinematic": kin, "solver": solver})
    if tier == "thorough":
        for surf, hard, kin, solver in inact[:4]:
            configs.append({"kind": "inactive", "law": "ti", "mode": "3D", "surface": surf, "hardening": hard, "kinematic": kin, "solver": solver})
    results = harness.run_jobs(job, configs)
    harness.finish(
        PID, results, t0=t0,
        explanation="Bounded symbolic execution + SMT of the real constitutive integration on the fragments where the local iteration can be executed symbolically: materials without internal variables, steps "
                    "inside the yield surface (zero local iterations), generalised Maxwell materials (linear local problem: one exact Newton step).  Strains, committed internal variables, time step and branch parameters are symbolic reals; "
                    "value-dependent decisions (activity test, convergence tests, abs / max) are executed concolically and recorded as path conditions; identities are closed by exact normal forms or z3.",
        bound={"elastic_laws": ["isotropic E=200 v=1/4", "isotropic E=70 v=0.3 (thorough)", "transversely isotropic with tilted axes"], "modes": modes, "surfaces": ["VonMises", "Hill (anisotropic coefficients)", "DruckerPrager"],
               "hardening": ["Linear"], "kinematic": ["ArmstrongFrederick", "Chaboche x2"], "Maxwell_branches": [1, 2], "gauss_points": 1,
               "strain_box": "[-1,1]^n (no yield surface) / [-1/400,1/400]^n with sigma_y = 10 (inactive steps)", "steps": 1},
        symbolic=["strain", "committed plastic strain, accumulated plastic strain, back strains, branch strains", "time step", "branch stiffness fraction g and relaxation time tau"],
        assumptions=["claims hold on the recorded path conditions (sign / ordering decisions of the convergence norms at the shadow point); the outputs are the same rational functions on every such region",
                     "plastic flow through the general local Newton (active points), rate laws, sub-stepping and MaterialPoint's stress-controlled loop are outside: nested Newton iterates are not encodable",
                     "elastic constants concrete", "real-number semantics over the exact binary constants (float round-off outside)"],
        source_files=["EasyFEA/Models/InElastic", "EasyFEA/Simulations/_inelastic.py"],
        rule="one job per (kind, elastic law, 3D / plane strain / plane stress, mechanisms, local solver); non-trivial = symbolic strain and state",
        exhaustive=False,
    )


if __name__ == "__main__":
    main()
