"""C03 - assembly is the exact scatter-add of element contributions, for any numbering and any history.

Every entry of every element matrix / vector is a fresh symbol (real and imaginary part for the complex
case).  The real `_Simu.Assembly` / `__Assemble_csr` / `__Get_csr_map` / `Get_rows_e` / `Get_columns_e` /
`Get_assembly_e` are executed on these symbols; each global entry must equal the oracle
`sum_{e,i,j : dof(e,i)=r, dof(e,j)=c} a_{e,i,j}` with `dof(e, n*dof_n+d) = connect[e,n]*dof_n + d` -
a linear identity in the symbols (tolerance 0), deciding "nothing dropped, duplicated or misplaced" for all
values at once.  Histories of assemblies interleaved with pattern-key changes take the cache-reuse paths.
"""

import itertools
import random
import time
from fractions import Fraction

import numpy as np

from engine import harness, smt, facade
from engine.harness import JobResult
from engine.oblig import prove_abs_le, Outcome
from engine.poly import Poly
from engine.sym import Sym, CSym, as_sym, ctx, new_context, _vid, Cond, sym_array
from checks import simlib

PID = "C03"
OPS = ["A", "L", "G", "M", "D", "B", "I"]
OP_DOC = {"A": "re-assemble with new symbols", "L": "add a Lagrange condition (changes Ndof)", "G": "a group stops/starts contributing to M (slot None)",
          "M": "replace the mesh", "D": "change dofs per node", "B": "a boundary group starts/stops contributing (user subclass)"}


IMAG_SCALE = [Fraction(1)]  # per job: range of the imaginary parts ('tiny imaginary part' configurations: 2^-40, a lightly damped / small-unit problem)


def fresh_mats(simu, tag, complex_=False, drop_M=(), F_flat=False):
    """fresh symbols for every active group of the simulation"""
    c = ctx()
    dof_n = simu.Get_dof_n()
    groups = simu.groups if simu.groups is not None else simu.mesh.Get_list_groupElem()
    for g in groups:
        nd = g.nPe * dof_n

        def arr(name, shape):
            a = sym_array(f"{tag}{g.elemType}{name}", shape)
            if complex_:
                b = sym_array(f"{tag}{g.elemType}{name}i", shape, -IMAG_SCALE[0], IMAG_SCALE[0])
                out = np.empty(shape, dtype=object)
                for idx in np.ndindex(*shape):
                    out[idx] = CSym(a[idx], b[idx])
                return out
            return a

        K = arr("K", (g.Ne, nd, nd))
        C = arr("C", (g.Ne, nd, nd))
        M = None if g.elemType in drop_M else arr("M", (g.Ne, nd, nd))
        F = arr("F", (g.Ne, nd) if F_flat else (g.Ne, nd, 1))
        simu.mats[g.elemType] = (K, C, M, F)


def inplace_mats(simu, tag, complex_=False):
    """operation 'I': the element arrays handed out at the previous assembly are UPDATED IN PLACE with fresh symbols (same ndarray objects,
    new values) - what a user subclass that keeps its element arrays does between two assemblies"""
    for et, mats in simu.mats.items():
        for name, X in zip("KCMF", mats):
            if X is None:
                continue
            a = sym_array(f"{tag}{et}{name}", X.shape)
            if complex_:
                b = sym_array(f"{tag}{et}{name}i", X.shape)
                for idx in np.ndindex(*X.shape):
                    X[idx] = CSym(a[idx], b[idx])
            else:
                X[...] = a


def oracle(simu, Ndof):
    """independent scatter-add: dict slot -> {(r,c): sum of symbols}"""
    dof_n = simu.Get_dof_n()
    groups = simu.groups if simu.groups is not None else simu.mesh.Get_list_groupElem()
    out = [dict(), dict(), dict(), dict()]
    for g in groups:
        conn = g.connect
        mats = simu.mats[g.elemType]
        nd = g.nPe * dof_n
        dofs = np.empty((g.Ne, nd), dtype=int)
        for e in range(g.Ne):
            for n in range(g.nPe):
                for d in range(dof_n):
                    dofs[e, n * dof_n + d] = int(conn[e, n]) * dof_n + d
        for s in range(3):
            X = mats[s]
            if X is None:
                continue
            for e in range(g.Ne):
                for i in range(nd):
                    for j in range(nd):
                        k = (int(dofs[e, i]), int(dofs[e, j]))
                        out[s][k] = out[s].get(k, 0) + X[e, i, j]
        F = mats[3]
        if F is not None:
            Ff = F.reshape(g.Ne, nd)
            for e in range(g.Ne):
                for i in range(nd):
                    k = (int(dofs[e, i]), 0)
                    out[3][k] = out[3].get(k, 0) + Ff[e, i]
    return out


def _dense(M):
    if isinstance(M, facade.SymMatrix):
        return M.a
    return np.asarray(M.toarray(), dtype=object)


def _diff_is_zero(a, b):
    """a, b: Sym / CSym / number"""
    if isinstance(a, CSym) or isinstance(b, CSym):
        pa, pb = CSym._parts(a), CSym._parts(b)
        return (pa[0] - pb[0]).n.is_zero() and (pa[1] - pb[1]).n.is_zero()
    return (as_sym(a) - as_sym(b)).n.is_zero()


def compare(res, simu, label, replay, complex_=False):
    """assemble through the real code and compare entrywise with the oracle"""
    pt = simu.problemType
    Ndof = simu.mesh.Nn * simu.Get_dof_n() + simu._Bc_Lagrange_dim(pt)
    with facade.symbolic():
        mats = simu.Get_K_C_M_F(pt)
    orc = oracle(simu, Ndof)
    names = "KCMF"
    for s in range(4):
        A = _dense(mats[s])
        shape = (Ndof, Ndof) if s < 3 else (Ndof, 1)
        if A.shape != shape:
            res.record(f"{label} {names[s]} shape", Outcome("cex", env={}, how="structure"), replay, key=f"{label} {names[s]} shape {A.shape} != {shape}")
            continue
        nz = 0
        for r in range(shape[0]):
            for cidx in range(shape[1]):
                want = orc[s].get((r, cidx), 0)
                got = A[r, cidx]
                trivially_zero = facade._isnum0(got) and (isinstance(want, int) and want == 0)
                if trivially_zero:
                    continue
                nz += 1
                if complex_:
                    ok = _diff_is_zero(got, want)
                    out = Outcome("held", how="normal-form") if ok else Outcome("cex", env=dict(ctx().shadow), how="shadow")
                    if ok:
                        smt.STATS["closed_by_normal_form"] += 1
                else:
                    out = prove_abs_le(as_sym(got) - as_sym(want), 0, [], f"{label} {names[s]}[{r},{cidx}]")
                res.record(f"{label} {names[s]}[{r},{cidx}]", out, replay, key=f"{label} {names[s]}[{r},{cidx}]",
                           sample=None if (s or r or cidx) else {"history": label, "obligation": f"{names[s]}[{r},{cidx}] == sum of the element symbols mapped to ({r},{cidx})",
                                                                 "oracle": repr(want)[:200]})
        if nz == 0 and orc[s]:
            res.record(f"{label} {names[s]} is empty", Outcome("cex", env={}, how="structure"), replay, key=f"{label} {names[s]} empty")


def concrete_replay(cfg):
    """same history with random floats through the unproxied code; returns True when assembly != scatter-add"""
    rng = np.random.default_rng(7)

    class FakeCtx:
        pass

    bad = [0.0]

    isc = float(cfg.get("imag_scale", 1.0))

    def run():
        simu, state = build(cfg)
        steps = ["A"] + list(cfg["history"])
        for k, op in enumerate(steps):
            apply_op(simu, state, op, k, cfg)
            groups = simu.groups if simu.groups is not None else simu.mesh.Get_list_groupElem()
            dof_n = simu.Get_dof_n()
            if op == "I":
                for et, mats_ in simu.mats.items():
                    for X in mats_:
                        if X is not None:
                            X[...] = rng.uniform(-1, 1, X.shape) + (1j * isc * rng.uniform(-1, 1, X.shape) if cfg.get("complex") else 0)
                groups = []
            for g in groups:
                nd = g.nPe * dof_n
                mk = lambda sh: rng.uniform(-1, 1, sh) + (1j * isc * rng.uniform(-1, 1, sh) if cfg.get("complex") else 0)
                simu.mats[g.elemType] = (mk((g.Ne, nd, nd)), mk((g.Ne, nd, nd)), None if g.elemType in state["drop_M"] else mk((g.Ne, nd, nd)), mk((g.Ne, nd, 1)))
            simu.Need_Update()
            pt = simu.problemType
            mats = simu.Get_K_C_M_F(pt)
            Ndof = simu.mesh.Nn * dof_n + simu._Bc_Lagrange_dim(pt)
            orc = oracle(simu, Ndof)
            for s in range(4):
                A = np.asarray(mats[s].todense())
                ref = np.zeros(A.shape, dtype=complex)
                for (r, cc), v in orc[s].items():
                    ref[r, cc] += v
                bad[0] = max(bad[0], float(np.abs(A.real - ref.real).max()), float(np.abs(np.imag(A) - ref.imag).max()) / isc)

    run()
    return bad[0] > 1e-10, {"max_abs_difference_assembly_vs_scatter_add": bad[0], "history": "A" + "".join(cfg["history"])}


def build(cfg):
    mesh = simlib.small_mesh(cfg["mesh"], perm=cfg.get("perm"))
    simu = simlib.make_symsimu(mesh, dof_n=cfg["dof_n"])
    state = {"drop_M": set(), "boundary": False, "mesh_kind": cfg["mesh"], "lag": 0, "dofs": cfg["dof_n"]}
    return simu, state


def apply_op(simu, state, op, k, cfg):
    from EasyFEA.FEM._boundary_conditions import LagrangeCondition

    if op in ("A", "I"):
        pass
    elif op == "L":
        pt = simu.problemType
        unk = simu.Get_unknowns(pt)
        node = state["lag"] % simu.mesh.Nn
        state["lag"] += 1
        dofs = simu.Bc_dofs_nodes(np.array([node]), [unk[0]], pt)
        simu._Bc_Add_Lagrange(LagrangeCondition(pt, np.array([node]), dofs, [unk[0]], np.array([0.0]), np.array([1.0]), "verif"))
    elif op == "G":
        g0 = simu.mesh.Get_list_groupElem()[0].elemType
        if g0 in state["drop_M"]:
            state["drop_M"].discard(g0)
        else:
            state["drop_M"].add(g0)
    elif op == "B":
        # boundary groups contribute too: off -> listed after the bulk groups -> listed BEFORE them -> off
        state["boundary"] = (int(state["boundary"]) + 1) % 3
    elif op == "M":
        other = {"tri4": "quad2", "quad2": "tri4", "mixed": "tri4", "seg3": "seg3", "tri6_2": "tri4", "tetra2": "tetra2"}[state["mesh_kind"]]
        state["mesh_kind"] = other
        simu.mesh = simlib.small_mesh(other)
        state["drop_M"] = set()
        state["lag"] = 0
    elif op == "D":
        state["dofs"] = 1 + (state["dofs"] % 3)
        simu._dof_n = state["dofs"]
        simu.Bc_Init()
        state["lag"] = 0
    bulk = simu.mesh.Get_list_groupElem()
    if state["boundary"] and simu.mesh.dim >= 2:
        bnd = simu.mesh.Get_list_groupElem(simu.mesh.dim - 1)
        simu.groups = (bulk + bnd) if int(state["boundary"]) == 1 else (bnd + bulk)
    else:
        simu.groups = None


def job_dtype_mix(cfg):
    """Groups whose element arrays have different dtypes (real / complex / integer-valued) in one slot: concrete values
    through the unproxied code, compared entrywise with the scatter-add oracle (dtype handling is not a value question)."""
    res = JobResult(cfg)
    res.symbols = 1
    rng = np.random.default_rng(harness.seed() + 3)
    order = cfg["dtypes"]
    label = f"{cfg['mesh']} dof_n={cfg['dof_n']} dtypes={order}"

    def run_once():
        simu, state = build(cfg)
        if cfg.get("boundary"):
            simu.groups = simu.mesh.Get_list_groupElem() + simu.mesh.Get_list_groupElem(simu.mesh.dim - 1)
        groups = simu.groups if simu.groups is not None else simu.mesh.Get_list_groupElem()
        dof_n = simu.Get_dof_n()
        worst = 0.0
        for rep in range(2):  # first assembly and one reusing the cached pattern
            for g, dt in zip(groups, (order * 3)[: len(groups)]):
                nd = g.nPe * dof_n

                def mk(sh):
                    a = rng.uniform(-1, 1, sh)
                    if dt == "complex":
                        return a + 1j * rng.uniform(-1, 1, sh)
                    if dt == "float32":
                        return a.astype(np.float32)
                    if dt == "int":
                        return np.round(a * 5).astype(int)
                    return a
                simu.mats[g.elemType] = (mk((g.Ne, nd, nd)), mk((g.Ne, nd, nd)), mk((g.Ne, nd, nd)), mk((g.Ne, nd, 1)))
            simu.Need_Update()
            pt = simu.problemType
            mats = simu.Get_K_C_M_F(pt)
            Ndof = simu.mesh.Nn * dof_n
            orc = oracle(simu, Ndof)
            for s_ in range(4):
                A = np.asarray(mats[s_].todense())
                ref = np.zeros(A.shape, dtype=complex)
                for (r, cc), v in orc[s_].items():
                    ref[r, cc] += v
                worst = max(worst, float(np.abs(A - ref).max()))
        return worst

    import warnings

    with warnings.catch_warnings():
        warnings.simplefilter("ignore")
        worst = run_once()
    ok = worst <= 1e-12
    res.record(f"{label} assembly = scatter-add", Outcome("held", how="ground-exact") if ok else Outcome("cex", env={}, how="ground"),
               lambda env: (run_once() > 1e-12, {"max_abs_difference_assembly_vs_scatter_add": worst, "group_dtypes": order}), key=f"{label} heterogeneous dtypes",
               sample={"config": label, "obligation": "assembled K, C, M, F == scatter-add when contributing groups have different dtypes (concrete values)"})
    res.functions |= {"_Simu.__Assemble_csr", "_Simu.Assembly"}
    return res


def job(cfg):
    if cfg.get("dtypes"):
        return job_dtype_mix(cfg)
    res = JobResult(cfg)
    new_context()
    facade.install()
    IMAG_SCALE[0] = Fraction(cfg.get("imag_scale", 1))
    simu, state = build(cfg)
    steps = ["A"] + list(cfg["history"])
    label0 = f"{cfg['mesh']} dof_n={cfg['dof_n']}" + (" complex" if cfg.get("complex") else "") + (" with imaginary parts below 2^-40" if cfg.get("imag_scale") else "") + (" renumbered" if cfg.get("perm") else "")
    res.functions |= {"_Simu.Assembly", "_Simu.__Assemble_csr", "_Simu.__Get_csr_map", "_GroupElem.Get_rows_e", "_GroupElem.Get_columns_e",
                      "_GroupElem.Get_assembly_e", "_GroupElem._Get_assembly_e", "_Simu.Get_K_C_M_F", "_Simu._Bc_Add_Lagrange", "_Simu.mesh (setter)",
                      "Utilities._cache.cache_computed_values"}

    def replay(env):
        return concrete_replay(cfg)

    for k, op in enumerate(steps):
        apply_op(simu, state, op, k, cfg)
        if op == "I":
            inplace_mats(simu, f"s{k}_", complex_=cfg.get("complex", False))
        else:
            fresh_mats(simu, f"s{k}_", complex_=cfg.get("complex", False), drop_M=state["drop_M"], F_flat=(k % 2 == 1))
        simu.Need_Update()
        compare(res, simu, f"{label0} [{''.join(steps[:k + 1])}]", replay, complex_=cfg.get("complex", False))
    res.symbols = len(ctx().names)
    res.paths = 1
    # renumbering: P K P^T of the renumbered mesh equals K (same symbols)
    if cfg.get("perm") and not cfg["history"]:
        perm = np.asarray(cfg["perm"])
        simu0 = simlib.make_symsimu(simlib.small_mesh(cfg["mesh"]), dof_n=cfg["dof_n"])
        for et, m in simu.mats.items():
            simu0.mats[et] = m  # same element symbols: element e keeps its matrix, only node ids change
        with facade.symbolic():
            K0 = _dense(simu0.Get_K_C_M_F()[0])
            K1 = _dense(simu.Get_K_C_M_F()[0])
        dn = cfg["dof_n"]
        for r in range(K0.shape[0]):
            for cidx in range(K0.shape[1]):
                r1 = perm[r // dn] * dn + r % dn
                c1 = perm[cidx // dn] * dn + cidx % dn
                if facade._isnum0(K0[r, cidx]) and facade._isnum0(K1[r1, c1]):
                    continue
                res.record(f"{label0} renumbering K[{r},{cidx}]", prove_abs_le(as_sym(K0[r, cidx]) - as_sym(K1[r1, c1]), 0, [], "renumbering"), replay,
                           key=f"{label0} renumbering permutes K")
    # reachability twin: an oracle with one contribution dropped must be refuted
    g = (simu.groups or simu.mesh.Get_list_groupElem())[0]
    Kg = simu.mats[g.elemType][0]
    with facade.symbolic():
        K = _dense(simu.Get_K_C_M_F()[0])
    r0 = int(g.connect[0, 0]) * simu.Get_dof_n()
    orc = oracle(simu, 0)
    wrong = orc[0][(r0, r0)] - Kg[0, 0, 0]
    if cfg.get("complex"):
        res.twin("dropped contribution", not _diff_is_zero(K[r0, r0], wrong))
    else:
        o = prove_abs_le(as_sym(K[r0, r0]) - as_sym(wrong), 0, [], "twin")
        res.twin("dropped contribution", o.status == "cex")
    res.stubs |= facade.USED_STUBS
    return res


def main():
    t0 = time.time()
    tier = harness.tier()
    rnd = random.Random(harness.seed())
    configs = []
    maxlen = 3 if tier == "quick" else 4
    meshes = [("tri4", 2), ("mixed", 1), ("quad2", 3), ("seg3", 1)]
    if tier == "thorough":
        meshes += [("mixed", 2), ("tri6_2", 2), ("tetra2", 3), ("tri4", 6)]
    for mesh, dn in meshes:
        configs.append({"mesh": mesh, "dof_n": dn, "history": []})
        nn = simlib.small_mesh(mesh).Nn
        perm = list(range(nn))
        rnd.shuffle(perm)
        configs.append({"mesh": mesh, "dof_n": dn, "history": [], "perm": perm})
    configs.append({"mesh": "mixed", "dof_n": 1, "history": ["A"], "complex": True})
    configs.append({"mesh": "tri4", "dof_n": 2, "history": ["B", "G"], "complex": True})
    # complex systems whose imaginary parts are tiny in absolute value (every assembled imaginary entry below 1e-11)
    configs.append({"mesh": "mixed", "dof_n": 1, "history": ["A"], "complex": True, "imag_scale": 2.0 ** -40})
    configs.append({"mesh": "tri4", "dof_n": 1, "history": ["G"], "complex": True, "imag_scale": 2.0 ** -40})
    configs.append({"mesh": "tri4", "dof_n": 2, "history": ["B", "B", "A"]})
    configs.append({"mesh": "mixed", "dof_n": 1, "history": ["B", "B", "I"]})
    # heterogeneous dtypes across the groups of one slot (every order)
    for order in (["float", "complex"], ["complex", "float"], ["int", "float"], ["int", "complex"]):
        configs.append({"mesh": "mixed", "dof_n": 1, "history": [], "dtypes": order})
        configs.append({"mesh": "tri4", "dof_n": 2, "history": [], "dtypes": order, "boundary": True})
    # all histories over the operation alphabet up to the bound (on the mixed mesh, dof_n = 1; sampled on others)
    alphabet = OPS
    hist = []
    for L in range(1, maxlen + 1):
        hist += list(itertools.product(alphabet, repeat=L))
    if tier == "quick":
        # exhaustive up to length 2, seed-sampled at length 3
        short = [h for h in hist if len(h) <= 2]
        long_ = [h for h in hist if len(h) == 3]
        rnd.shuffle(long_)
        hist = short + long_[:40]
    else:
        short = [h for h in hist if len(h) <= 3]
        long_ = [h for h in hist if len(h) == 4]
        rnd.shuffle(long_)
        hist = short + long_[:200]
    for h in hist:
        configs.append({"mesh": "mixed", "dof_n": 1, "history": list(h)})
    for h in rnd.sample(hist, min(len(hist), 12 if tier == "quick" else 60)):
        configs.append({"mesh": "tri4", "dof_n": 2, "history": list(h)})
    results = harness.run_jobs(job, configs)
    harness.finish(
        PID, results, t0=t0,
        explanation="Bounded symbolic execution + SMT. Every element-matrix/vector entry is a fresh symbolic real (real and imaginary parts for complex data); the real "
                    "Assembly / __Assemble_csr / __Get_csr_map / Get_rows_e / Get_columns_e run on them (np.bincount on objects is a python accumulation loop) and each global "
                    "entry is compared with the independent scatter-add oracle as a linear identity (tolerance 0) over all values; histories of assemblies "
                    "interleaved with pattern-key changes exercise first build and every cache-reuse path; a renumbered mesh must give P K P^T.",
        bound={"meshes": [m for m, _ in meshes], "dofs_per_node": sorted({d for _, d in meshes} | {1, 2, 3}), "operations": OP_DOC,
               "history_length": f"<= {maxlen} (exhaustive up to length {2 if tier == 'quick' else 3}, seed-sampled above)", "complex": "two configurations", "renumbering": "one seed-drawn permutation per mesh"},
        symbolic=["every entry of every K_e, C_e, M_e, F_e at every assembly (fresh symbols per assembly)"],
        assumptions=["node numbering is sampled, not symbolic (scipy COO->CSR is FFI)", "identities are closed by exact normalisation of linear forms; a non-zero difference is a counterexample at any generic point"],
        source_files=["EasyFEA/Simulations/_simu.py", "EasyFEA/FEM/_group_elem.py", "EasyFEA/Utilities/_cache.py"],
        rule="one job per (mesh, dofs per node, history); distinct histories are distinct cases; non-trivial = symbolic entries and at least one obligation",
        exhaustive=False,
    )


if __name__ == "__main__":
    main()
