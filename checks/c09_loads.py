"""C09 - distributed loads are integrated to the correct resultant force and moment.

The real `add_neumann/lineLoad/surfLoad/volumeLoad/pressureLoad` (and the Hermitian beam `add_lineLoad`) run with
symbolic intensities (constant, nodal array sampled from a linear field, polynomial function of position with
symbolic coefficients), symbolic thickness / pressure and a symbolic moment reference point.  The nodal force
vector `Bc_vector_Neumann()` is affine in the symbols; resultant and first moment are compared with closed-form
integrals over the (concrete, straight-sided) loaded region - linear / bilinear identities decided by z3.
"""

import time
from fractions import Fraction

import numpy as np

from engine import harness, smt, facade
from engine.harness import JobResult
from engine.oblig import prove_abs_le, Outcome
from engine.poly import Poly
from engine.sym import Sym, as_sym, ctx, new_context, _vid, Cond, sym_array
from checks import simlib
from checks.c01_patch import make_material

PID = "C09"
TOL = Fraction(1, 10 ** 10)


def face_nodes(mesh, axis, value):
    X = mesh.coord
    return np.where(np.abs(X[:, axis] - value) < 1e-12)[0]


def exact_face_integrals(dim, axis, value, coefs, lo=0, hi=1):
    """integral over the face {x_axis = value} of the unit square/cube of f = c0 + c.x, and of x_k f (k = 0..dim-1).
    coefs: [c0, c1, .., c_dim] (Sym). Returns (I0, [I_k])."""
    # face is a unit (dim-1)-cube in the remaining coordinates
    others = [d for d in range(dim) if d != axis]
    # f restricted: c0 + c_axis*value + sum_o c_o x_o
    base = coefs[0] + coefs[1 + axis] * Fraction(float(value))
    half = Fraction(1, 2)
    third = Fraction(1, 3)
    I0 = base + sum(coefs[1 + o] * half for o in others)
    Ik = []
    for k in range(dim):
        if k == axis:
            Ik.append(Fraction(float(value)) * I0)
        else:
            # int x_k (base + sum_o c_o x_o) = base/2 + c_k/3 + sum_{o != k} c_o /4
            v = base * half + coefs[1 + k] * third
            for o in others:
                if o != k:
                    v = v + coefs[1 + o] * Fraction(1, 4)
            Ik.append(v)
    return I0, Ik


def exact_box_integrals(dim, coefs, lengths):
    """integral over the box [0, L_0] x ... of f = c0 + c.x and of x_k f"""
    L = [Fraction(v) for v in lengths[:dim]]
    vol = Fraction(1)
    for v in L:
        vol *= v
    m1 = [vol * L[d] / 2 for d in range(dim)]  # int x_d
    I0 = coefs[0] * vol + sum(coefs[1 + o] * m1[o] for o in range(dim))
    Ik = []
    for k in range(dim):
        v = coefs[0] * m1[k]
        for o in range(dim):
            v = v + coefs[1 + o] * (vol * L[k] * L[k] / 3 if o == k else vol * L[k] * L[o] / 4)
        Ik.append(v)
    return I0, Ik


def exact_volume_integrals(dim, coefs):
    half, third, quarter = Fraction(1, 2), Fraction(1, 3), Fraction(1, 4)
    I0 = coefs[0] + sum(coefs[1 + o] * half for o in range(dim))
    Ik = []
    for k in range(dim):
        v = coefs[0] * half + coefs[1 + k] * third
        for o in range(dim):
            if o != k:
                v = v + coefs[1 + o] * quarter
        Ik.append(v)
    return I0, Ik


def job_continuum(cfg):
    from EasyFEA import Simulations, Models

    res = JobResult(cfg)
    c = new_context()
    facade.install()
    et, sim, load = cfg["elem"], cfg["sim"], cfg["load"]
    mesh = simlib.gmsh_mesh(et, layers=1) if et != "MIXED" else None
    if mesh is None:
        mesh = simlib.transform_mesh(simlib.mixed_mesh_interior(), np.diag([0.5, 0.5, 1.0]))
    if cfg.get("merged"):
        # half model + mirror image glued with Symmetry + Merge: one group mixes both numbering orientations; domain [0,2] x [0,1]^(dim-1)
        from EasyFEA import Mesh

        other = mesh.copy()
        other.Symmetry((1.0, 0.0, 0.0), (1.0, 0.0, 0.0))
        mesh = Mesh.Merge([mesh, other])
    dim = mesh.dim
    key = f"{sim} {et} {load} {cfg.get('selection', 'face')}" + (" half + mirrored half" if cfg.get("merged") else "")
    t = c.var("thickness", Fraction(1, 2), 2)
    coefs = [c.var(f"c{i}", -1, 1) for i in range(dim + 1)]
    x0 = [c.var(f"x0_{i}", -2, 2) for i in range(dim)]
    res.symbols = 1 + (dim + 1) + dim
    res.functions |= {"_Simu.add_neumann", "_Simu.add_lineLoad", "_Simu.add_surfLoad", "_Simu.add_volumeLoad", "_Simu.add_pressureLoad", "_Simu.__Bc_Integration_Dim",
                      "_Simu.__Bc_pointLoad", "_Simu.__Bc_pressureload", "_Simu.__Bc_evaluate", "_Simu.Bc_vector_Neumann", "_GroupElem.Get_Elements_Nodes", "Mesh.Get_normals",
                      "_GroupElem.Get_GaussCoordinates_e_pg", "_GroupElem.Get_weightedJacobian_e_pg"}

    def build(tt):
        if sim == "elastic":
            mat = make_material("iso_stress" if dim == 2 else "iso", dim)
            if dim == 2:
                mat.thickness = tt
            return Simulations.Elastic(mesh, mat, verbosity=False)
        model = Models.Thermal(k=1.0, c=1.0, thickness=tt)
        return Simulations.Thermal(mesh, model, verbosity=False)

    def f_of(cs):
        return lambda x, y, z: cs[0] + cs[1] * x + cs[2] * y + (cs[3] * z if dim == 3 else 0)

    axis, value = cfg.get("axis", 0), cfg.get("value", 1.0)
    fn = face_nodes(mesh, axis, value)
    sel = cfg.get("selection", "face")
    stray = []
    if sel == "only-stray":
        # a selection that bounds no element at all: two non-adjacent nodes of the face
        belems0 = [set(map(int, row)) for g_ in mesh.Get_list_groupElem(dim - 1) for row in g_.connect]
        pick = [int(fn[0])]
        for cand in fn[1:]:
            if all(not e <= set(pick) | {int(cand)} for e in belems0):
                pick.append(int(cand))
            if len(pick) == 2:
                break
        nodes = np.array(pick)
        stray = list(pick)
        fn = np.array([], dtype=int)
    elif sel == "stray":
        # add nodes that bound no loaded element: an interior node and one node of the opposite face
        # candidates must not complete any boundary element outside the loaded face
        fset = set(fn.tolist())
        belems = [set(map(int, row)) for g_ in mesh.Get_list_groupElem(dim - 1) for row in g_.connect]
        stray = []
        for cand in [n for n in range(mesh.Nn) if n not in fset]:
            S = fset | set(stray) | {cand}
            if all((not e <= S) or e <= fset for e in belems):
                stray.append(cand)
            if len(stray) == 2:
                break
        nodes = np.array(sorted(set(fn.tolist()) | set(stray)))
    elif sel == "repeated":
        # the selection lists some node ids twice (what concatenating the node lists of two adjacent edges / faces gives): same loaded region
        nodes = np.concatenate([fn, fn[: max(1, len(fn) // 2)]])
    else:
        nodes = fn
    if load == "surf_nodal":
        # the order in which the user lists the nodes (and the matching values) must not matter: seed-drawn, never ascending
        rng = np.random.default_rng(harness.seed() + 5)
        perm = rng.permutation(len(nodes))
        if len(nodes) > 1 and np.all(np.diff(nodes[perm]) > 0):
            perm = perm[::-1]
        nodes = nodes[perm]
    unknown = "x" if sim == "elastic" else "t"
    comp = 0
    thick_factor = (t if dim == 2 else 1)
    mark = c.mark()
    with facade.symbolic():
        simu = build(t)
        if load == "surf_poly" and sel == "only-stray":
            simu.add_surfLoad(nodes, [f_of(coefs)], [unknown])
            want_F = as_sym(0)
            want_M = [as_sym(0)] * dim
        elif load == "surf_poly":
            simu.add_surfLoad(nodes, [f_of(coefs)], [unknown])
            I0, Ik = exact_face_integrals(dim, axis, value, coefs)
            want_F = I0 * thick_factor
            want_M = [Ik[k] * thick_factor for k in range(dim)]
        elif load == "surf_nodal":
            X = mesh.coord
            vals = np.array([f_of(coefs)(*[Fraction(float(v)) for v in X[n]]) for n in nodes], dtype=object)
            if stray:
                for i, n in enumerate(nodes):
                    if n in stray:
                        vals[i] = vals[i] + 7  # values on stray nodes must not matter
            simu.add_surfLoad(nodes, [vals], [unknown])
            I0, Ik = exact_face_integrals(dim, axis, value, coefs)
            want_F = I0 * thick_factor
            want_M = [Ik[k] * thick_factor for k in range(dim)]
        elif load == "surf_const":
            simu.add_surfLoad(nodes, [coefs[0]], [unknown])
            zero = [coefs[0]] + [as_sym(0)] * dim
            I0, Ik = exact_face_integrals(dim, axis, value, zero)
            want_F = I0 * thick_factor
            want_M = [Ik[k] * thick_factor for k in range(dim)]
        elif load in ("surf_multi", "volume_multi"):
            # SEVERAL components in ONE call (a function, a plain number, a function): each component is integrated on its own
            coefs_b = [c.var(f"d{i}", -1, 1) for i in range(dim + 1)]
            unk_all = simu.Get_unknowns()
            plainv = Fraction(3, 2)
            comps_vals = [f_of(coefs), 1.5, f_of(coefs_b)][:len(unk_all)]
            comps_coefs = [coefs, [as_sym(plainv)] + [as_sym(0)] * dim, coefs_b][:len(unk_all)]
            if load == "surf_multi":
                simu.add_surfLoad(nodes, comps_vals, unk_all)
                multi_want = [exact_face_integrals(dim, axis, value, cc) for cc in comps_coefs]
            else:
                simu.add_volumeLoad(mesh.nodes, comps_vals, unk_all)
                multi_want = [exact_volume_integrals(dim, cc) for cc in comps_coefs]
            want_F = want_M = None
        elif load in ("volume_plain", "surf_plain"):
            # the density is a plain Python number (the most common call): same resultant AND same first moments as any other constant density
            plain = [as_sym(Fraction(3, 4))] + [as_sym(0)] * dim
            if load == "volume_plain":
                simu.add_volumeLoad(mesh.nodes, [0.75], [unknown])
                I0, Ik = exact_volume_integrals(dim, plain)
            else:
                simu.add_surfLoad(nodes, [0.75], [unknown])
                I0, Ik = exact_face_integrals(dim, axis, value, plain)
            want_F = I0 * thick_factor
            want_M = [Ik[k] * thick_factor for k in range(dim)]
        elif load == "volume_poly":
            simu.add_volumeLoad(mesh.nodes, [f_of(coefs)], [unknown])
            I0, Ik = exact_volume_integrals(dim, coefs) if not cfg.get("merged") else exact_box_integrals(dim, coefs, [2, 1, 1])
            want_F = I0 * thick_factor
            want_M = [Ik[k] * thick_factor for k in range(dim)]
        elif load == "point":
            simu.add_neumann(nodes, [coefs[0]], [unknown])
            want_F = coefs[0]
            want_M = None
        elif load == "pressure":
            simu.add_pressureLoad(nodes, coefs[0])
            want_F = None
            want_M = None
        F = simu.Bc_vector_Neumann()
    pcs = c.pc_since(mark)
    res.paths, res.path_conditions = 1, len(pcs)
    dof_n = simu.Get_dof_n()
    X = mesh.coord
    Fn = np.asarray(F, dtype=object).reshape(mesh.Nn, dof_n)

    def fval(env, s):
        return float(as_sym(s).eval({kk: float(v) for kk, v in {**c.shadow, **(env or {})}.items()}))

    def replay(env):
        tf = fval(env, t)
        cf = [fval(env, x) for x in coefs]
        s2 = build(tf)
        if load == "surf_poly":
            s2.add_surfLoad(nodes, [f_of(cf)], [unknown])
        elif load == "surf_nodal":
            v2 = np.array([f_of(cf)(*X[n]) for n in nodes]) + np.array([7.0 if n in stray else 0.0 for n in nodes])
            s2.add_surfLoad(nodes, [v2], [unknown])
        elif load == "surf_const":
            s2.add_surfLoad(nodes, [cf[0]], [unknown])
        elif load in ("surf_multi", "volume_multi"):
            cb = [fval(env, x) for x in coefs_b]
            vals2 = [f_of(cf), 1.5, f_of(cb)][:dof_n]
            if load == "surf_multi":
                s2.add_surfLoad(nodes, vals2, s2.Get_unknowns())
            else:
                s2.add_volumeLoad(mesh.nodes, vals2, s2.Get_unknowns())
        elif load == "volume_plain":
            s2.add_volumeLoad(mesh.nodes, [0.75], [unknown])
        elif load == "surf_plain":
            s2.add_surfLoad(nodes, [0.75], [unknown])
        elif load == "volume_poly":
            s2.add_volumeLoad(mesh.nodes, [f_of(cf)], [unknown])
        elif load == "point":
            s2.add_neumann(nodes, [cf[0]], [unknown])
        elif load == "pressure":
            s2.add_pressureLoad(nodes, cf[0])
        Ff = s2.Bc_vector_Neumann().reshape(mesh.Nn, dof_n)
        info = {"thickness": tf, "coefficients": cf, "resultant": Ff.sum(axis=0).tolist()}
        bad = False
        if want_F is not None:
            w = fval(env, want_F)
            info["expected_resultant_component"] = w
            bad = bad or abs(Ff[:, comp].sum() - w) > 1e-9
            info["forces_on_stray_nodes"] = float(np.abs(Ff[stray]).max()) if stray else 0.0
            bad = bad or info["forces_on_stray_nodes"] > 1e-12
        if want_M is not None:
            for k in range(dim):
                m = float((X[:, k] * Ff[:, comp]).sum())
                info[f"first_moment_{k}"] = m
                info[f"expected_first_moment_{k}"] = fval(env, want_M[k])
                bad = bad or abs(m - fval(env, want_M[k])) > 1e-9
        if load in ("surf_multi", "volume_multi"):
            for k_, (I0_, Ik_) in enumerate(multi_want):
                w0 = fval(env, I0_ * thick_factor)
                info[f"component_{k_}_resultant"] = float(Ff[:, k_].sum())
                info[f"component_{k_}_expected"] = w0
                bad = bad or abs(Ff[:, k_].sum() - w0) > 1e-9
                for kk in range(dim):
                    m = float((X[:, kk] * Ff[:, k_]).sum())
                    bad = bad or abs(m - fval(env, Ik_[kk] * thick_factor)) > 1e-9
        if load == "pressure":
            R = Ff.sum(axis=0)[:dim]
            mag = abs(cf[0]) * 1.0 * (tf if dim == 2 else 1.0)
            tang = np.delete(R, axis)
            info["expected_pressure_resultant_magnitude"] = mag
            bad = bad or abs(abs(R[axis]) - mag) > 1e-9 or (tang.size and float(np.abs(tang).max()) > 1e-9)
        return bad, info

    if load in ("surf_multi", "volume_multi"):
        for k_, (I0_, Ik_) in enumerate(multi_want):
            tot = as_sym(0)
            for n in range(mesh.Nn):
                tot = tot + Fn[n, k_]
            res.record(f"{key} component {k_}: resultant", prove_abs_le(tot - I0_ * thick_factor, TOL, pcs, key), replay, key=f"{key} resultant of each component",
                       sample=None if k_ else {"config": key, "obligation": "one call with several components (function, plain number, function): each component's resultant and first moments equal its own density's, for all coefficients"})
            for kk in range(dim):
                m = as_sym(0)
                for n in range(mesh.Nn):
                    m = m + (Fraction(float(X[n, kk])) - x0[kk]) * Fn[n, k_]
                res.record(f"{key} component {k_}: first moment about x0, axis {kk}", prove_abs_le(m - (Ik_[kk] * thick_factor - x0[kk] * I0_ * thick_factor), TOL * 10, pcs, key), replay, key=f"{key} moment of each component")
        tot = as_sym(0)
        for n in range(mesh.Nn):
            tot = tot + Fn[n, 0]
        tw = prove_abs_le(tot - multi_want[0][0] * thick_factor * 2, TOL, pcs, "twin")
        res.twin(f"{key} twin", tw.status == "cex")
        res.stubs |= facade.USED_STUBS
        return res
    if load == "pressure":
        # magnitude p * area (* thickness), directed along the face normal; which of +-n the code pushes along is the
        # orientation convention of the boundary normals (C08), read off the shadow point here
        totax = as_sym(0)
        for n in range(mesh.Nn):
            totax = totax + Fn[n, axis]
        sgn = 1 if (totax.shadow() * (coefs[0] * thick_factor).shadow()) >= 0 else -1
        n_out = [0] * dim
        n_out[axis] = sgn
        for d in range(dim):
            tot = as_sym(0)
            for n in range(mesh.Nn):
                tot = tot + Fn[n, d]
            res.record(f"{key} resultant[{d}] = +-p * area * n", prove_abs_le(tot - coefs[0] * thick_factor * n_out[d], TOL, pcs, key), replay, key=f"{key} pressure resultant",
                       sample=None if d else {"config": key, "obligation": "for all pressures p in [-1,1], thickness in [0.5,2]: |sum_n F_n - p * area * thickness * n_out| <= 1e-10"})
    else:
        tot = as_sym(0)
        for n in range(mesh.Nn):
            tot = tot + Fn[n, comp]
        res.record(f"{key} resultant", prove_abs_le(tot - want_F, TOL, pcs, key), replay, key=f"{key} resultant",
                   sample={"config": key, "obligation": "for all load coefficients in [-1,1]^k, thickness in [0.5,2]: |sum_n F_n - integral of the density (x thickness)| <= 1e-10", "loaded_nodes": len(fn)})
        # other components vanish
        for d in range(dof_n):
            if d != comp:
                tot_d = as_sym(0)
                for n in range(mesh.Nn):
                    tot_d = tot_d + Fn[n, d]
                res.record(f"{key} no force in direction {d}", prove_abs_le(tot_d, 0, pcs, key), replay, key=f"{key} other components")
        if want_M is not None:
            # first moment about the symbolic point x0: sum_n (x_n - x0)_k F_n = M_k - x0_k * F
            for k in range(dim):
                m = as_sym(0)
                for n in range(mesh.Nn):
                    m = m + (Fraction(float(X[n, k])) - x0[k]) * Fn[n, comp]
                res.record(f"{key} first moment about x0, axis {k}", prove_abs_le(m - (want_M[k] - x0[k] * want_F), TOL * 10, pcs, key), replay, key=f"{key} moment")
        for n in stray:
            for d in range(dof_n):
                res.record(f"{key} stray node {n} carries nothing", prove_abs_le(as_sym(Fn[n, d]), 0, pcs, key), replay, key=f"{key} stray nodes")
    # twin
    tot = as_sym(0)
    for n in range(mesh.Nn):
        tot = tot + Fn[n, comp if load != "pressure" else axis]
    twin_target = (want_F if want_F is not None else coefs[0] * thick_factor) * Fraction(1001, 1000)
    if sel == "only-stray":
        twin_target = coefs[0]  # the true resultant is 0: claim "resultant = c0" must be refuted
    o = prove_abs_le(tot - twin_target, TOL, pcs, "twin")
    res.twin(f"{key} twin", o.status == "cex")
    res.stubs |= facade.USED_STUBS
    return res


def job_beam(cfg):
    """Distributed load on an inclined Euler-Bernoulli / Timoshenko member: force resultant and moment balance about a symbolic point."""
    res = JobResult(cfg)
    c = new_context()
    facade.install()
    dim, et, tim = cfg["dim"], cfg["elem"], cfg["timoshenko"]
    p1 = (0.5, 0.25, 0.0)
    p2 = {2: (3.5, 4.25, 0.0), 3: (2.5, 3.25, 6.0)}[dim]
    qx, qy = c.var("qx", -1, 1), c.var("qy", -1, 1)
    x0 = [c.var(f"x0_{i}", -2, 2) for i in range(2)]
    res.symbols = 4
    key = f"beam dim={dim} {et} {'Timoshenko' if tim else 'EulerBernoulli'} line load"
    res.functions |= {"Beam.add_lineLoad", "_EulerBernoulli.Get_beam_N_e_pg", "_EulerBernoulli._Compute_P_e_pg", "_Simu.Bc_vector_Neumann"}
    simu, beam, L = simlib.beam_simu(dim, et, p1, p2, 2, tim)
    mesh = simu.mesh
    mark = c.mark()
    with facade.symbolic():
        simu.add_lineLoad(mesh.nodes, [qx, qy], ["x", "y"])
        F = simu.Bc_vector_Neumann()
    pcs = c.pc_since(mark)
    dof_n = simu.Get_dof_n()
    Fn = np.asarray(F, dtype=object).reshape(mesh.Nn, dof_n)
    X = mesh.coord
    res.paths, res.path_conditions = 1, len(pcs)

    def replay(env):
        full = {kk: float(v) for kk, v in {**c.shadow, **(env or {})}.items()}
        qxf, qyf = float(as_sym(qx).eval(full)), float(as_sym(qy).eval(full))
        s2, _, _ = simlib.beam_simu(dim, et, p1, p2, 2, tim)
        s2.add_lineLoad(s2.mesh.nodes, [qxf, qyf], ["x", "y"])
        Ff = s2.Bc_vector_Neumann().reshape(mesh.Nn, dof_n)
        Xc = X.mean(axis=0)
        rz = 2 if dim == 2 else 5
        # moment about the origin (z component): sum x Fy - y Fx + Mz ; expected: load resultant acting at the member's midpoint
        mz = float((X[:, 0] * Ff[:, 1] - X[:, 1] * Ff[:, 0] + Ff[:, rz]).sum())
        wz = L * (Xc[0] * qyf - Xc[1] * qxf)
        return (abs(Ff[:, 0].sum() - qxf * L) > 1e-9 or abs(Ff[:, 1].sum() - qyf * L) > 1e-9 or abs(mz - wz) > 1e-8), \
            {"qx": qxf, "qy": qyf, "sum_Fx": float(Ff[:, 0].sum()), "sum_Fy": float(Ff[:, 1].sum()), "expected": [qxf * L, qyf * L], "moment_z_about_origin": mz, "expected_moment": wz}

    Lr = Fraction(float(L))
    sx = sum(Fn[n, 0] for n in range(mesh.Nn))
    sy = sum(Fn[n, 1] for n in range(mesh.Nn))
    res.record(f"{key} sum Fx = qx L", prove_abs_le(as_sym(sx) - qx * Lr, TOL * 10, pcs, key), replay, key=f"{key} resultant",
               sample={"config": key, "obligation": "for all (qx, qy) in [-1,1]^2: |sum F - q L| <= 1e-9 and the moment about any point x0 equals that of the uniform load"})
    res.record(f"{key} sum Fy = qy L", prove_abs_le(as_sym(sy) - qy * Lr, TOL * 10, pcs, key), replay, key=f"{key} resultant")
    if dim == 3:
        sz = sum(Fn[n, 2] for n in range(mesh.Nn))
        res.record(f"{key} sum Fz = 0", prove_abs_le(as_sym(sz), TOL * 10, pcs, key), replay, key=f"{key} resultant")
    # moment balance about the symbolic point x0 (z component), work-equivalent nodal moments included
    rz = 2 if dim == 2 else 5
    Xc = [Fraction(float(v)) for v in X.mean(axis=0)]
    mz = as_sym(0)
    for n in range(mesh.Nn):
        mz = mz + (Fraction(float(X[n, 0])) - x0[0]) * Fn[n, 1] - (Fraction(float(X[n, 1])) - x0[1]) * Fn[n, 0] + Fn[n, rz]
    # uniform load on a straight member: resultant q L at the midpoint (mean of the end points = mean of equally spaced nodes)
    mid = [(Fraction(float(p1[i])) + Fraction(float(p2[i]))) / 2 for i in range(2)]
    want = Lr * ((mid[0] - x0[0]) * qy - (mid[1] - x0[1]) * qx)
    res.record(f"{key} moment about x0", prove_abs_le(mz - want, TOL * 100, pcs, key), replay, key=f"{key} moment")
    o = prove_abs_le(as_sym(sy) - qy * Lr * Fraction(1001, 1000), TOL, pcs, "twin")
    res.twin(f"{key} twin", o.status == "cex")
    res.stubs |= facade.USED_STUBS
    return res


def job_point_array(cfg):
    """concentrated load given as ONE nodal array used for several unknowns and in two successive calls: every component distributes the same
    total, the caller's array is left untouched, the second call gives the same nodal forces"""
    from EasyFEA import Simulations

    res = JobResult(cfg)
    c = new_context()
    facade.install()
    et = cfg["elem"]
    mesh = simlib.gmsh_mesh(et, layers=1)
    dim = mesh.dim
    key = f"elastic {et} concentrated load from one nodal array reused for {dim} unknowns and in a second call"
    res.functions |= {"_Simu.add_neumann", "_Simu.__Bc_pointLoad", "_Simu.__Bc_evaluate", "_Simu.Bc_vector_Neumann", "_Simu.Bc_Init"}
    nodes = face_nodes(mesh, 0, 1.0)
    N = len(nodes)
    vals = [c.var(f"f{i}", -1, 1) for i in range(N)]
    res.symbols = N
    unknowns = ["x", "y", "z"][:dim]

    def scenario(arr):
        simu = Simulations.Elastic(mesh, make_material("iso_stress" if dim == 2 else "iso", dim), verbosity=False)
        before = arr.copy()
        simu.add_neumann(nodes, [arr] * dim, unknowns)
        F1 = np.asarray(simu.Bc_vector_Neumann(), dtype=object).reshape(mesh.Nn, dim).copy()
        after1 = arr.copy()
        simu.Bc_Init()
        simu.add_neumann(nodes, [arr], [unknowns[-1]])
        F2 = np.asarray(simu.Bc_vector_Neumann(), dtype=object).reshape(mesh.Nn, dim).copy()
        return before, after1, F1, F2

    def replay(env):
        full = {kk: float(v) for kk, v in {**c.shadow, **(env or {})}.items()}
        arr = np.array([float(as_sym(v).eval(full)) for v in vals], dtype=float)  # a float64 array, as a user passes it
        try:
            before, after1, F1, F2 = scenario(arr)
        except Exception as e:
            return True, {"raised": repr(e)[:200]}
        F1, F2 = np.asarray(F1, dtype=float), np.asarray(F2, dtype=float)
        tot = float(before.sum() / N)
        info = {"values": before.tolist(), "expected_resultant_per_component": tot, "resultant_first_call": F1.sum(axis=0).tolist(), "resultant_second_call": F2.sum(axis=0).tolist(),
                "caller_array_modified": bool(np.abs(after1 - before).max() > 0)}
        bad = bool(np.abs(F1.sum(axis=0) - tot).max() > 1e-9 or abs(F2[:, -1].sum() - tot) > 1e-9 or info["caller_array_modified"])
        return bad, info

    mark = c.mark()
    try:
        with facade.symbolic():
            before, after1, F1, F2 = scenario(np.array(vals, dtype=object))
    except Exception as e:
        res.record(f"{key}: the scenario runs", Outcome("cex", env=dict(c.shadow), how="shadow", detail=repr(e)[:200]), replay, key=f"{et} point load from a reused nodal array")
        res.twin(f"{key} twin", True)
        return res
    pcs = c.pc_since(mark)
    res.paths, res.path_conditions = 1, len(pcs)
    total = sum(vals) * Fraction(1, N)
    worst = None
    for k in range(dim):
        o = prove_abs_le(sum(as_sym(v) for v in F1[:, k]) - total, TOL, pcs, key)
        if o.status != "held":
            worst = o
            break
    res.record(f"{key}: every component carries the same total (mean of the array)", worst or Outcome("held", how="exact"), replay, key=f"{et} point load from a reused nodal array",
               sample={"config": key, "obligation": f"for all nodal values: sum of nodal forces in each of the {dim} directions = sum(values)/{N}"})
    worst = None
    for a, b in zip(after1, before):
        o = prove_abs_le(as_sym(a) - as_sym(b), 0, pcs, key)
        if o.status != "held":
            worst = o
            break
    res.record(f"{key}: the caller's array is unchanged by add_neumann", worst or Outcome("held", how="normal-form"), replay, key=f"{et} point load from a reused nodal array")
    o = prove_abs_le(sum(as_sym(v) for v in F2[:, dim - 1]) - total, TOL, pcs, key)
    res.record(f"{key}: the second call with the same array gives the same total", o, replay, key=f"{et} point load from a reused nodal array")
    o = prove_abs_le(sum(as_sym(v) for v in F1[:, 0]) - total * 2, TOL, pcs, "twin")
    res.twin(f"{key} twin", o.status == "cex")
    # the aliasing at stake exists for float64 arrays only (object arrays are copied by the conversions): the float path is replayed at the shadow point as well
    bad, info = replay(None)
    res.record(f"{key}: float64 array at the shadow point (same scenario on the unproxied code)", Outcome("held", how="ground-exact") if not bad else Outcome("cex", env=dict(c.shadow), how="shadow"), replay,
               key=f"{et} point load from a reused nodal array")
    res.stubs |= facade.USED_STUBS
    return res


def job_pressure_micro(cfg):
    """pressure on the planar faces of the unit cube modelled in SMALL length units (coordinates x 2^-20 ~ 1e-6: a micro-scale part in metres): the
    resultant is p x area along the face normal, whatever the absolute size of the raw (un-normalised) face normals.  Symbolic pressure; the
    obligation is relative to the face area s^2."""
    from EasyFEA import Simulations

    res = JobResult(cfg)
    c = new_context()
    facade.install()
    et, axis, value = cfg["elem"], cfg["axis"], cfg["value"]
    s_ = 2.0 ** -20
    mesh = simlib.transform_mesh(simlib.gmsh_mesh(et, layers=1), np.eye(3) * s_)
    key = f"elastic {et} pressure on the face x{axis} = {value} of the cube scaled by 2^-20"
    res.functions |= {"_Simu.add_pressureLoad", "_Simu.__Bc_pressureload", "Mesh.Get_normals", "_GroupElem.Get_normals_e_pg", "_linalg.Normalize", "Geoms._utils.Normalize", "_Simu.Bc_vector_Neumann"}
    p_ = c.var("p", -1, 1, shadow=Fraction(3, 4))
    res.symbols = 1
    fn = face_nodes(mesh, axis, value * s_)

    def run(pv, symbolic):
        simu = Simulations.Elastic(mesh, make_material("iso", 3), verbosity=False)
        simu.add_pressureLoad(fn, pv)
        F = simu.Bc_vector_Neumann()
        F = F.toarray() if hasattr(F, "toarray") else F
        return np.asarray(F, dtype=object if symbolic else float).reshape(mesh.Nn, 3)

    mark = c.mark()
    with facade.symbolic():
        Fn = run(p_, True)
    pcs = c.pc_since(mark)
    res.paths, res.path_conditions = 1, len(pcs)
    area = Fraction(s_) ** 2

    def replay(env):
        pv = float(as_sym(p_).eval({kk: float(v) for kk, v in {**c.shadow, **(env or {})}.items()}))
        R = run(pv, False).sum(axis=0) / float(area)
        tang = np.delete(R, axis)
        return bool(abs(abs(R[axis]) - abs(pv)) > 1e-9 or float(np.abs(tang).max()) > 1e-9), {"pressure": pv, "resultant_over_face_area": R.tolist(), "expected_magnitude": abs(pv)}

    totax = sum((as_sym(Fn[n, axis]) for n in range(mesh.Nn)), as_sym(0))
    sgn = 1 if (totax.shadow() * as_sym(p_).shadow()) >= 0 else -1
    for d in range(3):
        tot = sum((as_sym(Fn[n, d]) for n in range(mesh.Nn)), as_sym(0)) / area
        res.record(f"{key}: resultant[{d}] / area = +-p n[{d}]", prove_abs_le(tot - (p_ * sgn if d == axis else 0), TOL, pcs, key), replay, key=f"{key}: pressure resultant",
                   sample=None if d else {"config": key, "obligation": "for all pressures p in [-1,1]: |sum_n F_n / s^2 - (+-p) n| <= 1e-10 on a face of area s^2 = 2^-40"})
    tw = prove_abs_le(sum((as_sym(Fn[n, axis]) for n in range(mesh.Nn)), as_sym(0)) / area - 2 * p_ * sgn, TOL, pcs, "twin")
    res.twin(f"{key} twin", tw.status == "cex")
    res.stubs |= facade.USED_STUBS
    return res


def job(cfg):
    if cfg.get("load") == "pressure_micro":
        return job_pressure_micro(cfg)
    if cfg.get("load") == "point_array":
        return job_point_array(cfg)
    return job_beam(cfg) if cfg["sim"] == "beam" else job_continuum(cfg)


def main():
    t0 = time.time()
    tier = harness.tier()
    configs = []
    el2 = ["TRI3", "QUAD4", "TRI6"] + (["TRI10", "TRI15", "QUAD8", "QUAD9", "MIXED"] if tier == "thorough" else ["MIXED"])
    el3 = ["TETRA4", "HEXA8", "PRISM6"] + (["TETRA10", "HEXA20", "PRISM15", "PRISM18", "HEXA27"] if tier == "thorough" else [])
    loads = ["surf_poly", "surf_nodal", "surf_const", "volume_poly", "point", "pressure"]
    k = 0
    for et in el2 + el3:
        three = et in el3
        for load in loads:
            if tier == "quick" and (k % 2) and load in ("surf_const", "point"):
                k += 1
                continue
            sel = "stray" if load in ("surf_nodal", "surf_poly") and (k % 2 == 0) else "face"
            axis = (k % 3) if three else (k % 2)
            # prism: axis 2 faces are triangles, axis 0/1 faces are quadrangles -> both appear
            configs.append({"sim": "elastic", "elem": et, "load": load, "selection": sel, "axis": axis, "value": 1.0 if k % 4 < 2 else 0.0})
            k += 1
    for et in ("TRI3", "QUAD4", "TETRA4", "PRISM6"):
        configs.append({"sim": "elastic", "elem": et, "load": "surf_poly", "selection": "only-stray", "axis": 0, "value": 1.0})
    # several components in one call
    for et, ld in ((("TRI3", "surf_multi"), ("QUAD4", "volume_multi"), ("HEXA8", "surf_multi")) if tier == "quick" else
                   (("TRI3", "surf_multi"), ("TRI6", "volume_multi"), ("QUAD4", "volume_multi"), ("QUAD8", "surf_multi"), ("TETRA4", "volume_multi"), ("HEXA8", "surf_multi"), ("PRISM6", "surf_multi"))):
        configs.append({"sim": "elastic", "elem": et, "load": ld, "selection": "face", "axis": 1 if et in ("TRI3", "QUAD8", "TRI6", "QUAD4") else 2, "value": 1.0})
    # plain-number densities on unstructured (non-parallelogram) first- and second-order elements: volume loads and the unstructured top face of the extrusions
    for et in (["QUAD4", "HEXA8", "PRISM6"] if tier == "quick" else ["TRI3", "QUAD4", "QUAD8", "QUAD9", "TETRA4", "HEXA8", "HEXA20", "PRISM6", "PRISM15"]):
        configs.append({"sim": "elastic", "elem": et, "load": "volume_plain", "selection": "face", "axis": 0, "value": 1.0})
        if et in el3 or et in ("HEXA20", "PRISM15"):
            configs.append({"sim": "elastic", "elem": et, "load": "surf_plain", "selection": "face", "axis": 2, "value": 1.0})
    for et, load in ((("TRI3", "surf_poly"), ("HEXA8", "surf_const"), ("PRISM6", "pressure")) if tier == "quick" else
                     (("TRI3", "surf_poly"), ("QUAD8", "surf_const"), ("TETRA4", "surf_poly"), ("HEXA8", "surf_const"), ("PRISM6", "pressure"), ("TRI6", "pressure"))):
        configs.append({"sim": "elastic", "elem": et, "load": load, "selection": "repeated", "axis": 0, "value": 1.0})
    for et in (("TRI3", "PRISM6") if tier == "quick" else ("TRI3", "QUAD8", "TETRA4", "PRISM6")):
        configs.append({"sim": "elastic", "elem": et, "load": "point_array"})
    for et, axis, value in ((("TETRA4", 0, 1.0), ("HEXA8", 2, 1.0)) if tier == "quick" else (("TETRA4", 0, 1.0), ("HEXA8", 2, 1.0), ("HEXA8", 1, 0.0), ("PRISM6", 2, 0.0), ("PRISM6", 0, 1.0), ("TETRA10", 1, 1.0))):
        configs.append({"sim": "elastic", "elem": et, "load": "pressure_micro", "axis": axis, "value": value})
    for et in (("TRI3", "HEXA8") if tier == "quick" else ("TRI3", "TRI6", "QUAD4", "TETRA4", "HEXA8")):
        configs.append({"sim": "elastic", "elem": et, "load": "volume_poly", "selection": "face", "axis": 1, "value": 1.0, "merged": True})
        configs.append({"sim": "thermal", "elem": et, "load": "volume_poly", "selection": "face", "axis": 1, "value": 1.0, "merged": True})
    for et in (["TRI3", "QUAD8"] if tier == "quick" else ["TRI3", "TRI6", "QUAD4", "QUAD8", "TETRA4", "HEXA8"]):
        for load in ("surf_poly", "volume_poly"):
            configs.append({"sim": "thermal", "elem": et, "load": load, "selection": "face", "axis": 1, "value": 1.0})
    for dim in (2, 3):
        for et in (["SEG2", "SEG3"] if tier == "quick" else ["SEG2", "SEG3", "SEG4", "SEG5"]):
            for tim in (False, True):
                configs.append({"sim": "beam", "dim": dim, "elem": et, "timoshenko": tim})
    results = harness.run_jobs(job, configs)
    harness.finish(
        PID, results, t0=t0,
        explanation="Bounded symbolic execution + SMT. The real load routines run with symbolic load coefficients (constant, nodal array sampled from a linear field, polynomial function of "
                    "position), symbolic thickness / pressure and a symbolic moment reference point on real meshes of the unit square / cube (boundary groups of every type, prism faces "
                    "mixing triangles and quadrangles, node selections with stray nodes) and on inclined beams; resultants and first moments of the nodal force vector are compared with "
                    "closed-form integrals as linear / bilinear identities (z3: QF_LRA exact, monomial-box relaxation for the bilinear moment terms).",
        bound={"elements_2d": el2, "elements_3d": el3, "loads": loads, "selections": ["whole face", "face + stray nodes", "only stray nodes", "face with node ids listed twice"], "density_degree": 1,
               "beams": "2 elements along (3,4,0) / (2,3,6), Euler-Bernoulli and Timoshenko, uniform global load (qx, qy)", "tolerance": "1e-10 .. 1e-8"},
        symbolic=["load coefficients c0..c3", "thickness", "pressure", "moment reference point x0", "beam load (qx, qy)"],
        assumptions=["loaded regions are faces of the unit square / cube (closed-form integrals)", "density degree 1 (within every 'mass' rule's exactness for resultant and moment)"],
        source_files=["EasyFEA/Simulations/_simu.py", "EasyFEA/Simulations/_beam.py", "EasyFEA/FEM/_group_elem.py", "EasyFEA/FEM/_mesh.py"],
        rule="one job per (simulation, element type, load form, node selection); non-trivial = symbolic load coefficients",
        exhaustive=(tier == "thorough"),
    )


if __name__ == "__main__":
    main()
