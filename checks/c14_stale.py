"""C14 - after any sequence of public changes a simulation behaves like one built directly in the final configuration.

One job = one simulation type x one sequence of mutating public operations.  The simulation is built in a concrete
initial configuration and every cache is populated (group caches of every matrix type, assembled K, C, M, F, sparsity
maps, a solve, a saved iteration, results).  Then the operations are executed with SYMBOLIC arguments (new moduli,
density, thickness, Rayleigh coefficients; translation vector, rotation angle (c, s), reflection offset; scale factors
of directly assigned coordinates; loads), optionally re-populating the caches between two operations.  A second
simulation is constructed from scratch from the PUBLIC state of the first one (mesh.coord / connect, the model's
parameters, rho, boundary conditions) with the same symbols, and the solver decides, entrywise and for all values of
the symbols, that  K, C, M, F, the Neumann vector, the Dirichlet data and results of an arbitrary (havoc) state are
identical.  Models / meshes shared by two simulations: both are observed.

Bounds: sequences of length <= 2 (quick: all singles + pairs around the cache-sensitive operations; thorough: all
ordered pairs + seed-drawn triples), meshes tri4 / quad2 / tetra2 / 2-element beams, the listed operations.
"""

import itertools
import math
import os
import random
import time
from fractions import Fraction

import numpy as np

from engine import harness, smt, facade, oblig, stubs
from engine.harness import JobResult
from engine.oblig import prove_abs_le, Outcome
from engine.sym import Sym, as_sym, ctx, new_context, sym_array, has_sym
from checks import simlib

PID = "C14"
TOL = Fraction(1, 10 ** 9)


# ------------------------------------------------------------------------------------------------ values (symbolic / replay)
class Vals:
    """value provider: symbols in the symbolic pass, floats (from a solver model or the shadow point) in the replay pass"""

    def __init__(self, c=None, env=None, names=None):
        self.c = c
        self.env = env
        self.names = names if names is not None else {}  # name -> (vid or spec)
        self.symbolic = env is None and c is not None and names is None
        self.count = 0

    def get(self, name, lo, hi, shadow=None):
        if self.symbolic:
            if name not in self.names:
                v = self.c.var(name, lo, hi, shadow=shadow)
                self.names[name] = v
                self.count += 1
            return self.names[name]
        return self._f(self.names[name])

    def _f(self, s):
        full = {kk: float(v) for kk, v in {**self.c.shadow, **(self.env or {})}.items()}
        return float(as_sym(s).eval(full))

    def angle(self, name):
        """returns (theta for Mesh.Rotate, c, s)"""
        if self.symbolic:
            if name not in self.names:
                self.names[name] = oblig.angle(name)
                self.count += 1
            return self.names[name]
        th, cs, sn = self.names[name]
        cf, sf = self._f(cs), self._f(sn)
        return math.degrees(math.atan2(sf, cf)), cf, sf

    def array(self, name, n):
        if self.symbolic:
            if name not in self.names:
                self.names[name] = sym_array(name, n)
                self.count += n
            return self.names[name].copy()
        return np.array([self._f(x) for x in self.names[name]])


# ------------------------------------------------------------------------------------------------ worlds
MESHES = {"TRI3": "tri4", "QUAD4": "quad2", "TETRA4": "tetra2", "TRI6": "tri6_2"}


def clone_mesh(mesh):
    return simlib.mesh_from_arrays([(g.elemType.name, g.connect) for g in mesh.dict_groupElem.values()], mesh.coord)


MESH_COUNTER = [0]


def second_mesh(elem):
    """another mesh of the same dimension: different coordinates, node count and connectivity (first-order elements: their
    reference gradients are exact in floats, so rigid motions cancel exactly in the Jacobians).  Every call returns its own
    coordinates, so that ending up on the wrong one of two replacement meshes is visible."""
    k = MESH_COUNTER[0]
    MESH_COUNTER[0] += 1
    sc = np.array([1.0 + 0.25 * k, 1.0 + 0.125 * (k % 3), 1.0])
    if elem == "TETRA4":
        m = simlib.small_mesh("tetra2")
        A = np.array([[1.25, 0.25, 0], [0.0, 0.75, 0], [0, 0, 1.5]]) * sc
        return simlib.transform_mesh(m, A=A, b=np.array([0.5, -0.25, 0.0]))
    X = np.array([[0.5, -0.25, 0], [1.75, -0.25, 0], [2.0, 0.5, 0], [0.75, 0.5, 0], [1.5, 1.25, 0]]) * sc
    return simlib.mesh_from_arrays([("TRI3", [[0, 1, 2], [0, 2, 3], [3, 2, 4]]), ("SEG2", [[0, 1], [1, 2], [2, 4], [4, 3], [3, 0]])], X[:, :3]) if elem != "QUAD4" else \
        simlib.mesh_from_arrays([("QUAD4", [[0, 1, 2, 3]]), ("SEG2", [[0, 1], [1, 2], [2, 3], [3, 0]])], X[:4])


class World:
    def __init__(self, sim, elem, shared=False):
        from EasyFEA import Simulations, Models

        self.sim, self.elem = sim, elem
        self.beam = None
        if sim == "beam":
            # one 3-D member along (2,3,6) with a rectangular section (Iy != Iz), Euler-Bernoulli or Timoshenko
            simu, beam, _ = simlib.beam_simu(3, "SEG2", (0.0, 0.0, 0.0), (2.0, 3.0, 6.0), 2, elem == "timoshenko", E=210.0)
            self.sims = [simu]
            self.beam = beam
            self.model = simu.model
        elif sim == "frame":
            # two members meeting at a corner with their own nodes; Lagrange conditions (connections) enlarge the matrix system
            simu, beams, self.frame_nodes = simlib.frame_simu(timoshenko=elem == "timoshenko")
            self.sims = [simu]
            self.beam = beams[0]
            self.beams = beams
            self.model = simu.model
        else:
            mesh = simlib.small_mesh(MESHES[elem])
            self.model = self.new_model(mesh.dim)
            cls = self.sim_class()
            self.sims = [cls(mesh, self.model, verbosity=False)]
            if shared:
                # second simulation on the same model and the same mesh object
                self.sims.append(cls(mesh, self.model, verbosity=False))
            if sim == "hyper":
                for s_ in self.sims:
                    s_.Solver_Set_Hyperbolic_Algorithm(dt=0.25)
        self.extra = []  # (label, got, want) comparisons known independently of the simulation's own state
        self.P = [{"rho": 1.0, "damp": (0.0, 0.0), "bc": [], "algo": None} for _ in self.sims]
        for i, s in enumerate(self.sims):
            self.set_rho(i, 2.5 + i)

    def sim_class(self):
        from EasyFEA import Simulations

        return {"thermal": Simulations.Thermal, "elastic": Simulations.Elastic, "hyper": Simulations.HyperElastic, "phasefield": Simulations.PhaseField}[self.sim]

    # -- construction of models from public parameters
    def new_model(self, dim, src=None):
        from EasyFEA import Models

        if self.sim == "hyper":
            if src is None:
                return Models.HyperElastic.SaintVenantKirchhoff(dim, lmbda=3.0, mu=1.25, thickness=0.75)
            return Models.HyperElastic.SaintVenantKirchhoff(dim, lmbda=src.lmbda, mu=src.mu, thickness=src.thickness)

        if self.sim == "phasefield":
            # Bourdin split: the stress has no value-dependent branch; the elastic law is nested in the phase-field model
            if src is None:
                return Models.PhaseField(Models.Elastic.Isotropic(dim, E=200.0, v=0.25, planeStress=False, thickness=0.75), "Bourdin", "AT2", Gc=1.5, l0=0.25)
            m0 = src.material
            return Models.PhaseField(Models.Elastic.Isotropic(dim, E=m0.E, v=m0.v, planeStress=m0.planeStress, thickness=m0.thickness), src.split, src.regularization, Gc=src.Gc, l0=src.l0)
        if self.sim == "thermal":
            if src is None:
                return Models.Thermal(k=2.5, c=1.25, thickness=0.75)
            return Models.Thermal(k=src.k, c=src.c, thickness=src.thickness)
        if src is None:
            return Models.Elastic.Isotropic(dim, E=200.0, v=0.25, planeStress=True, thickness=0.75)
        return Models.Elastic.Isotropic(dim, E=src.E, v=src.v, planeStress=src.planeStress, thickness=src.thickness)

    def set_rho(self, i, rho):
        self.sims[i].rho = rho
        self.P[i]["rho"] = rho

    def unknowns(self, i=0):
        s = self.sims[i]
        return s.Get_unknowns()

    def apply_bc(self, s, bc):
        kind, nodes, values, unknowns = bc
        nodes = np.asarray(nodes, dtype=int)
        if kind == "dirichlet":
            s.add_dirichlet(nodes, list(values), list(unknowns))
        elif kind == "neumann":
            s.add_neumann(nodes, list(values), list(unknowns))
        elif kind == "volume":
            s.add_volumeLoad(nodes, list(values), list(unknowns))
        elif kind == "weld":
            s.add_connection_fixed(nodes)
        elif kind == "hinge":
            s.add_connection_hinged(nodes)

    def add_bc(self, i, bc):
        self.apply_bc(self.sims[i], bc)
        self.P[i]["bc"].append(bc)

    def fresh(self, i):
        """a simulation constructed directly from the public state of simulation i"""
        from EasyFEA import Simulations

        s = self.sims[i]
        if self.sim == "beam":
            # a member built from scratch with the public parameters of the mutated one
            s2, b2, _ = simlib.beam_simu(3, "SEG2", (0.0, 0.0, 0.0), (2.0, 3.0, 6.0), 2, self.elem == "timoshenko", E=210.0, yAxis=tuple(float(x) for x in self.beam.yAxis),
                                         section=simlib.beam_section_circle() if self.P[i].get("section") == "circle" else None)
            b2.E = self.beam.E
            s2.rho = self.P[i]["rho"]
            for bc in self.P[i]["bc"]:
                self.apply_bc(s2, bc)
            return s2
        if self.sim == "frame":
            s2, b2, _ = simlib.frame_simu(timoshenko=self.elem == "timoshenko")
            for bm, src in zip(b2, self.beams):
                bm.E = src.E
            s2.rho = self.P[i]["rho"]
            for bc in self.P[i]["bc"]:
                self.apply_bc(s2, bc)
            return s2
        cls = self.sim_class()
        s2 = cls(clone_mesh(s.mesh), self.new_model(s.mesh.dim, s.model), verbosity=False)
        if self.sim == "hyper":
            s2.Solver_Set_Hyperbolic_Algorithm(dt=0.25)
        if self.sim == "phasefield":
            # the matrices of both problems depend on the current fields: same state in the fresh simulation, set before its first assembly
            s2._Set_solutions(s2.ProblemTypes.elastic, np.array(s.displacement, copy=True))
            s2._Set_solutions(s2.ProblemTypes.damage, np.array(s.damage, copy=True))
        s2.rho = self.P[i]["rho"]
        if self.P[i]["algo"] is not None and self.sim in ("thermal", "elastic"):
            (s2.Solver_Set_Parabolic_Algorithm if self.sim == "thermal" else s2.Solver_Set_Hyperbolic_Algorithm)(self.P[i]["algo"])
        if self.sim == "elastic":
            a, b_ = self.P[i]["damp"]
            s2.Set_Rayleigh_Damping_Coefs(a, b_)
        for bc in self.P[i]["bc"]:
            self.apply_bc(s2, bc)
        return s2


def warm(w, i=0, solve=True):
    """populate every cache of simulation i"""
    from EasyFEA.FEM import MatrixType

    s = w.sims[i]
    if w.sim in ("beam", "frame"):
        s.Get_K_C_M_F()
        s.Bc_vector_Neumann()
        if solve and w.P[i]["bc"]:
            s.Solve()
            s.Result("N", nodeValues=False) if "N" in s.Results_Available() else None
        return
    if w.sim == "phasefield":
        PT = s.ProblemTypes
        if not np.any(np.asarray(s.damage, dtype=object) != 0):
            nn = s.mesh.Nn
            s._Set_solutions(PT.elastic, np.array([((7 * k) % 11 - 5) / 400 for k in range(nn * s.mesh.dim)]))
            s._Set_solutions(PT.damage, np.array([((3 * k) % 7) / 10 for k in range(nn)]))
            s.Need_Update()  # as Solve() does after changing a field
        s.Get_K_C_M_F(PT.elastic)
        s.Get_K_C_M_F(PT.damage)
        s.Result("psiP", nodeValues=False)
        return
    if w.sim == "hyper":
        # the hyperelastic system is built at the current Newton iterate (set as Solve() does); its element mass matrix is cached on the simulation
        s._Simu__Solver_Set_Newton_Raphson_current_solution(np.zeros(s.mesh.Nn * s.Get_dof_n()))
        s.Get_K_C_M_F(s.problemType)
        return
    s.Get_K_C_M_F()
    for g in s.mesh.Get_list_groupElem():
        for mt in (MatrixType.rigi, MatrixType.mass):
            g.Get_jacobian_e_pg(mt), g.Get_dN_e_pg(mt), g.Get_invF_e_pg(mt), g.Get_F_e_pg(mt)
            if w.sim != "beam":
                g.Get_leftDispPart_e_pg(mt) if w.sim == "elastic" else None
        if w.sim == "elastic":
            g.Get_B_e_pg(MatrixType.rigi)
    _ = s.mesh.center
    s.Bc_vector_Neumann()
    if solve and w.P[i]["bc"]:
        s.Solve()
        s.Save_Iter()
    for name in RESULTS[w.sim]:
        s.Result(name, nodeValues=False)


RESULTS = {"elastic": ["Stress", "Wdef_e"], "thermal": ["thermal"], "hyper": [], "beam": [], "frame": [], "phasefield": []}


# ------------------------------------------------------------------------------------------------ operations
def op_apply(w, name, V, tag):
    """applies the public operation `name` (arguments from V) to world w"""
    s = w.sims[0]
    mesh = s.mesh
    dim = mesh.dim
    m = w.model
    if name == "lmbda":
        m.lmbda = V.get(f"lmbda{tag}", 1, 10)
    elif name == "E":
        (w.beam if w.sim in ("beam", "frame") else m.material if w.sim == "phasefield" else m).E = V.get(f"E{tag}", 50, 500)
    elif name == "Gc":
        m.Gc = V.get(f"Gc{tag}", Fraction(1, 2), 5)
    elif name == "l0":
        m.l0 = V.get(f"l0{tag}", Fraction(1, 10), 1)
    elif name == "regu":
        m.regularization = "AT1" if str(m.regularization).endswith("AT2") else "AT2"
    elif name == "v":
        m.v = V.get(f"nu{tag}", Fraction(1, 10), Fraction(2, 5))
    elif name == "section":
        # another cross-section (public parameter of the beam model): a circle instead of the rectangle the member was built with
        w.beam.section = simlib.beam_section_circle()
        w.P[0]["section"] = "circle"
    elif name == "yAxis":
        # re-orient the section axes of the member in place (enumerated new axis)
        w.beam.yAxis = (1.0, 1.0, 0.0) if tag.endswith("0") else (0.0, 0.0, 1.0)
    elif name == "planeStress":
        m.planeStress = not m.planeStress
    elif name == "thickness":
        (m.material if w.sim == "phasefield" else m).thickness = V.get(f"th{tag}", Fraction(1, 2), 2)
    elif name == "k":
        m.k = V.get(f"k{tag}", 1, 10)
    elif name == "c":
        m.c = V.get(f"c{tag}", 1, 10)
    elif name == "rho":
        w.set_rho(0, V.get(f"rho{tag}", 1, 10))
    elif name in FIELD_OPS:
        # heterogeneous (per-element) field held by the caller: assigned, used, then updated IN PLACE by the caller and assigned again -
        # the second assignment passes the very same array object to the public setter
        base = {"Efield": 200.0, "kfield": 2.5, "rhofield": 2.0}[name]
        arr = np.array([base * (1 + Fraction(1, 8) * e) for e in range(mesh.Ne)], dtype=object) if V.symbolic else np.array([base * (1 + 0.125 * e) for e in range(mesh.Ne)])

        def put(a):
            if name == "Efield":
                m.E = a
            elif name == "kfield":
                m.k = a
            else:
                w.set_rho(0, a)

        put(arr)
        s.Get_K_C_M_F()
        for rname in RESULTS[w.sim]:
            s.Result(rname, nodeValues=False)
        arr[:] = arr * V.get(f"f{tag}", Fraction(1, 2), 2)
        put(arr)
    elif name == "scheme":
        # switch the time scheme: steady <-> transient (symbolic step size)
        if w.P[0]["algo"] is None:
            dt = V.get(f"dt{tag}", Fraction(1, 100), 1)
            (s.Solver_Set_Parabolic_Algorithm if w.sim == "thermal" else s.Solver_Set_Hyperbolic_Algorithm)(dt)
            w.P[0]["algo"] = dt
        else:
            s.Solver_Set_Elliptic_Algorithm()
            w.P[0]["algo"] = None
    elif name == "damping":
        a, b = V.get(f"cM{tag}", 0, 1), V.get(f"cK{tag}", 0, 1)
        s.Set_Rayleigh_Damping_Coefs(a, b)
        w.P[0]["damp"] = (a, b)
    elif name == "translate":
        mesh.Translate(V.get(f"tx{tag}", -1, 1), V.get(f"ty{tag}", -1, 1), V.get(f"tz{tag}", -1, 1) if dim == 3 else 0.0)
    elif name == "rotate":
        th, _, _ = V.angle(f"theta{tag}")
        mesh.Rotate(th, (0.25, 0.5, 0.0), (0, 0, 1))
    elif name == "symmetry":
        off = V.get(f"off{tag}", -1, 1)
        nf = [Fraction(3, 5), Fraction(4, 5), 0]
        pt = np.array([nf[k] * off for k in range(3)], dtype=object if V.symbolic else float)
        mesh.Symmetry(pt, (3, 4, 0))
    elif name in ("coord", "gcoord"):
        # direct assignment of new coordinates: anisotropic scaling about the origin, symbolic factors
        sx, sy = V.get(f"sx{tag}", Fraction(1, 2), 2), V.get(f"sy{tag}", Fraction(1, 2), 2)
        X = mesh.coord
        new = np.array(X, dtype=object if V.symbolic else float)
        new[:, 0] = new[:, 0] * sx
        new[:, 1] = new[:, 1] * sy
        if name == "coord":
            mesh.coord = new
        else:
            for g in mesh.dict_groupElem.values():
                g.coord = new
    elif name == "copymesh":
        # Mesh.copy() of the (already used) mesh; the COPY is stretched and used by another simulation of the same kind, which assembles on it.
        # The simulation under test and its own mesh are not touched: whatever it computes next is what a fresh simulation computes.
        m2 = mesh.copy()
        cx, cy = V.get(f"cx{tag}", Fraction(1, 2), 2), V.get(f"cy{tag}", Fraction(1, 2), 2)
        new = np.array(m2.coord, dtype=object if V.symbolic else float)
        new[:, 0] = new[:, 0] * cx
        new[:, 1] = new[:, 1] * cy
        m2.coord = new
        other = w.sim_class()(m2, w.new_model(m2.dim, s.model), verbosity=False)
        other.Get_K_C_M_F()
    elif name == "newmesh":
        s.mesh = second_mesh(w.elem)
        w.P[0]["bc"] = []  # documented: replacing the mesh re-initialises the boundary conditions
    elif name in ("bc", "weld", "hinge") and w.sim == "frame":
        # clear every condition (Dirichlet, Neumann, Lagrange) and enter another set: the corner is clamped / welded / hinged
        fn = w.frame_nodes
        s.Bc_Init()
        w.P[0]["bc"] = []
        un = w.unknowns()
        w.add_bc(0, ("dirichlet", fn["clamp"], [0] * len(un), un))
        if name == "bc":
            w.add_bc(0, ("dirichlet", fn["corner"][1:], [0] * len(un), un))
        elif name == "weld":
            w.add_bc(0, ("weld", fn["corner"], None, None))
        else:
            w.add_bc(0, ("hinge", fn["corner"], None, None))
            w.add_bc(0, ("dirichlet", fn["corner"][1:], [0], ["rz"]))
        w.add_bc(0, ("neumann", fn["tip"], [V.get(f"q{tag}{k}", -1, 1) for k in range(len(un))], un))
    elif name == "pin" and w.sim == "frame":
        # one more Dirichlet condition on top of the existing ones (no Bc_Init): the rotation of the loaded tip is prescribed.  With connections
        # active the system has one multiplier per constrained dof, so its size changes
        w.add_bc(0, ("dirichlet", w.frame_nodes["tip"], [0], ["rz"]))
    elif name == "bc":
        s.Bc_Init()
        w.P[0]["bc"] = []
        un = w.unknowns()
        nodes = s.mesh.nodes
        w.add_bc(0, ("dirichlet", nodes[:2], [0] * len(un), un))
        w.add_bc(0, ("neumann", nodes[1:], [V.get(f"q{tag}{k}", -1, 1) for k in range(len(un))], un))
    elif name == "bc_add":
        un = w.unknowns()
        nodes = s.mesh.nodes
        w.add_bc(0, ("neumann", nodes[-2:], [V.get(f"p{tag}{k}", -1, 1) for k in range(len(un))], un))
    elif name == "set_iter":
        # save the current iteration, move to another mesh, save again, come back to the first saved iteration
        # (the mesh is the one that was current when the iteration was saved; the boundary conditions were
        #  re-initialised by the mesh replacement)
        s.Save_Iter()
        n0 = s.Niter - 1
        coord0, connect0 = np.asarray(s.mesh.coord, dtype=object).copy(), np.asarray(s.mesh.connect).copy()
        s.mesh = second_mesh(w.elem)
        s.Get_K_C_M_F()
        s.Save_Iter()
        s.Set_Iter(n0)
        w.P[0]["bc"] = []
        # the mesh that comes back is the one that was current when iteration n0 was saved (known independently of the simulation)
        w.extra.append((f"mesh restored by Set_Iter (coordinates) [operation {tag.strip('_')}]", np.asarray(s.mesh.coord, dtype=object).reshape(-1), coord0.reshape(-1)))
        w.extra.append((f"mesh restored by Set_Iter (connectivity) [operation {tag.strip('_')}]", np.asarray(s.mesh.connect, dtype=object).reshape(-1), np.asarray(connect0, dtype=object).reshape(-1)))
    else:
        raise KeyError(name)


FIELD_OPS = ("Efield", "kfield", "rhofield")  # per-element fields: tied to the mesh they were written for (never followed by a mesh replacement)

OPS = {"elastic": ["E", "v", "planeStress", "thickness", "rho", "damping", "translate", "rotate", "symmetry", "coord", "gcoord", "newmesh", "bc", "bc_add", "set_iter", "Efield", "rhofield", "scheme"],
       "thermal": ["k", "c", "thickness", "rho", "translate", "rotate", "symmetry", "coord", "gcoord", "newmesh", "bc", "set_iter", "kfield", "rhofield", "scheme"],
       "hyper": ["lmbda", "thickness", "rho", "translate", "symmetry", "coord", "gcoord", "newmesh"],
       "phasefield": ["E", "Gc", "l0", "regu", "thickness", "translate", "coord", "newmesh"],
       "beam": ["E", "yAxis", "rho", "bc", "section"],
       "frame": ["E", "rho", "bc", "weld", "hinge", "pin"]}


NON_NOTIFYING = ("bc", "bc_add", "weld", "hinge", "scheme", "pin")
OWN_ONLY = ("rho", "rhofield", "damping", "newmesh", "set_iter", "scheme")  # operations on simulation 1 that leave a second simulation sharing its model / mesh untouched


def group_level_tail(ops, i=0, sim=""):
    """True when, for simulation i, the last operation that could refresh what the group-level coordinate assignment left stale is that assignment itself.
    Hyperelastic simulation: its cached element mass matrices are refreshed by MESH notifications only (a model-parameter change raises Need_Update but
    keeps them), so a later `lmbda` change does not count."""
    skip = NON_NOTIFYING + (("lmbda",) if sim == "hyper" else ())
    rest = [o for o in ops if o not in skip and not (i > 0 and o in OWN_ONLY)]
    return bool(rest) and rest[-1] == "gcoord"


def observe(w, i, V, s=None):
    """list of (label, array) observations of simulation i (or of the given fresh simulation)"""
    fresh = s is not None
    s = s if fresh else w.sims[i]
    out = []
    if w.sim == "phasefield":
        PT = s.ProblemTypes
        Ku = s.Get_K_C_M_F(PT.elastic)[0]
        Kd, _, _, Fd = s.Get_K_C_M_F(PT.damage)
        out += [("K", dense(Ku)), ("K_damage", dense(Kd)), ("F_damage", dense(Fd)), ("psiP", np.asarray(s.Result("psiP", nodeValues=False), dtype=object).reshape(-1)),
                ("mesh.coord", np.asarray(s.mesh.coord, dtype=object).reshape(-1))]
        return out
    if w.sim == "hyper":
        n = s.mesh.Nn * s.Get_dof_n()
        s._Simu__Solver_Set_Newton_Raphson_current_solution(V.array(f"newton{n}", n) * Fraction(1, 8) if V.symbolic else V.array(f"newton{n}", n) / 8)
        s.Need_Update()  # Solve() raises it at every Newton iteration
        K, C, M, F = s.Get_K_C_M_F(s.problemType)
        for lab, A in (("K", K), ("M", M), ("F", F)):
            out.append((lab, dense(A)))
        out.append(("mesh.coord", np.asarray(s.mesh.coord, dtype=object).reshape(-1)))
        return out
    n = s.mesh.Nn * s.Get_dof_n()
    u = V.array(f"u{n}", n)
    if w.sim == "elastic":
        # results of an arbitrary state requested BEFORE anything asks for the matrices (nothing has read the law since the last change)
        s._Set_solutions(s.problemType, u)
        for name in RESULTS[w.sim]:
            out.append((f"Result({name!r}) read before the matrices", np.asarray(s.Result(name, nodeValues=False), dtype=object).reshape(-1)))
    K, C, M, F = s.Get_K_C_M_F()
    for lab, A in (("K", K), ("C", C), ("M", M), ("F", F)):
        out.append((lab, dense(A)))
    out.append(("Neumann vector", np.asarray(s.Bc_vector_Neumann(), dtype=object).reshape(-1)))
    out.append(("Dirichlet dofs", np.asarray(s.Bc_dofs_Dirichlet(), dtype=object).reshape(-1)))
    out.append(("Dirichlet values", np.asarray(s.Bc_values_Dirichlet(), dtype=object).reshape(-1)))
    # results of an arbitrary state
    s._Set_solutions(s.problemType, u)
    for name in RESULTS[w.sim]:
        out.append((f"Result({name!r})", np.asarray(s.Result(name, nodeValues=False), dtype=object).reshape(-1)))
    out.append(("mesh.coord", np.asarray(s.mesh.coord, dtype=object).reshape(-1)))
    return out


def dense(M):
    if isinstance(M, facade.SymMatrix):
        return np.asarray(M.a, dtype=object)
    if hasattr(M, "toarray"):
        return np.asarray(M.toarray(), dtype=object)
    return np.asarray(M, dtype=object)


def run(cfg, V):
    """executes the sequence; returns {sim index: (observations of the mutated simulation, of the fresh one)}"""
    import contextlib

    MESH_COUNTER[0] = 0
    w = World(cfg["sim"], cfg["elem"], shared=cfg.get("shared", False))
    un = w.unknowns()
    for i, s in enumerate(w.sims):
        nodes = s.mesh.nodes
        if w.sim == "phasefield":
            warm(w, i)
            continue
        if w.sim == "frame":
            fn = w.frame_nodes
            w.add_bc(i, ("dirichlet", fn["clamp"], [0] * len(un), un))
            w.add_bc(i, ("weld", fn["corner"], None, None))
            w.add_bc(i, ("neumann", fn["tip"], [0.5 + k for k in range(len(un))], un))
            warm(w, i)
            continue
        w.add_bc(i, ("dirichlet", nodes[:1], [0] * len(un), un))
        # nodal loads: their stored values do not depend on the geometry at the time they are added (a distributed load is integrated
        # when it is added; its stored values are data of the configuration, not a cache)
        w.add_bc(i, ("neumann", nodes[1:], [0.5 + k for k in range(len(un))], un))
        warm(w, i)
    sym = facade.symbolic if V.symbolic else contextlib.nullcontext
    solver = stubs.ideal_linear_solver if V.symbolic else contextlib.nullcontext
    with sym(), solver():
        for k, name in enumerate(cfg["ops"]):
            op_apply(w, name, V, f"_{k}")
            if cfg.get("warm_between", True) and k + 1 < len(cfg["ops"]):
                for i in range(len(w.sims)):
                    if w.sim in ("hyper", "phasefield"):
                        warm(w, i)
                        continue
                    w.sims[i].Get_K_C_M_F()
                    w.sims[i].Bc_vector_Neumann()
        out = {}
        for i in range(len(w.sims)):
            got = observe(w, i, V)
            want = observe(w, i, V, s=w.fresh(i))
            if i == 0:
                got = got + [(lab, g) for lab, g, _ in w.extra]
                want = want + [(lab, wv) for lab, _, wv in w.extra]
            out[i] = (got, want)
    return out


def job_seq(cfg):
    res = JobResult(cfg)
    c = new_context()
    facade.install()
    key = f"{cfg['sim']} {cfg['elem']}{' shared model+mesh' if cfg.get('shared') else ''}: " + " -> ".join(cfg["ops"])
    res.functions |= {"_Simu.Get_K_C_M_F", "_Simu.Need_Update", "_Simu._Update", "_Simu.mesh (setter)", "_Simu.Assembly", "_Simu.__Get_csr_map", "Utilities._cache.cache_computed_values",
                      "Utilities._cache.clear_cached_computed_values", "Utilities._params._Parameter.__set__", "Utilities._observers.Observable._Notify", "_IModel.Need_Update",
                      "Mesh.Translate", "Mesh.Rotate", "Mesh.Symmetry", "Mesh.coord (setter)", "_GroupElem.coord (setter)", "_GroupElem._InitMatrix", "_Simu.Bc_Init", "_Simu.Set_Iter",
                      "_Simu.Save_Iter", "_Simu.Bc_vector_Neumann", f"{cfg['sim'].capitalize()}.Construct_local_matrix_system", f"{cfg['sim'].capitalize()}.Result"}
    V = Vals(c)
    mark = c.mark()
    t0 = time.time()
    out = run(cfg, V)
    pcs = c.pc_since(mark)
    res.symbols = V.count
    res.paths, res.path_conditions = 1, len(pcs)

    def make_replay(i, lab):
        def replay(env):
            V2 = Vals(c, env=env or {}, names=V.names)
            facade.install()
            try:
                o2 = run(cfg, V2)
            except Exception as e:  # a crash of the mutated simulation is itself a difference with the fresh one
                return True, {"error_on_replay": f"{type(e).__name__}: {e}"[:300]}
            got = dict(o2[i][0])[lab]
            want = dict(o2[i][1])[lab]
            got, want = np.asarray(got, dtype=float), np.asarray(want, dtype=float)
            if got.shape != want.shape:
                return True, {"shape_after_sequence": list(got.shape), "shape_fresh": list(want.shape)}
            scale = max(1.0, float(np.abs(want).max()) if want.size else 1.0)
            err = float(np.abs(got - want).max() / scale) if want.size else 0.0
            return err > 1e-8, {"observable": lab, "relative_difference_with_fresh_simulation": err,
                                "arguments": {n: (V2._f(v) if not isinstance(v, (tuple, np.ndarray)) else None) for n, v in V.names.items() if not isinstance(v, np.ndarray)}}
        return replay

    first = True
    for i, (got, want) in out.items():
        who = "" if len(out) == 1 else f" [simulation {i + 1} of 2]"
        for (lab, g), (_, wnt) in zip(got, want):
            label = f"{key}{who}: {lab} equals that of a freshly built simulation"
            okey = f"{cfg['sim']} after {' -> '.join(cfg['ops'])}{who}: {lab}"
            if group_level_tail(cfg["ops"], i, cfg["sim"]):
                # the sequence ends with a group-level coordinate assignment that nothing notifying follows: one key per observable,
                # whatever precedes it (the known finding is the call site `_GroupElem.coord = ...`, not the particular history)
                okey = f"{cfg['sim']} after a group-level coordinate assignment (_GroupElem.coord) not followed by a notifying operation: {lab}"
            if cfg["sim"] == "beam" and cfg.get("elem") == "timoshenko" and "section" in cfg["ops"] and lab == "K":
                # the call site is `beam.section = ...` on a Timoshenko member (shear coefficients computed at construction only), whatever the rest of the history
                okey = "beam (Timoshenko) after the cross-section was replaced (beam.section = ...): K"
            if g.shape != wnt.shape:
                res.record(label, Outcome("cex", env={}, how="structure"), make_replay(i, lab), key=okey)
                continue
            worst = None
            hows = set()
            for idx in np.ndindex(*g.shape):
                if facade._isnum0(g[idx]) and facade._isnum0(wnt[idx]):
                    continue
                o = prove_abs_le(as_sym(g[idx]) - as_sym(wnt[idx]), TOL * 1000 if lab in ("K", "C") or lab.startswith("Result('Stress')") or lab.startswith("Result('Wdef_e')") else TOL, pcs, label)
                if o.status != "held":
                    worst = o
                    break
                hows.add(o.how or "exact")
            how = next((h for h in ("relaxation", "exact", "normal-form") if h in hows), "normal-form")
            res.record(label, worst or Outcome("held", how=how), make_replay(i, lab), key=okey,
                       sample=None if not first else {"obligation": label + " (entrywise, for all values of the operation arguments)"})
            first = False
    # reachability twin: K after the sequence differs from 1.001 x fresh K
    g, wnt = dict(out[0][0])["K"], dict(out[0][1])["K"]
    idx = next((ix for ix in np.ndindex(*g.shape) if not facade._isnum0(wnt[ix])), None)
    tw = g.shape != wnt.shape  # a structural difference is itself a reached (and reported) failing comparison
    if idx is not None and g.shape == wnt.shape:
        o = prove_abs_le(as_sym(g[idx]) - as_sym(wnt[idx]) * Fraction(1001, 1000), TOL, pcs, "twin")
        tw = o.status == "cex"
    res.twin(f"{key} twin", tw)
    res.stubs |= facade.USED_STUBS
    return res


# ------------------------------------------------------------------------------------------------ configurations
def configs(tier):
    out = []
    seed = int(os.environ.get("VERIF_SEED", "0") or 0)
    rng = random.Random(1000 + seed)
    for sim, elem in (("elastic", "TRI3"), ("thermal", "TRI3")):
        ops = OPS[sim]
        for o in ops:
            out.append({"sim": sim, "elem": elem, "ops": [o]})
        geo = ["translate", "rotate", "coord", "gcoord", "newmesh", "set_iter"]
        par = [o for o in ops if o not in geo and o not in ("symmetry",)]
        pairs = [(a, b) for a in ops for b in ops]
        for a, b in pairs:
            out.append({"sim": sim, "elem": elem, "ops": [a, b]})
        # histories of mesh replacements and restored iterations: all triples (thorough: quadruples) over the history operations
        hist = ["newmesh", "set_iter", "coord", "bc"]
        for seq in itertools.product(hist, repeat=3):
            out.append({"sim": sim, "elem": elem, "ops": list(seq)})
        if tier == "thorough":
            for seq in itertools.product(hist + ["translate"], repeat=4):
                out.append({"sim": sim, "elem": elem, "ops": list(seq)})
        # shared model and mesh: both simulations observed
        for o in (ops if tier == "thorough" else [par[0], "thickness", "rho", "translate", "coord", "newmesh", "bc"]):
            out.append({"sim": sim, "elem": elem, "ops": [o], "shared": True})
        if tier == "thorough":
            for _ in range(150):
                out.append({"sim": sim, "elem": elem, "ops": [rng.choice(ops) for _ in range(3)]})
            for a, b in pairs[::3]:
                out.append({"sim": sim, "elem": elem, "ops": [a, b], "shared": True})
    # hyperelastic simulation (system at a symbolic Newton iterate, Newmark scheme): its element mass matrix is cached on the simulation
    hops = OPS["hyper"]
    for o in hops:
        out.append({"sim": "hyper", "elem": "TRI3", "ops": [o]})
    for a, b in ([(a, b) for a in hops for b in hops] if tier == "thorough" else [("newmesh", "coord"), ("coord", "rho"), ("rho", "coord"), ("translate", "coord"), ("coord", "newmesh"), ("thickness", "coord")]):
        out.append({"sim": "hyper", "elem": "TRI3", "ops": [a, b]})
    # two-field phase-field simulation (Bourdin split), matrices of both problems at a fixed non-trivial state (u, d)
    pops = OPS["phasefield"]
    for o in pops:
        out.append({"sim": "phasefield", "elem": "TRI3", "ops": [o]})
    for a, b in ([(a, b) for a in pops for b in pops] if tier == "thorough" else [("E", "coord"), ("coord", "Gc"), ("regu", "l0"), ("newmesh", "E"), ("translate", "regu"), ("Gc", "newmesh"), ("l0", "thickness")]):
        out.append({"sim": "phasefield", "elem": "TRI3", "ops": [a, b]})
    # beam member: the frame of the section (yAxis) is a model parameter the element matrices depend on
    for kind in (("eulerbernoulli", "timoshenko") if tier == "thorough" else ("eulerbernoulli",)):
        bops = OPS["beam"]
        for o in bops:
            out.append({"sim": "beam", "elem": kind, "ops": [o]})
        for a, b in [(a, b) for a in bops for b in bops]:
            out.append({"sim": "beam", "elem": kind, "ops": [a, b]})
    if tier != "thorough":
        out.append({"sim": "beam", "elem": "timoshenko", "ops": ["section"]})  # the Timoshenko member whose section is replaced (known finding) in the quick tier too
    # Mesh.copy(): what another simulation does with the copy never reaches this simulation (followed by a change that forces a re-assembly)
    for sim_, elem_, second in (("elastic", "TRI3", "E"), ("elastic", "TRI3", "rho"), ("thermal", "TRI3", "k"), ("thermal", "TRI3", "rho"), ("elastic", "TRI3", "translate")):
        out.append({"sim": sim_, "elem": elem_, "ops": ["copymesh", second]})
        if tier == "thorough":
            out.append({"sim": sim_, "elem": elem_, "ops": [second, "copymesh", second]})
    # a per-element field is written for one mesh: sequences that replace the mesh after it are not meaningful
    out = [cf for cf in out if not any(o in FIELD_OPS and any(b in ("newmesh", "set_iter") for b in cf["ops"][k + 1:]) for k, o in enumerate(cf["ops"]))]
    # ... and a model shared by two simulations on meshes of different sizes cannot carry one per-element field
    out = [cf for cf in out if not (cf.get("shared") and any(o in FIELD_OPS for o in cf["ops"]) and any(o in ("newmesh", "set_iter") for o in cf["ops"]))]
    # two-member frame: connections are Lagrange conditions, the matrix system is sized for their multipliers
    for kind in (("eulerbernoulli", "timoshenko") if tier == "thorough" else ("eulerbernoulli",)):
        fops = OPS["frame"]
        for o in fops:
            out.append({"sim": "frame", "elem": kind, "ops": [o]})
        for a, b in [(a, b) for a in fops for b in fops]:
            out.append({"sim": "frame", "elem": kind, "ops": [a, b]})
    extra = [("elastic", "QUAD4"), ("elastic", "TETRA4")] if tier == "thorough" else []
    for sim, elem in extra:
        for o in OPS[sim]:
            if elem == "TETRA4" and o in ("planeStress", "thickness"):
                continue
            out.append({"sim": sim, "elem": elem, "ops": [o]})
    return out


def job(cfg):
    return job_seq(cfg)


def main():
    t0 = time.time()
    tier = harness.tier()
    cfgs = configs(tier)
    results = harness.run_jobs(job, cfgs)
    harness.finish(
        PID, results, t0=t0,
        explanation="Bounded symbolic execution + SMT. A real simulation is built concretely and all its caches are populated; a sequence of public mutating operations is then executed with "
                    "symbolic arguments through the unmodified setters / mesh motions / mesh replacement / Bc_Init / Set_Iter; a second simulation is constructed from the public state of the "
                    "first (mesh.coord + connectivity, model parameters, rho, damping, boundary conditions) with the same symbols, and K, C, M, F, the Neumann vector, the Dirichlet data and "
                    "results of an arbitrary (havoc) state are compared entrywise, for all values of the symbols, by z3 (normal form / exact / relaxation). Both simulations are observed when "
                    "the model and the mesh are shared.",
        bound={"hyperelastic": "SaintVenantKirchhoff + Newmark, system (K, M, F) at a symbolic Newton iterate; singles + selected pairs (quick) / all pairs (thorough)", "sequence_length": "1, 2 (all ordered pairs of operations, both tiers); thorough: + 150 seed-drawn triples per simulation type, pairs on shared model + mesh, QUAD4 / TETRA4 singles",
               "meshes": "tri4 (4 TRI3 + boundary SEG2 + POINT groups), thorough also quad2, tetra2; replacement mesh = affine image of another small mesh",
               "operations": OPS, "simulations": "Elastic (isotropic), Thermal, HyperElastic; shared model + mesh variants", "tolerance": "1e-9 (1e-6 x for K, C and stress-like results)"},
        symbolic=["moduli, Poisson ratio, thickness, conductivity, capacity, density, Rayleigh coefficients", "translation vector, rotation (c, s), reflection offset, scale factors of directly assigned coordinates",
                  "load components", "the state (u) used to evaluate results"],
        assumptions=["the fresh simulation is built from the public state read back from the mutated one (mesh.coord, model parameters): wrong motions themselves are C08 / C10",
                     "inelastic, phase-field and beam simulations are not in the sequences; the hyperelastic system is observed at a havoc Newton iterate, not after a Newton solve", "the linear solve used to warm the caches is the real one (concrete initial configuration)"],
        source_files=["EasyFEA/Utilities/_cache.py", "EasyFEA/Utilities/_params.py", "EasyFEA/Utilities/_observers.py", "EasyFEA/Simulations/_simu.py", "EasyFEA/FEM/_mesh.py", "EasyFEA/FEM/_group_elem.py",
                      "EasyFEA/Models/_utils.py", "EasyFEA/Models/Elastic/_laws.py", "EasyFEA/Models/_thermal.py", "EasyFEA/Simulations/_elastic.py", "EasyFEA/Simulations/_thermal.py"],
        rule="one job per (simulation type, operation sequence, shared or not); non-trivial = at least one symbolic operation argument or a mesh replacement",
        exhaustive=False,
    )


if __name__ == "__main__":
    main()
