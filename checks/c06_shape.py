"""C06 - shape functions interpolate and their derivative tables are the true derivatives.

The real lambdas of `_N/_dN/_ddN/_dddN/_ddddN` (and the Hermite tables) are executed on symbolic
reference coordinates; every claim is a polynomial identity over the whole reference element, decided
by z3 (exact QF_LRA/QF_NRA or the monomial-box relaxation) with tolerance 1e-11.
"""

import sys
import time
from fractions import Fraction

import numpy as np

from engine import harness, smt
from engine.harness import JobResult
from engine.oblig import prove_abs_le, Outcome
from engine.poly import Poly
from engine.sym import Sym, as_sym, ctx, new_context, _vid, Cond
from checks.common import (
    LAGRANGE_TYPES, make_group, reference_point, topology, completeness_set, lagrange_derivative,
)

TOL = Fraction(1, 10 ** 11)
PID = "C06"
HERMITE = ["EULER_BERNOULLI2", "EULER_BERNOULLI3", "EULER_BERNOULLI4", "EULER_BERNOULLI5"]


def _point_from_env(env, vs):
    c = ctx()
    return [float(env.get(_vid(v), c.shadow[_vid(v)])) for v in vs]


def _call(f, vs):
    return as_sym(f(*vs))


def job_lagrange(cfg):
    elemType, max_order, cross = cfg["elem"], cfg["max_order"], cfg.get("cross", False)
    res = JobResult(cfg)
    new_context()
    grp = make_group(elemType)
    dim, order, nPe = grp.dim, grp.order, grp.nPe
    topo = topology(elemType)
    vs, assume, desc = reference_point(topo, dim)
    res.symbols = dim
    cls = type(grp).__name__
    res.functions |= {f"Elems.{cls}._N", f"Elems.{cls}._dN", f"Elems.{cls}._ddN", f"Elems.{cls}._dddN",
                      f"Elems.{cls}._ddddN", f"Elems.{cls}.Get_Local_Coords", "_GroupElem._Init_Functions"}
    Nfun = [f[0] for f in grp._N()]
    loc = np.asarray(grp.Get_Local_Coords(), dtype=float)
    assert loc.shape == (nPe, dim), "Get_Local_Coords shape"
    N = [_call(f, vs) for f in Nfun]
    for n_ in N:
        if not n_.is_poly():
            raise RuntimeError("shape function is not polynomial")

    # --- (a) Kronecker property at the code's own node coordinates (ground, exact rational arithmetic)
    for i, f in enumerate(Nfun):
        for j in range(nPe):
            pt = [as_sym(float(x)) for x in loc[j]]
            val = as_sym(f(*pt)).const_value()
            target = 1 if i == j else 0
            ok = abs(val - target) <= TOL
            out = Outcome("held", how="ground-exact") if ok else Outcome("cex", env={}, how="ground")

            def replay(env, f=f, j=j, target=target):
                v = float(f(*[float(x) for x in loc[j]]))
                return abs(v - target) > float(TOL) / 2, {"N_index": i, "node": j, "value": v, "expected": target}

            res.record(f"{elemType} N{i}(node{j})", out, replay, key=f"{elemType} nodal N{i}@node{j}")

    # --- (b) partition of unity over the whole reference element
    tot = N[0]
    for n_ in N[1:]:
        tot = tot + n_

    def replay_pu(env):
        p = _point_from_env(env, vs)
        v = sum(float(f(*p)) for f in Nfun)
        return abs(v - 1) > float(TOL) / 2, {"point": p, "sum_N": v}

    res.record(f"{elemType} partition of unity", prove_abs_le(tot - 1, TOL, assume, f"{elemType} sumN=1"),
               replay_pu, key=f"{elemType} partition-of-unity",
               sample={"elem": elemType, "obligation": "for all points of " + desc + ": |sum_i N_i - 1| <= 1e-11"})

    # reachability twin: a claim that is true at the shadow point and false elsewhere must come back sat and replay
    r0 = vs[0]
    twin = (tot - 1) + (r0 - ctx().shadow[_vid(r0)]) * Fraction(1, 1000)
    o = prove_abs_le(twin, TOL, assume, f"{elemType} twin")
    refuted = False
    if o.status == "cex":
        p = _point_from_env(o.env, vs)
        v = sum(float(f(*p)) for f in Nfun) - 1 + (p[0] - float(ctx().shadow[_vid(r0)])) / 1000
        refuted = abs(v) > float(TOL) / 2
    res.twin(f"{elemType} partition twin", refuted)

    # --- (c) completeness: sum_i x_i^a N_i(x) = x^a
    for exps in completeness_set(elemType, dim, order):
        if sum(exps) == 0:
            continue
        lhs = as_sym(0)
        for i in range(nPe):
            w = Fraction(1)
            for d, e in enumerate(exps):
                w *= Fraction(float(loc[i, d])) ** e
            lhs = lhs + N[i] * w
        rhs = as_sym(1)
        for d, e in enumerate(exps):
            rhs = rhs * vs[d] ** e

        def replay_c(env, exps=exps):
            p = _point_from_env(env, vs)
            l = sum(float(Nfun[i](*p)) * np.prod([loc[i, d] ** e for d, e in enumerate(exps)]) for i in range(nPe))
            r = np.prod([p[d] ** e for d, e in enumerate(exps)])
            return abs(l - r) > float(TOL) / 2, {"point": p, "monomial": exps, "interpolated": l, "exact": r}

        res.record(f"{elemType} reproduces x^{exps}", prove_abs_le(lhs - rhs, TOL, assume, f"{elemType} mono{exps}"),
                   replay_c, key=f"{elemType} completeness {exps}")

    # --- (d) derivative tables = derivatives of the tabulated N, k = 1..max_order, at every point
    tables = {1: grp._dN, 2: grp._ddN, 3: grp._dddN, 4: grp._ddddN}
    for k in range(1, max_order + 1):
        tab = tables[k]()
        tab = np.asarray(tab, dtype=object).reshape(nPe, -1)
        if tab.shape[1] != dim:
            res.harness_errors.append({"label": f"{elemType} table order {k}", "detail": f"shape {tab.shape}"})
            continue
        for i in range(nPe):
            d_exact = [N[i]] * dim
            for d in range(dim):
                der = N[i]
                for _ in range(k):
                    der = der.diff(vs[d])
                tv = _call(tab[i, d], vs)

                def replay_d(env, i=i, d=d, k=k, f=tab[i, d]):
                    p = _point_from_env(env, vs)
                    tabv = float(f(*p))
                    ref = lagrange_derivative(Nfun[i], p[d], d, p, k)
                    return abs(tabv - ref) > float(TOL) / 2 + 1e-12, {"point": p, "N": i, "axis": d, "order": k, "table": tabv, "derivative_of_N": ref}

                res.record(f"{elemType} d^{k}N{i}/dx{d}^{k}", prove_abs_le(tv - der, TOL, assume, f"{elemType} d{k}N{i},{d}"),
                           replay_d, key=f"{elemType} derivative-table order{k} N{i} axis{d}",
                           sample=None if (i or d or k > 1) else {"elem": elemType, "obligation": f"for all points: |dN_table[{i}][{d}] - dN_{i}/dx_{d}| <= 1e-11"})
    # --- (e) the number TYPE of the evaluation point does not matter: at nodes with integral reference coordinates, every table entry
    #     evaluated on Python ints, numpy integer scalars and integer arrays equals its value on the same point given as floats
    int_nodes = [j for j in range(nPe) if all(float(x) == int(x) for x in loc[j])]
    allfun = [("N", i, 0, f) for i, f in enumerate(Nfun)]
    for k in range(1, max_order + 1):
        tabk = np.asarray(tables[k](), dtype=object).reshape(nPe, -1)
        allfun += [(f"d{k}N", i, d, tabk[i, d]) for i in range(nPe) for d in range(tabk.shape[1])]
    bad_int = []
    for name, i, d, f in allfun:
        for j in int_nodes:
            pf = [float(x) for x in loc[j]]
            pi = [int(x) for x in loc[j]]
            ref = float(f(*pf))
            try:
                vals = [float(f(*pi)), float(f(*[np.int64(x) for x in pi])), float(np.asarray(f(*[np.array([x, x], dtype=int) for x in pi]), dtype=float).reshape(-1)[0])]
            except Exception as e:
                bad_int.append((name, i, d, j, repr(e)[:80]))
                continue
            if any(abs(v - ref) > 1e-12 for v in vals):
                bad_int.append((name, i, d, j, vals, ref))
    if int_nodes:
        res.record(f"{elemType} tables on integer-typed points", Outcome("held", how="ground-exact") if not bad_int else Outcome("cex", env={}, how="ground", detail=str(bad_int[:3])),
                   lambda env: (bool(bad_int), {"entries_differing_between_integer_and_float_points": len(bad_int), "first": str(bad_int[:3])}), key=f"{elemType} integer-typed evaluation points")
    # --- (f) what the library hands out AT INTEGRATION POINTS (Get_N_pg, Get_dN_pg, ..., Get_ddddN_pg, every matrix type): entry [p, d, i] is the
    #     k-th derivative of N_i along axis d - the SYMBOLIC derivative formed above, not the table - at Gauss point p (exact substitution)
    from EasyFEA.FEM._utils import MatrixType

    getters = {0: grp.Get_N_pg, 1: grp.Get_dN_pg, 2: grp.Get_ddN_pg, 3: grp.Get_dddN_pg, 4: grp.Get_ddddN_pg}
    ders = {0: [[n_] for n_ in N]}
    for k in range(1, max_order + 1):
        ders[k] = [[None] * dim for _ in range(nPe)]
        for i in range(nPe):
            for d in range(dim):
                der = N[i] if k == 1 else ders[k - 1][i][d]
                ders[k][i][d] = der.diff(vs[d])
    for mt in ("rigi", "mass"):
        try:
            gp = np.asarray(grp.Get_gauss(MatrixType(mt)).coord, dtype=float)
        except Exception:
            continue
        worst = (0.0, None)
        for k in range(0, max_order + 1):
            arr = np.asarray(getters[k](MatrixType(mt)), dtype=float)
            nd = 1 if k == 0 else dim
            if arr.shape != (gp.shape[0], nd, nPe):
                worst = (float("inf"), (k, "shape", arr.shape))
                break
            for p_ in range(gp.shape[0]):
                env = {_vid(v): Fraction(float(gp[p_, d])) for d, v in enumerate(vs)}
                for i in range(nPe):
                    for d in range(nd):
                        ref = float(as_sym(ders[k][i][d]).eval(env))
                        err = abs(float(arr[p_, d, i]) - ref)
                        if err > worst[0]:
                            worst = (err, (k, p_, d, i, float(arr[p_, d, i]), ref))
        ok = worst[0] <= 1e-10
        res.record(f"{elemType} arrays at the '{mt}' integration points = derivatives of N there (orders 0..{max_order})",
                   Outcome("held", how="ground-exact") if ok else Outcome("cex", env={}, how="ground", detail=str(worst)),
                   lambda env, worst=worst: (True, {"worst_error": worst[0], "order_point_axis_function_got_expected": str(worst[1])}), key=f"{elemType} derivative arrays at {mt} integration points")
    # one cvc5 cross-check per element (partition of unity)
    if cross:
        conds = ctx().domain_conds({_vid(v) for v in vs}) + assume
        P = (tot - 1).n
        if not P.is_zero():
            goal = ("or", [Cond(P.sub(Poly.const(TOL)), ">"), Cond(P.add(Poly.const(TOL)), "<")])
            st, _ = smt.decide(conds + [goal], 20000, f"{elemType} PU exact")
            if st in ("sat", "unsat"):
                agree = smt.cross_check(conds + [goal], st, 20000)
                if agree is False:
                    res.harness_errors.append({"label": f"{elemType} cvc5 disagrees", "detail": st})
    res.paths = 1
    return res


def job_hermite(cfg):
    name, cross = cfg["elem"], cfg.get("cross", False)
    res = JobResult(cfg)
    new_context()
    from EasyFEA.FEM.Elems import _beam

    cls = getattr(_beam, name)
    base = {"EULER_BERNOULLI2": "SEG2", "EULER_BERNOULLI3": "SEG3", "EULER_BERNOULLI4": "SEG4", "EULER_BERNOULLI5": "SEG5"}[name]
    seg = make_group(base)
    grp = cls(seg.gmshId, seg.connect, np.pad(np.asarray(seg.Get_Local_Coords(), float), ((0, 0), (0, 2))))
    nPe = grp.nPe
    c = ctx()
    r = c.var("r", -1, 1)
    vs = [r]
    res.symbols = 1
    res.functions |= {f"Elems._beam.{name}._Hermitian_N", f"Elems._beam.{name}._Hermitian_dN",
                      f"Elems._beam.{name}._Hermitian_ddN", f"Elems._beam.{name}._Hermitian_dddN"}
    Hf = [f[0] for f in np.asarray(grp._Hermitian_N(), dtype=object).reshape(2 * nPe, -1)]
    H = [_call(f, vs) for f in Hf]
    loc = [float(x) for x in np.asarray(grp.Get_Local_Coords(), float)[:, 0]]
    # nodal value / slope conditions: phi_i(x_j)=delta, phi_i'(x_j)=0, psi_i(x_j)=0, 2*psi_i'(x_j)=delta
    for i in range(nPe):
        for kind, f, sym in (("phi", Hf[2 * i], H[2 * i]), ("psi", Hf[2 * i + 1], H[2 * i + 1])):
            dsym = sym.diff(r)
            for j in range(nPe):
                xj = Fraction(loc[j])
                val = sym.eval({_vid(r): xj})
                slope = dsym.eval({_vid(r): xj})
                if kind == "phi":
                    tv, ts = (1 if i == j else 0), 0
                else:
                    tv, ts = 0, (Fraction(1, 2) if i == j else 0)
                for what, got, want, order in (("value", val, tv, 0), ("slope", slope, ts, 1)):
                    ok = abs(got - want) <= TOL
                    out = Outcome("held", how="ground-exact") if ok else Outcome("cex", env={}, how="ground")

                    def replay(env, f=f, j=j, want=want, order=order):
                        if order == 0:
                            v = float(f(loc[j]))
                        else:
                            v = lagrange_derivative(f, loc[j], 0, [loc[j]], 1, npts=13)
                        return abs(v - float(want)) > 1e-10, {"function": kind, "own_node": i, "at_node": j, "what": what, "value": v, "expected": float(want)}

                    res.record(f"{name} {kind}{i} {what}@node{j}", out, replay, key=f"{name} {kind}{i} {what}@node{j}")
    # derivative chain over the whole reference interval
    tables = {1: grp._Hermitian_dN, 2: grp._Hermitian_ddN, 3: grp._Hermitian_dddN}
    for k, tabf in tables.items():
        tab = np.asarray(tabf(), dtype=object).reshape(2 * nPe, -1)
        for i in range(2 * nPe):
            der = H[i]
            for _ in range(k):
                der = der.diff(r)
            tv = _call(tab[i, 0], vs)

            def replay_d(env, i=i, k=k, f=tab[i, 0]):
                p = _point_from_env(env, vs)
                tabv = float(f(*p))
                ref = lagrange_derivative(Hf[i], p[0], 0, p, k, npts=13)
                return abs(tabv - ref) > 1e-10, {"point": p, "H": i, "order": k, "table": tabv, "derivative_of_H": ref}

            res.record(f"{name} d^{k}H{i}", prove_abs_le(tv - der, TOL, [], f"{name} d{k}H{i}"), replay_d,
                       key=f"{name} derivative-table order{k} H{i}",
                       sample=None if (i or k > 1) else {"elem": name, "obligation": "for all r in [-1,1]: |dH_table[0] - dH_0/dr| <= 1e-11"})
    # reproduction: the Hermite interpolant of a polynomial of degree <= 2 nPe - 1 is the polynomial itself
    for deg in range(2 * nPe):
        lhs = as_sym(0)
        for i in range(nPe):
            xi = Fraction(loc[i])
            lhs = lhs + H[2 * i] * xi ** deg
            lhs = lhs + H[2 * i + 1] * (2 * deg * xi ** (deg - 1) if deg else 0)
        rhs = r ** deg

        def replay_r(env, deg=deg):
            p = _point_from_env(env, vs)
            l = sum(float(Hf[2 * i](*p)) * loc[i] ** deg + float(Hf[2 * i + 1](*p)) * (2 * deg * loc[i] ** (deg - 1) if deg else 0) for i in range(nPe))
            return abs(l - p[0] ** deg) > 1e-10, {"point": p, "degree": deg, "interpolant": l, "exact": p[0] ** deg}

        res.record(f"{name} reproduces r^{deg}", prove_abs_le(lhs - rhs, TOL, [], f"{name} r^{deg}"), replay_r,
                   key=f"{name} reproduction degree {deg}")
    # twin
    twin = (H[0] - H[0]) + (r - c.shadow[_vid(r)]) * Fraction(1, 1000)
    o = prove_abs_le(twin, TOL, [], f"{name} twin")
    res.twin(f"{name} twin", o.status == "cex")
    res.paths = 1
    return res


def job(cfg):
    return job_hermite(cfg) if cfg["kind"] == "hermite" else job_lagrange(cfg)


def main():
    t0 = time.time()
    tier = harness.tier()
    max_order = 4
    configs = [{"kind": "lagrange", "elem": e, "max_order": max_order, "cross": True} for e in LAGRANGE_TYPES]
    configs += [{"kind": "hermite", "elem": e, "cross": True} for e in HERMITE]
    # biggest first for load balance
    configs.sort(key=lambda c: -{"HEXA27": 9, "HEXA20": 8, "PRISM18": 7, "PRISM15": 6, "TRI15": 5}.get(c["elem"], 0))
    results = harness.run_jobs(job, configs)
    harness.finish(
        PID, results, t0=t0,
        explanation="Bounded symbolic execution + SMT: the real shape-function lambdas are run on symbolic reference coordinates "
                    "(exact rational normal form, float literals taken at their exact binary value); each identity is decided for every "
                    "point of the reference element by z3 (exact QF_LRA/QF_NRA query, or its monomial-box QF_LRA relaxation), cvc5 re-decides "
                    "one query per element; counterexamples are replayed on the plain lambdas.",
        bound={"element_types": LAGRANGE_TYPES, "hermite_families": HERMITE, "derivative_orders": [1, 2, 3, 4],
               "tolerance": "1e-11 absolute", "domain": "whole reference element (box / simplex / prism)"},
        symbolic=["reference coordinates r, s, t"],
        assumptions=["floating-point evaluation error of the lambdas themselves is outside the claim (real-number semantics over exact binary constants)",
                     "completeness is asserted for total degree <= order (all types) and the full tensor space for QUAD4/9, HEXA8/27, PRISM6/18"],
        source_files=["EasyFEA/FEM/Elems", "EasyFEA/FEM/_group_elem.py"],
        rule="one job per element class; an obligation is one identity (nodal value, partition of unity, monomial reproduction, table entry = derivative) "
             "quantified over all points; a job is non-trivial when it carries symbolic variables and at least one obligation",
        exhaustive=True,
    )


if __name__ == "__main__":
    main()
